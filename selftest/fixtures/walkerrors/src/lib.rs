//! Positive control for the zero-expected WHO rules of C20 and C13: a miniature with the forbidden
//! constructs.  It is analysed (never run) on every check; the rules must report each construct.
pub mod walkdir {
    pub struct Error(pub String);
    pub struct IntoIter;
    impl IntoIter {
        pub fn skip_current_dir(&mut self) {}
    }
}

pub mod walk {
    pub struct WalkError(pub String);

    /// Swallows error items: the `Err(_)` arm drops a WalkError (C20.nodrop must report it).
    pub fn swallow(items: Vec<Result<u32, WalkError>>) -> u32 {
        let mut n = 0;
        for item in items {
            match item {
                Ok(x) => n += x,
                Err(_) => continue,
            }
        }
        n
    }

    /// Discards an error through a library sink (C20.sink must report `Result::ok`).
    pub fn sink(item: Result<u32, WalkError>) -> Option<u32> {
        item.ok()
    }

    /// A second caller of skip_current_dir (C13.skip must report it).
    pub fn rogue_skip(it: &mut crate::walkdir::IntoIter) {
        it.skip_current_dir();
    }
}
