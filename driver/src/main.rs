//! waxfacts: rustc_private driver that dumps type-checked facts (items, ADTs, evaluated consts,
//! THIR bodies, MIR facts) of the crate named by WAXFACTS_CRATE (default `wax`) as one JSON file
//! (path in WAXFACTS_OUT). It never runs the analysed code. Used as RUSTC_WORKSPACE_WRAPPER.
#![feature(rustc_private)]
#![allow(clippy::all)]

extern crate rustc_abi;
extern crate rustc_ast;
extern crate rustc_data_structures;
extern crate rustc_driver;
extern crate rustc_hir;
extern crate rustc_index;
extern crate rustc_interface;
extern crate rustc_middle;
extern crate rustc_span;

mod instances;
mod json;
mod mirfacts;
mod thirfacts;

use json::J;
use rustc_hir::def::DefKind;
use rustc_hir::def_id::{DefId, LOCAL_CRATE};
use rustc_middle::mir::ConstValue;
use rustc_middle::ty::print::with_no_trimmed_paths;
use rustc_middle::ty::{self, Ty, TyCtxt};
use rustc_span::Span;
use std::collections::HashMap;

pub struct Cx<'tcx> {
    pub tcx: TyCtxt<'tcx>,
    pub types: Vec<J>,
    pub type_ix: HashMap<Ty<'tcx>, usize>,
    pub adts: Vec<DefId>,
    pub adt_seen: HashMap<DefId, ()>,
}

impl<'tcx> Cx<'tcx> {
    pub fn path(&self, did: DefId) -> String {
        with_no_trimmed_paths!(self.tcx.def_path_str(did))
    }

    /// Stable-within-one-extraction key: crate name + verbose def path.
    pub fn key(&self, did: DefId) -> String {
        let krate = self.tcx.crate_name(did.krate);
        format!("{}{}", krate, self.tcx.def_path(did).to_string_no_crate_verbose())
    }

    pub fn loc(&self, span: Span) -> (String, usize, bool) {
        let exp = span.from_expansion();
        let sp = span.source_callsite();
        let sm = self.tcx.sess.source_map();
        let lo = sm.lookup_char_pos(sp.lo());
        let file = match &lo.file.name {
            rustc_span::FileName::Real(r) => match r.local_path() {
                Some(p) => p.to_string_lossy().into_owned(),
                None => format!("{:?}", r),
            },
            other => format!("{:?}", other),
        };
        (file, lo.line, exp)
    }

    pub fn ty(&mut self, ty: Ty<'tcx>) -> J {
        J::I(self.ty_ix(ty) as i128)
    }

    pub fn ty_ix(&mut self, ty: Ty<'tcx>) -> usize {
        if let Some(&i) = self.type_ix.get(&ty) {
            return i;
        }
        let ix = self.types.len();
        self.types.push(J::Null);
        self.type_ix.insert(ty, ix);
        let s = with_no_trimmed_paths!(ty.to_string());
        let mut o: Vec<(&'static str, J)> = vec![("s", J::S(s))];
        match ty.kind() {
            ty::Bool => o.push(("k", J::s("bool"))),
            ty::Char => o.push(("k", J::s("char"))),
            ty::Int(_) => o.push(("k", J::s("int"))),
            ty::Uint(_) => o.push(("k", J::s("uint"))),
            ty::Float(_) => o.push(("k", J::s("float"))),
            ty::Str => o.push(("k", J::s("str"))),
            ty::Never => o.push(("k", J::s("never"))),
            ty::Adt(def, args) => {
                o.push(("k", J::s("adt")));
                o.push(("adt", J::S(self.path(def.did()))));
                if !self.adt_seen.contains_key(&def.did()) {
                    self.adt_seen.insert(def.did(), ());
                    self.adts.push(def.did());
                }
                let mut targs = vec![];
                for a in args.iter() {
                    if let Some(t) = a.as_type() {
                        targs.push(self.ty(t));
                    }
                }
                o.push(("args", J::A(targs)));
            }
            ty::Ref(_, inner, m) => {
                o.push(("k", J::s("ref")));
                o.push(("mut", J::B(m.is_mut())));
                let t = self.ty(*inner);
                o.push(("to", t));
            }
            ty::RawPtr(inner, _) => {
                o.push(("k", J::s("ptr")));
                let t = self.ty(*inner);
                o.push(("to", t));
            }
            ty::Slice(inner) => {
                o.push(("k", J::s("slice")));
                let t = self.ty(*inner);
                o.push(("to", t));
            }
            ty::Array(inner, _) => {
                o.push(("k", J::s("array")));
                let t = self.ty(*inner);
                o.push(("to", t));
            }
            ty::Tuple(elems) => {
                o.push(("k", J::s("tuple")));
                let mut v = vec![];
                for e in elems.iter() {
                    v.push(self.ty(e));
                }
                o.push(("elems", J::A(v)));
            }
            ty::FnDef(did, args) => {
                o.push(("k", J::s("fndef")));
                o.push(("fn", J::S(self.path(*did))));
                o.push(("fnkey", J::S(self.key(*did))));
                let mut targs = vec![];
                for a in args.iter() {
                    if let Some(t) = a.as_type() {
                        targs.push(self.ty(t));
                    }
                }
                o.push(("args", J::A(targs)));
            }
            ty::Closure(did, _) => {
                o.push(("k", J::s("closure")));
                o.push(("fnkey", J::S(self.key(*did))));
            }
            ty::Param(p) => {
                o.push(("k", J::s("param")));
                o.push(("name", J::S(p.name.to_string())));
            }
            ty::Alias(..) => o.push(("k", J::s("alias"))),
            ty::Dynamic(..) => o.push(("k", J::s("dyn"))),
            ty::FnPtr(..) => o.push(("k", J::s("fnptr"))),
            _ => o.push(("k", J::s("other"))),
        }
        self.types[ix] = J::O(o);
        ix
    }

    fn const_value_json(&mut self, cv: ConstValue, ty: Ty<'tcx>, depth: usize) -> J {
        let tcx = self.tcx;
        if depth > 6 {
            return J::Null;
        }
        match ty.kind() {
            ty::Bool | ty::Char | ty::Int(_) | ty::Uint(_) => {
                if let ConstValue::Scalar(rustc_middle::mir::interpret::Scalar::Int(si)) = cv {
                    let bits = si.to_bits_unchecked();
                    return match ty.kind() {
                        ty::Bool => J::O(vec![("t", J::s("bool")), ("v", J::B(bits != 0))]),
                        ty::Char => J::O(vec![
                            ("t", J::s("char")),
                            ("v", J::S(char::from_u32(bits as u32).map(|c| c.to_string()).unwrap_or_default())),
                        ]),
                        ty::Int(_) => J::O(vec![("t", J::s("int")), ("v", J::I(si.size().sign_extend(bits)))]),
                        _ => J::O(vec![("t", J::s("int")), ("v", J::U(bits))]),
                    };
                }
                J::Null
            }
            ty::Adt(def, _) => {
                // NonZero and friends are transparent newtypes with private fields: still destructurable
                let Some(d) = tcx.try_destructure_mir_constant_for_user_output(cv, ty) else { return J::Null };
                let vidx = d.variant.unwrap_or(rustc_abi::FIRST_VARIANT);
                if vidx.as_usize() >= def.variants().len() {
                    return J::Null;
                }
                let v = def.variant(vidx);
                let mut fields = vec![];
                for (i, (fcv, fty)) in d.fields.iter().enumerate() {
                    let name = v.fields.iter().nth(i).map(|f| f.name.to_string()).unwrap_or_else(|| i.to_string());
                    let val = self.const_value_json(*fcv, *fty, depth + 1);
                    fields.push(J::O(vec![("name", J::S(name)), ("val", val)]));
                }
                J::O(vec![
                    ("t", J::s("adt")),
                    ("adt", J::S(self.path(def.did()))),
                    ("variant", J::S(v.name.to_string())),
                    ("fields", J::A(fields)),
                ])
            }
            ty::Tuple(_) => {
                let Some(d) = tcx.try_destructure_mir_constant_for_user_output(cv, ty) else { return J::Null };
                let mut fields = vec![];
                for (fcv, fty) in d.fields.iter() {
                    fields.push(self.const_value_json(*fcv, *fty, depth + 1));
                }
                J::O(vec![("t", J::s("tuple")), ("fields", J::A(fields))])
            }
            _ => J::Null,
        }
    }

    /// Evaluate a const item to a str / char / int / bool, if it is monomorphic and of such a type.
    pub fn eval_const(&mut self, did: DefId) -> J {
        let tcx = self.tcx;
        if tcx.generics_of(did).requires_monomorphization(tcx) {
            return J::Null;
        }
        let ty = tcx.type_of(did).instantiate_identity().skip_norm_wip();
        let is_bytes = match ty.kind() {
            ty::Ref(_, inner, _) => match inner.kind() {
                ty::Slice(t) => matches!(t.kind(), ty::Uint(ty::UintTy::U8)),
                _ => false,
            },
            _ => false,
        };
        let is_str = is_bytes || matches!(ty.kind(), ty::Ref(_, inner, _) if inner.is_str());
        let scalar_ok = matches!(ty.kind(), ty::Bool | ty::Char | ty::Int(_) | ty::Uint(_));
        if !is_str && !scalar_ok {
            // aggregate constants (`Size(0x10000)`, `Bounded(UnitBound)`, ...): destructure recursively
            if matches!(ty.kind(), ty::Adt(..) | ty::Tuple(..)) {
                if let Ok(cv) = tcx.const_eval_poly(did) {
                    return self.const_value_json(cv, ty, 0);
                }
            }
            return J::Null;
        }
        let Ok(val) = tcx.const_eval_poly(did) else { return J::Null };
        if is_str {
            match val {
                ConstValue::Slice { alloc_id, meta } => {
                    let a = tcx.global_alloc(alloc_id).unwrap_memory();
                    let inner = a.inner();
                    let n = meta as usize;
                    if n > inner.len() {
                        return J::Null;
                    }
                    let bytes = inner.inspect_with_uninit_and_ptr_outside_interpreter(0..n);
                    if is_bytes {
                        return J::O(vec![("t", J::s("bytes")), ("v", J::A(bytes.iter().map(|x| J::U(*x as u128)).collect()))]);
                    }
                    J::O(vec![
                        ("t", J::s("str")),
                        ("v", J::S(String::from_utf8_lossy(bytes).into_owned())),
                    ])
                }
                ConstValue::Indirect { alloc_id, offset } => {
                    let a = tcx.global_alloc(alloc_id).unwrap_memory();
                    let inner = a.inner();
                    let off = offset.bytes() as usize;
                    if off + 16 > inner.len() {
                        return J::Null;
                    }
                    let raw = inner.inspect_with_uninit_and_ptr_outside_interpreter(off..off + 16);
                    let ptr_off = u64::from_le_bytes(raw[0..8].try_into().unwrap()) as usize;
                    let len = u64::from_le_bytes(raw[8..16].try_into().unwrap()) as usize;
                    let target = inner
                        .provenance()
                        .ptrs()
                        .iter()
                        .find(|(o, _)| o.bytes() as usize == off)
                        .map(|(_, p)| p.alloc_id());
                    let Some(target) = target else { return J::Null };
                    let ta = match tcx.global_alloc(target) {
                        rustc_middle::mir::interpret::GlobalAlloc::Memory(m) => m,
                        _ => return J::Null,
                    };
                    let tin = ta.inner();
                    if ptr_off + len > tin.len() {
                        return J::Null;
                    }
                    let bytes =
                        tin.inspect_with_uninit_and_ptr_outside_interpreter(ptr_off..ptr_off + len);
                    if is_bytes {
                        return J::O(vec![("t", J::s("bytes")), ("v", J::A(bytes.iter().map(|x| J::U(*x as u128)).collect()))]);
                    }
                    J::O(vec![
                        ("t", J::s("str")),
                        ("v", J::S(String::from_utf8_lossy(bytes).into_owned())),
                    ])
                }
                _ => J::Null,
            }
        } else {
            match val {
                ConstValue::Scalar(rustc_middle::mir::interpret::Scalar::Int(si)) => {
                    let bits = si.to_bits_unchecked();
                    match ty.kind() {
                        ty::Bool => J::O(vec![("t", J::s("bool")), ("v", J::B(bits != 0))]),
                        ty::Char => J::O(vec![
                            ("t", J::s("char")),
                            (
                                "v",
                                J::S(char::from_u32(bits as u32).map(|c| c.to_string()).unwrap_or_default()),
                            ),
                        ]),
                        ty::Int(_) => {
                            let size = si.size();
                            let v = size.sign_extend(bits);
                            J::O(vec![("t", J::s("int")), ("v", J::I(v))])
                        }
                        _ => J::O(vec![("t", J::s("int")), ("v", J::U(bits))]),
                    }
                }
                _ => J::Null,
            }
        }
    }

    /// Description of a function reference: path, key, generic type args and (if it can be
    /// resolved in the context of `owner`) the concrete instance it dispatches to.
    pub fn fn_ref(&mut self, owner: DefId, did: DefId, args: ty::GenericArgsRef<'tcx>) -> J {
        let tcx = self.tcx;
        let mut o: Vec<(&'static str, J)> = vec![
            ("path", J::S(self.path(did))),
            ("key", J::S(self.key(did))),
            ("local", J::B(did.is_local())),
            ("name", J::S(tcx.opt_item_name(did).map(|s| s.to_string()).unwrap_or_default())),
        ];
        let mut targs = vec![];
        for a in args.iter() {
            if let Some(t) = a.as_type() {
                targs.push(self.ty(t));
            }
        }
        o.push(("args", J::A(targs)));
        if let Some(tr) = tcx.trait_of_assoc(did) {
            o.push(("trait", J::S(self.path(tr))));
        }
        if let Some(imp) = tcx.impl_of_assoc(did) {
            let st = tcx.type_of(imp).instantiate_identity().skip_norm_wip();
            o.push(("impl_self", J::S(with_no_trimmed_paths!(st.to_string()))));
            if let Some(tr) = tcx.impl_opt_trait_ref(imp) {
                let tr = tr.instantiate_identity().skip_norm_wip();
                o.push(("impl_trait", J::S(self.path(tr.def_id))));
            }
        }
        if let DefKind::Ctor(of, _) = tcx.def_kind(did) {
            // tuple struct / tuple variant constructor used as a function
            let parent = tcx.parent(did);
            let (adt_did, vname) = match of {
                rustc_hir::def::CtorOf::Struct => (parent, tcx.item_name(parent).to_string()),
                rustc_hir::def::CtorOf::Variant => (tcx.parent(parent), tcx.item_name(parent).to_string()),
            };
            o.push(("ctor", J::O(vec![("adt", J::S(self.path(adt_did))), ("variant", J::S(vname))])));
        }
        // `x.into()` / `x.try_into()`: which `From::from` / `TryFrom::try_from` does it reach?
        if matches!(tcx.def_kind(did), DefKind::AssocFn) && args.len() >= 2 {
            let name = tcx.item_name(did);
            let pair = if tcx.trait_of_assoc(did) == tcx.get_diagnostic_item(rustc_span::sym::Into) {
                Some((rustc_span::sym::From, rustc_span::sym::from, name.as_str() == "into"))
            } else if tcx.trait_of_assoc(did) == tcx.get_diagnostic_item(rustc_span::sym::TryInto) {
                Some((rustc_span::sym::TryFrom, rustc_span::sym::try_from, name.as_str() == "try_into"))
            } else {
                None
            };
            if let Some((tr_sym, fn_sym, true)) = pair {
                if let (Some(tr), Some(t0), Some(t1)) = (tcx.get_diagnostic_item(tr_sym), args.get(0).and_then(|a| a.as_type()), args.get(1).and_then(|a| a.as_type())) {
                    let from_fn = tcx
                        .associated_items(tr)
                        .filter_by_name_unhygienic(fn_sym)
                        .next()
                        .map(|it| it.def_id);
                    if let Some(from_fn) = from_fn {
                        let fargs = tcx.mk_args(&[t1.into(), t0.into()]);
                        let env = ty::TypingEnv::post_analysis(tcx, owner);
                        let r = std::panic::catch_unwind(std::panic::AssertUnwindSafe(|| {
                            ty::Instance::try_resolve(tcx, env, from_fn, fargs)
                        }));
                        if let Ok(Ok(Some(inst))) = r {
                            let rd = inst.def_id();
                            if rd != from_fn {
                                o.push(("via_from", J::S(self.path(rd))));
                                o.push(("via_from_key", J::S(self.key(rd))));
                            }
                        }
                    }
                }
            }
        }
        if matches!(tcx.def_kind(did), DefKind::Fn | DefKind::AssocFn) {
            let env = ty::TypingEnv::post_analysis(tcx, owner);
            let r = std::panic::catch_unwind(std::panic::AssertUnwindSafe(|| {
                ty::Instance::try_resolve(tcx, env, did, args)
            }));
            if let Ok(Ok(Some(inst))) = r {
                let rd = inst.def_id();
                if rd != did {
                    o.push(("resolved", J::S(self.path(rd))));
                    o.push(("resolved_key", J::S(self.key(rd))));
                }
                match inst.def {
                    ty::InstanceKind::Item(_) => {}
                    other => o.push(("inst", J::S(format!("{:?}", std::mem::discriminant(&other))))),
                }
            }
        }
        J::O(o)
    }
}

struct Cb;

static CFGS: std::sync::Mutex<Vec<String>> = std::sync::Mutex::new(Vec::new());

impl rustc_driver::Callbacks for Cb {
    fn after_analysis<'tcx>(
        &mut self,
        _c: &rustc_interface::interface::Compiler,
        tcx: TyCtxt<'tcx>,
    ) -> rustc_driver::Compilation {
        let want = std::env::var("WAXFACTS_CRATE").unwrap_or_else(|_| "wax".to_string());
        if tcx.crate_name(LOCAL_CRATE).as_str() != want {
            return rustc_driver::Compilation::Continue;
        }
        let Ok(out) = std::env::var("WAXFACTS_OUT") else {
            return rustc_driver::Compilation::Continue;
        };
        let mut cx =
            Cx { tcx, types: vec![], type_ix: HashMap::new(), adts: vec![], adt_seen: HashMap::new() };
        let mut items = vec![];
        let mut bodies = vec![];
        let mut consts = vec![];
        let mut impls = vec![];

        for ldid in tcx.hir_crate_items(()).definitions() {
            let did = ldid.to_def_id();
            let kind = tcx.def_kind(did);
            match kind {
                DefKind::Const { .. } | DefKind::AssocConst { .. } => {
                    let v = cx.eval_const(did);
                    let (file, line, _) = cx.loc(tcx.def_span(did));
                    consts.push(J::O(vec![
                        ("path", J::S(cx.path(did))),
                        ("key", J::S(cx.key(did))),
                        ("file", J::S(file)),
                        ("line", J::U(line as u128)),
                        ("val", v),
                    ]));
                }
                DefKind::Impl { .. } => {
                    let st = tcx.type_of(did).instantiate_identity().skip_norm_wip();
                    let mut o = vec![
                        ("key", J::S(cx.key(did))),
                        ("self_ty", J::S(with_no_trimmed_paths!(st.to_string()))),
                    ];
                    if let ty::Adt(def, _) = st.kind() {
                        o.push(("self_adt", J::S(cx.path(def.did()))));
                    }
                    if let Some(tr) = tcx.impl_opt_trait_ref(did) {
                        let tr = tr.instantiate_identity().skip_norm_wip();
                        o.push(("trait", J::S(cx.path(tr.def_id))));
                        o.push(("trait_ref", J::S(with_no_trimmed_paths!(tr.to_string()))));
                    }
                    let mut its = vec![];
                    for it in tcx.associated_items(did).in_definition_order() {
                        its.push(J::O(vec![
                            ("name", J::S(it.opt_name().map(|n| n.to_string()).unwrap_or_default())),
                            ("key", J::S(cx.key(it.def_id))),
                        ]));
                    }
                    o.push(("items", J::A(its)));
                    let (file, line, exp) = cx.loc(tcx.def_span(did));
                    o.push(("file", J::S(file)));
                    o.push(("line", J::U(line as u128)));
                    o.push(("derived", J::B(exp)));
                    impls.push(J::O(o));
                }
                DefKind::Struct | DefKind::Enum | DefKind::Union => {
                    if !cx.adt_seen.contains_key(&did) {
                        cx.adt_seen.insert(did, ());
                        cx.adts.push(did);
                    }
                }
                _ => {}
            }
        }

        for ldid in tcx.hir_body_owners() {
            let did = ldid.to_def_id();
            let kind = tcx.def_kind(did);
            if !matches!(kind, DefKind::Fn | DefKind::AssocFn | DefKind::Closure) {
                continue;
            }
            let (file, line, exp) = cx.loc(tcx.def_span(did));
            let mut o: Vec<(&'static str, J)> = vec![
                ("path", J::S(cx.path(did))),
                ("key", J::S(cx.key(did))),
                ("kind", J::S(format!("{:?}", kind))),
                ("name", J::S(tcx.opt_item_name(did).map(|s| s.to_string()).unwrap_or_default())),
                ("file", J::S(file)),
                ("line", J::U(line as u128)),
                ("expn", J::B(exp)),
            ];
            let parent = tcx.parent(did);
            o.push(("parent", J::S(cx.key(parent))));
            if matches!(kind, DefKind::Fn | DefKind::AssocFn) {
                o.push(("vis", J::S(format!("{:?}", tcx.visibility(did)))));
                let ev = tcx.effective_visibilities(());
                o.push(("reachable", J::B(ev.is_reachable(ldid))));
            }
            if kind == DefKind::AssocFn {
                if let Some(tr) = tcx.trait_of_assoc(did) {
                    o.push(("trait_decl", J::S(cx.path(tr))));
                }
                if let Some(imp) = tcx.impl_of_assoc(did) {
                    let st = tcx.type_of(imp).instantiate_identity().skip_norm_wip();
                    o.push(("impl_key", J::S(cx.key(imp))));
                    o.push(("impl_self", J::S(with_no_trimmed_paths!(st.to_string()))));
                    if let ty::Adt(def, _) = st.kind() {
                        o.push(("impl_adt", J::S(cx.path(def.did()))));
                    }
                    if let Some(tr) = tcx.impl_opt_trait_ref(imp) {
                        let tr = tr.instantiate_identity().skip_norm_wip();
                        o.push(("impl_trait", J::S(cx.path(tr.def_id))));
                        o.push(("impl_trait_ref", J::S(with_no_trimmed_paths!(tr.to_string()))));
                    }
                }
            }
            items.push(J::O(o));

            let thir = thirfacts::dump_thir(&mut cx, ldid);
            let mir = mirfacts::dump_mir(&mut cx, ldid);
            bodies.push(J::O(vec![("key", J::S(cx.key(did))), ("thir", thir), ("mir", mir)]));
        }

        // ADT table (after bodies so that every ADT mentioned by a type is included).
        let mut adts = vec![];
        let mut i = 0;
        while i < cx.adts.len() {
            let did = cx.adts[i];
            i += 1;
            let def = tcx.adt_def(did);
            let mut variants = vec![];
            for v in def.variants().iter() {
                let mut fields = vec![];
                for f in v.fields.iter() {
                    let fty = tcx.type_of(f.did).instantiate_identity().skip_norm_wip();
                    fields.push(J::O(vec![
                        ("name", J::S(f.name.to_string())),
                        ("ty", J::S(with_no_trimmed_paths!(fty.to_string()))),
                    ]));
                }
                variants.push(J::O(vec![
                    ("name", J::S(v.name.to_string())),
                    ("fields", J::A(fields)),
                ]));
            }
            let kind = if def.is_enum() {
                "enum"
            } else if def.is_union() {
                "union"
            } else {
                "struct"
            };
            adts.push(J::O(vec![
                ("path", J::S(cx.path(did))),
                ("local", J::B(did.is_local())),
                ("kind", J::s(kind)),
                ("variants", J::A(variants)),
            ]));
        }

        let mono = instances::dump_instances(&mut cx);
        let features: Vec<J> = CFGS.lock().unwrap().iter().map(|s| J::S(s.clone())).collect();
        let root = J::O(vec![
            ("crate", J::S(want)),
            ("cfg", J::A(features)),
            ("items", J::A(items)),
            ("impls", J::A(impls)),
            ("consts", J::A(consts)),
            ("adts", J::A(adts)),
            ("types", J::A(std::mem::take(&mut cx.types))),
            ("bodies", J::A(bodies)),
            ("mono", mono),
        ]);
        let mut s = String::new();
        root.write(&mut s);
        let tmp = format!("{}.tmp.{}", out, std::process::id());
        std::fs::write(&tmp, s).expect("write facts");
        std::fs::rename(&tmp, &out).expect("rename facts");
        rustc_driver::Compilation::Continue
    }
}

fn main() {
    let mut args: Vec<String> = std::env::args().collect();
    // RUSTC_WORKSPACE_WRAPPER passes the path of the real rustc first.
    if args.len() > 1 && (args[1].ends_with("rustc") || args[1].contains("/rustc")) {
        args.remove(1);
    }
    {
        let mut c = CFGS.lock().unwrap();
        let mut i = 0;
        while i < args.len() {
            if args[i] == "--cfg" && i + 1 < args.len() {
                c.push(args[i + 1].clone());
                i += 1;
            }
            i += 1;
        }
    }
    rustc_driver::run_compiler(&args, &mut Cb);
}
