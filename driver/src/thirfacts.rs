//! Generic serialisation of a THIR body.

use crate::json::J;
use crate::Cx;
use rustc_ast::ast::LitKind;
use rustc_hir::def_id::LocalDefId;
use rustc_middle::thir::*;
use rustc_middle::ty::{self, Ty};

fn var_id(v: LocalVarId) -> J {
    J::U(v.0.local_id.as_u32() as u128)
}

fn scalar_value<'tcx>(cx: &mut Cx<'tcx>, value: ty::Value<'tcx>) -> J {
    let tcx = cx.tcx;
    match value.ty.kind() {
        ty::Bool => {
            if let Some(b) = value.try_to_bool() {
                return J::O(vec![("t", J::s("bool")), ("v", J::B(b))]);
            }
        }
        ty::Char => {
            if let Some(l) = value.try_to_leaf() {
                let bits = l.to_bits_unchecked();
                return J::O(vec![
                    ("t", J::s("char")),
                    ("v", J::S(char::from_u32(bits as u32).map(|c| c.to_string()).unwrap_or_default())),
                ]);
            }
        }
        ty::Uint(_) => {
            if let Some(l) = value.try_to_leaf() {
                return J::O(vec![("t", J::s("int")), ("v", J::U(l.to_bits_unchecked()))]);
            }
        }
        ty::Int(_) => {
            if let Some(l) = value.try_to_leaf() {
                let v = l.size().sign_extend(l.to_bits_unchecked());
                return J::O(vec![("t", J::s("int")), ("v", J::I(v))]);
            }
        }
        ty::Str => {
            let bytes: Option<Vec<u8>> = value
                .to_branch()
                .iter()
                .map(|ct| ct.try_to_value().and_then(|v| v.try_to_leaf()).map(|l| l.to_u8()))
                .collect();
            if let Some(bytes) = bytes {
                return J::O(vec![
                    ("t", J::s("str")),
                    ("v", J::S(String::from_utf8_lossy(&bytes).into_owned())),
                ]);
            }
        }
        ty::Ref(_, inner, _) if inner.is_str() => {
            if let Some(bytes) = value.try_to_raw_bytes(tcx) {
                return J::O(vec![
                    ("t", J::s("str")),
                    ("v", J::S(String::from_utf8_lossy(bytes).into_owned())),
                ]);
            }
        }
        _ => {}
    }
    J::O(vec![("t", J::s("other")), ("debug", J::S(format!("{:?}", value)))])
}

fn field_name<'tcx>(ty: Ty<'tcx>, variant: rustc_abi::VariantIdx, field: rustc_abi::FieldIdx) -> String {
    let mut t = ty;
    while let ty::Ref(_, inner, _) = t.kind() {
        t = *inner;
    }
    match t.kind() {
        ty::Adt(def, _) => {
            if variant.as_usize() < def.variants().len() {
                let v = def.variant(variant);
                if field.as_usize() < v.fields.len() {
                    return v.fields[field].name.to_string();
                }
            }
            field.as_usize().to_string()
        }
        _ => field.as_usize().to_string(),
    }
}

fn pat<'tcx>(cx: &mut Cx<'tcx>, p: &Pat<'tcx>) -> J {
    let mut o: Vec<(&'static str, J)> = vec![];
    let tyj = cx.ty(p.ty);
    match &p.kind {
        PatKind::Missing => o.push(("k", J::s("Missing"))),
        PatKind::Wild => o.push(("k", J::s("Wild"))),
        PatKind::Never => o.push(("k", J::s("Never"))),
        PatKind::Error(_) => o.push(("k", J::s("Error"))),
        PatKind::Binding { name, mode, var, ty, subpattern, .. } => {
            o.push(("k", J::s("Binding")));
            o.push(("name", J::S(name.to_string())));
            o.push(("var", var_id(*var)));
            let m = match mode.0 {
                rustc_hir::ByRef::No => "move",
                rustc_hir::ByRef::Yes(_, m) => {
                    if m.is_mut() {
                        "refmut"
                    } else {
                        "ref"
                    }
                }
            };
            o.push(("mode", J::s(m)));
            let t = cx.ty(*ty);
            o.push(("vty", t));
            o.push(("sub", match subpattern {
                Some(s) => pat(cx, s),
                None => J::Null,
            }));
        }
        PatKind::Variant { adt_def, variant_index, subpatterns, .. } => {
            o.push(("k", J::s("Variant")));
            o.push(("adt", J::S(cx.path(adt_def.did()))));
            let v = adt_def.variant(*variant_index);
            o.push(("variant", J::S(v.name.to_string())));
            o.push(("vidx", J::U(variant_index.as_u32() as u128)));
            o.push(("nfields", J::U(v.fields.len() as u128)));
            let mut subs = vec![];
            for fp in subpatterns {
                let name = v.fields[fp.field].name.to_string();
                subs.push(J::O(vec![
                    ("f", J::U(fp.field.as_u32() as u128)),
                    ("name", J::S(name)),
                    ("p", pat(cx, &fp.pattern)),
                ]));
            }
            o.push(("subs", J::A(subs)));
        }
        PatKind::Leaf { subpatterns } => {
            o.push(("k", J::s("Leaf")));
            let mut subs = vec![];
            for fp in subpatterns {
                let name = field_name(p.ty, rustc_abi::FIRST_VARIANT, fp.field);
                subs.push(J::O(vec![
                    ("f", J::U(fp.field.as_u32() as u128)),
                    ("name", J::S(name)),
                    ("p", pat(cx, &fp.pattern)),
                ]));
            }
            o.push(("subs", J::A(subs)));
        }
        PatKind::Deref { subpattern, .. } => {
            o.push(("k", J::s("Deref")));
            o.push(("sub", pat(cx, subpattern)));
        }
        PatKind::DerefPattern { subpattern, .. } => {
            o.push(("k", J::s("Deref")));
            o.push(("overloaded", J::B(true)));
            o.push(("sub", pat(cx, subpattern)));
        }
        PatKind::Constant { value } => {
            o.push(("k", J::s("Constant")));
            o.push(("value", scalar_value(cx, *value)));
        }
        PatKind::Range(r) => {
            o.push(("k", J::s("Range")));
            let rty = r.ty;
            let b = |cx: &mut Cx<'tcx>, b: &PatRangeBoundary<'tcx>| match b {
                PatRangeBoundary::Finite(v) => scalar_value(cx, ty::Value { ty: rty, valtree: *v }),
                PatRangeBoundary::NegInfinity => J::s("-inf"),
                PatRangeBoundary::PosInfinity => J::s("+inf"),
            };
            let lo = b(cx, &r.lo);
            let hi = b(cx, &r.hi);
            o.push(("lo", lo));
            o.push(("hi", hi));
            o.push(("inclusive", J::B(matches!(r.end, rustc_hir::RangeEnd::Included))));
        }
        PatKind::Slice { prefix, slice, suffix } | PatKind::Array { prefix, slice, suffix } => {
            o.push(("k", J::s("Slice")));
            let pre: Vec<J> = prefix.iter().map(|x| pat(cx, x)).collect();
            let suf: Vec<J> = suffix.iter().map(|x| pat(cx, x)).collect();
            o.push(("prefix", J::A(pre)));
            o.push(("slice", match slice {
                Some(s) => pat(cx, s),
                None => J::Null,
            }));
            o.push(("suffix", J::A(suf)));
        }
        PatKind::Or { pats } => {
            o.push(("k", J::s("Or")));
            let v: Vec<J> = pats.iter().map(|x| pat(cx, x)).collect();
            o.push(("pats", J::A(v)));
        }
        PatKind::Guard { subpattern, condition } => {
            o.push(("k", J::s("Guard")));
            o.push(("sub", pat(cx, subpattern)));
            o.push(("cond", J::U(condition.as_u32() as u128)));
        }
    }
    o.push(("ty", tyj));
    let (_, line, _) = cx.loc(p.span);
    o.push(("ln", J::U(line as u128)));
    J::O(o)
}

fn eid(e: ExprId) -> J {
    J::U(e.as_u32() as u128)
}

fn eids(es: &[ExprId]) -> J {
    J::A(es.iter().map(|e| eid(*e)).collect())
}

pub fn dump_thir<'tcx>(cx: &mut Cx<'tcx>, ldid: LocalDefId) -> J {
    let tcx = cx.tcx;
    let owner = ldid.to_def_id();
    let Ok((steal, root)) = tcx.thir_body(ldid) else { return J::Null };
    if steal.is_stolen() {
        return J::Null;
    }
    let thir = steal.borrow();
    let thir: &Thir<'tcx> = &thir;

    let mut exprs = vec![];
    for e in thir.exprs.iter() {
        let mut o: Vec<(&'static str, J)> = vec![];
        let (_, line, exp) = cx.loc(e.span);
        match &e.kind {
            ExprKind::Scope { value, region_scope, .. } => {
                o.push(("k", J::s("Scope")));
                o.push(("scope", J::U(region_scope.local_id.as_u32() as u128)));
                o.push(("value", eid(*value)));
            }
            ExprKind::If { cond, then, else_opt, .. } => {
                o.push(("k", J::s("If")));
                o.push(("cond", eid(*cond)));
                o.push(("then", eid(*then)));
                o.push(("else", else_opt.map(eid).unwrap_or(J::Null)));
            }
            ExprKind::Call { fun, args, ty, .. } => {
                o.push(("k", J::s("Call")));
                o.push(("fun", eid(*fun)));
                o.push(("args", eids(args)));
                if let ty::FnDef(did, gargs) = ty.kind() {
                    let f = cx.fn_ref(owner, *did, gargs);
                    o.push(("fn", f));
                }
            }
            ExprKind::ByUse { expr, .. } => {
                o.push(("k", J::s("Use")));
                o.push(("source", eid(*expr)));
            }
            ExprKind::Deref { arg } => {
                o.push(("k", J::s("Deref")));
                o.push(("arg", eid(*arg)));
            }
            ExprKind::Binary { op, lhs, rhs } => {
                o.push(("k", J::s("Binary")));
                o.push(("op", J::S(format!("{:?}", op))));
                o.push(("lhs", eid(*lhs)));
                o.push(("rhs", eid(*rhs)));
            }
            ExprKind::LogicalOp { op, lhs, rhs } => {
                o.push(("k", J::s("LogicalOp")));
                o.push(("op", J::S(format!("{:?}", op))));
                o.push(("lhs", eid(*lhs)));
                o.push(("rhs", eid(*rhs)));
            }
            ExprKind::Unary { op, arg } => {
                o.push(("k", J::s("Unary")));
                o.push(("op", J::S(format!("{:?}", op))));
                o.push(("arg", eid(*arg)));
            }
            ExprKind::Cast { source } => {
                o.push(("k", J::s("Cast")));
                o.push(("source", eid(*source)));
            }
            ExprKind::Use { source } => {
                o.push(("k", J::s("Use")));
                o.push(("source", eid(*source)));
            }
            ExprKind::NeverToAny { source } => {
                o.push(("k", J::s("NeverToAny")));
                o.push(("source", eid(*source)));
            }
            ExprKind::PointerCoercion { source, cast, .. } => {
                o.push(("k", J::s("PointerCoercion")));
                o.push(("cast", J::S(format!("{:?}", cast))));
                o.push(("source", eid(*source)));
            }
            ExprKind::Loop { body } => {
                o.push(("k", J::s("Loop")));
                o.push(("body", eid(*body)));
            }
            ExprKind::Let { expr, pat: p } => {
                o.push(("k", J::s("Let")));
                o.push(("expr", eid(*expr)));
                o.push(("pat", pat(cx, p)));
            }
            ExprKind::Match { scrutinee, arms, match_source } => {
                o.push(("k", J::s("Match")));
                o.push(("scrutinee", eid(*scrutinee)));
                o.push(("arms", J::A(arms.iter().map(|a| J::U(a.as_u32() as u128)).collect())));
                o.push(("source", J::S(format!("{:?}", match_source))));
            }
            ExprKind::Block { block } => {
                o.push(("k", J::s("Block")));
                o.push(("block", J::U(block.as_u32() as u128)));
            }
            ExprKind::Assign { lhs, rhs } => {
                o.push(("k", J::s("Assign")));
                o.push(("lhs", eid(*lhs)));
                o.push(("rhs", eid(*rhs)));
            }
            ExprKind::AssignOp { op, lhs, rhs } => {
                o.push(("k", J::s("AssignOp")));
                o.push(("op", J::S(format!("{:?}", op))));
                o.push(("lhs", eid(*lhs)));
                o.push(("rhs", eid(*rhs)));
            }
            ExprKind::Field { lhs, variant_index, name } => {
                o.push(("k", J::s("Field")));
                o.push(("lhs", eid(*lhs)));
                o.push(("vidx", J::U(variant_index.as_u32() as u128)));
                o.push(("fidx", J::U(name.as_u32() as u128)));
                let lty = thir.exprs[*lhs].ty;
                o.push(("name", J::S(field_name(lty, *variant_index, *name))));
            }
            ExprKind::Index { lhs, index } => {
                o.push(("k", J::s("Index")));
                o.push(("lhs", eid(*lhs)));
                o.push(("index", eid(*index)));
            }
            ExprKind::VarRef { id } => {
                o.push(("k", J::s("VarRef")));
                o.push(("var", var_id(*id)));
                o.push(("name", J::S(tcx.hir_name(id.0).to_string())));
            }
            ExprKind::UpvarRef { var_hir_id, .. } => {
                o.push(("k", J::s("UpvarRef")));
                o.push(("var", var_id(*var_hir_id)));
                o.push(("name", J::S(tcx.hir_name(var_hir_id.0).to_string())));
            }
            ExprKind::Borrow { borrow_kind, arg } => {
                o.push(("k", J::s("Borrow")));
                let m = matches!(borrow_kind, rustc_middle::mir::BorrowKind::Mut { .. });
                o.push(("mut", J::B(m)));
                o.push(("arg", eid(*arg)));
            }
            ExprKind::RawBorrow { arg, .. } => {
                o.push(("k", J::s("RawBorrow")));
                o.push(("arg", eid(*arg)));
            }
            ExprKind::Break { value, label } => {
                o.push(("k", J::s("Break")));
                o.push(("label", J::U(label.local_id.as_u32() as u128)));
                o.push(("value", value.map(eid).unwrap_or(J::Null)));
            }
            ExprKind::Continue { label } => {
                o.push(("k", J::s("Continue")));
                o.push(("label", J::U(label.local_id.as_u32() as u128)));
            }
            ExprKind::Return { value } => {
                o.push(("k", J::s("Return")));
                o.push(("value", value.map(eid).unwrap_or(J::Null)));
            }
            ExprKind::Repeat { value, count } => {
                o.push(("k", J::s("Repeat")));
                o.push(("value", eid(*value)));
                o.push(("count", J::S(format!("{:?}", count))));
            }
            ExprKind::Array { fields } => {
                o.push(("k", J::s("Array")));
                o.push(("fields", eids(fields)));
            }
            ExprKind::Tuple { fields } => {
                o.push(("k", J::s("Tuple")));
                o.push(("fields", eids(fields)));
            }
            ExprKind::Adt(adt) => {
                o.push(("k", J::s("Adt")));
                o.push(("adt", J::S(cx.path(adt.adt_def.did()))));
                let v = adt.adt_def.variant(adt.variant_index);
                o.push(("variant", J::S(v.name.to_string())));
                o.push(("vidx", J::U(adt.variant_index.as_u32() as u128)));
                o.push(("nfields", J::U(v.fields.len() as u128)));
                let mut fs = vec![];
                for f in adt.fields.iter() {
                    fs.push(J::O(vec![
                        ("f", J::U(f.name.as_u32() as u128)),
                        ("name", J::S(v.fields[f.name].name.to_string())),
                        ("e", eid(f.expr)),
                    ]));
                }
                o.push(("fields", J::A(fs)));
                match &adt.base {
                    AdtExprBase::Base(fru) => o.push(("base", eid(fru.base))),
                    AdtExprBase::None => o.push(("base", J::Null)),
                    AdtExprBase::DefaultFields(_) => o.push(("base", J::s("default"))),
                }
            }
            ExprKind::PlaceTypeAscription { source, .. }
            | ExprKind::ValueTypeAscription { source, .. } => {
                o.push(("k", J::s("Use")));
                o.push(("source", eid(*source)));
            }
            ExprKind::Closure(c) => {
                o.push(("k", J::s("Closure")));
                o.push(("closure", J::S(cx.key(c.closure_id.to_def_id()))));
                o.push(("upvars", eids(&c.upvars)));
            }
            ExprKind::Literal { lit, neg } => {
                o.push(("k", J::s("Literal")));
                o.push(("neg", J::B(*neg)));
                let l = match &lit.node {
                    LitKind::Str(s, _) => J::O(vec![("t", J::s("str")), ("v", J::S(s.to_string()))]),
                    LitKind::ByteStr(b, _) | LitKind::CStr(b, _) => J::O(vec![
                        ("t", J::s("bytes")),
                        ("v", J::A(b.as_byte_str().iter().map(|x| J::U(*x as u128)).collect())),
                    ]),
                    LitKind::Byte(b) => J::O(vec![("t", J::s("int")), ("v", J::U(*b as u128))]),
                    LitKind::Char(c) => J::O(vec![("t", J::s("char")), ("v", J::S(c.to_string()))]),
                    LitKind::Int(n, _) => J::O(vec![("t", J::s("int")), ("v", J::U(n.get()))]),
                    LitKind::Float(s, _) => J::O(vec![("t", J::s("float")), ("v", J::S(s.to_string()))]),
                    LitKind::Bool(b) => J::O(vec![("t", J::s("bool")), ("v", J::B(*b))]),
                    LitKind::Err(_) => J::Null,
                };
                o.push(("lit", l));
            }
            ExprKind::NonHirLiteral { lit, .. } => {
                o.push(("k", J::s("Literal")));
                o.push(("neg", J::B(false)));
                o.push(("lit", J::O(vec![("t", J::s("int")), ("v", J::U(lit.to_bits_unchecked()))])));
            }
            ExprKind::ZstLiteral { .. } => {
                o.push(("k", J::s("ZstLiteral")));
                if let ty::FnDef(did, gargs) = e.ty.kind() {
                    let f = cx.fn_ref(owner, *did, gargs);
                    o.push(("fn", f));
                }
            }
            ExprKind::NamedConst { def_id, .. } => {
                o.push(("k", J::s("NamedConst")));
                o.push(("const", J::S(cx.path(*def_id))));
                o.push(("const_key", J::S(cx.key(*def_id))));
                let v = cx.eval_const(*def_id);
                o.push(("val", v));
            }
            ExprKind::ConstParam { param, .. } => {
                o.push(("k", J::s("ConstParam")));
                o.push(("name", J::S(param.name.to_string())));
            }
            ExprKind::StaticRef { def_id, .. } => {
                o.push(("k", J::s("StaticRef")));
                o.push(("static", J::S(cx.path(*def_id))));
            }
            other => {
                o.push(("k", J::s("Other")));
                let d = format!("{:?}", other);
                o.push(("debug", J::S(d.chars().take(200).collect())));
            }
        }
        let t = cx.ty(e.ty);
        o.push(("ty", t));
        o.push(("ln", J::U(line as u128)));
        if exp {
            o.push(("x", J::B(true)));
        }
        exprs.push(J::O(o));
    }

    let mut stmts = vec![];
    for s in thir.stmts.iter() {
        match &s.kind {
            StmtKind::Expr { expr, .. } => {
                stmts.push(J::O(vec![("k", J::s("Expr")), ("expr", eid(*expr))]));
            }
            StmtKind::Let { pattern, initializer, else_block, span, .. } => {
                let (_, line, _) = cx.loc(*span);
                stmts.push(J::O(vec![
                    ("k", J::s("Let")),
                    ("pat", pat(cx, pattern)),
                    ("init", initializer.map(eid).unwrap_or(J::Null)),
                    ("else", else_block.map(|b| J::U(b.as_u32() as u128)).unwrap_or(J::Null)),
                    ("ln", J::U(line as u128)),
                ]));
            }
        }
    }

    let mut blocks = vec![];
    for b in thir.blocks.iter() {
        blocks.push(J::O(vec![
            ("stmts", J::A(b.stmts.iter().map(|s| J::U(s.as_u32() as u128)).collect())),
            ("expr", b.expr.map(eid).unwrap_or(J::Null)),
            ("scope", J::U(b.region_scope.local_id.as_u32() as u128)),
            ("targeted", J::B(b.targeted_by_break)),
        ]));
    }

    let mut arms = vec![];
    for a in thir.arms.iter() {
        let (_, line, _) = cx.loc(a.span);
        arms.push(J::O(vec![
            ("pat", pat(cx, &a.pattern)),
            ("guard", a.guard.map(eid).unwrap_or(J::Null)),
            ("body", eid(a.body)),
            ("ln", J::U(line as u128)),
        ]));
    }

    let mut params = vec![];
    for p in thir.params.iter() {
        let t = cx.ty(p.ty);
        params.push(J::O(vec![
            ("pat", match &p.pat {
                Some(pp) => pat(cx, pp),
                None => J::Null,
            }),
            ("ty", t),
            ("self", J::B(p.self_kind.is_some())),
        ]));
    }

    J::O(vec![
        ("root", eid(root)),
        ("params", J::A(params)),
        ("exprs", J::A(exprs)),
        ("stmts", J::A(stmts)),
        ("blocks", J::A(blocks)),
        ("arms", J::A(arms)),
    ])
}
