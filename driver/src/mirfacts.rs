//! MIR facts (opt-level 0, drops elaborated): block graph, calls with resolved callees, asserts,
//! drops with the place type, ADT aggregate constructions, discriminant switches, statements as text.

use crate::json::J;
use crate::Cx;
use rustc_hir::def_id::LocalDefId;
use rustc_middle::mir::*;
use rustc_middle::ty::print::with_no_trimmed_paths;
use rustc_middle::ty::{self};

pub fn dump_mir<'tcx>(cx: &mut Cx<'tcx>, ldid: LocalDefId) -> J {
    let tcx = cx.tcx;
    let owner = ldid.to_def_id();
    if !tcx.is_mir_available(owner) {
        return J::Null;
    }
    let body: &Body<'tcx> = tcx.optimized_mir(owner);
    let with_text = std::env::var("WAXFACTS_MIR_TEXT").map(|v| v == "1").unwrap_or(false);

    let mut locals = vec![];
    for (l, d) in body.local_decls.iter_enumerated() {
        let name = body
            .var_debug_info
            .iter()
            .find_map(|v| match &v.value {
                VarDebugInfoContents::Place(p) if p.local == l && p.projection.is_empty() => {
                    Some(v.name.to_string())
                }
                _ => None,
            })
            .unwrap_or_default();
        locals.push(J::O(vec![
            ("ty", J::S(with_no_trimmed_paths!(d.ty.to_string()))),
            ("name", J::S(name)),
        ]));
    }

    // locals that are assigned a string constant (messages of expect / panic)
    let mut str_consts = vec![];
    for data in body.basic_blocks.iter() {
        for st in &data.statements {
            if let StatementKind::Assign(b) = &st.kind {
                let (place, rv) = &**b;
                if place.projection.is_empty() {
                    // simple aliases `_a = copy _b`, `_a = move _b`, `_a = &(*_b)`: lets messages be followed
                    let d = format!("{:?}", rv);
                    let t = d.trim_start_matches("copy ").trim_start_matches("move ").trim_start_matches("&(*").trim_start_matches('&').trim_end_matches(')');
                    if t.starts_with('_') && t[1..].chars().all(|c| c.is_ascii_digit()) && !t[1..].is_empty() {
                        str_consts.push(J::A(vec![J::S(format!("{:?}", place)), J::S(format!("@{}", t))]));
                    }
                }
                if let Rvalue::Use(Operand::Constant(c), ..) = rv {
                    let d = format!("{:?}", c);
                    if let Some(start) = d.find("const \"") {
                        if place.projection.is_empty() {
                            let text = d[start + 7..].trim_end_matches('"').to_string();
                            str_consts.push(J::A(vec![J::S(format!("{:?}", place)), J::S(text)]));
                        }
                    }
                }
            }
        }
    }

    let mut blocks = vec![];
    for (_bb, data) in body.basic_blocks.iter_enumerated() {
        let mut o: Vec<(&'static str, J)> = vec![("cleanup", J::B(data.is_cleanup))];
        let mut aggs = vec![];
        let mut sts = vec![];
        for st in &data.statements {
            if let StatementKind::Assign(b) = &st.kind {
                let (place, rv) = &**b;
                match rv {
                    Rvalue::Aggregate(kind, _ops) => {
                        if let AggregateKind::Adt(did, vidx, _, _, _) = &**kind {
                            let def = tcx.adt_def(*did);
                            let (_, line, exp) = cx.loc(st.source_info.span);
                            aggs.push(J::O(vec![
                                ("adt", J::S(cx.path(*did))),
                                ("variant", J::S(def.variant(*vidx).name.to_string())),
                                ("dest", J::S(format!("{:?}", place))),
                                ("ln", J::U(line as u128)),
                                ("x", J::B(exp)),
                            ]));
                        }
                    }
                    _ => {}
                }
            }
            if with_text {
                match &st.kind {
                    StatementKind::StorageLive(_)
                    | StatementKind::StorageDead(_)
                    | StatementKind::Nop
                    | StatementKind::FakeRead(_)
                    | StatementKind::Coverage(_) => {}
                    _ => sts.push(J::S(format!("{:?}", st))),
                }
            }
        }
        o.push(("aggs", J::A(aggs)));
        if with_text {
            o.push(("st", J::A(sts)));
        }
        let term = data.terminator();
        let (_, line, exp) = cx.loc(term.source_info.span);
        let succ: Vec<J> = term.successors().map(|b| J::U(b.as_u32() as u128)).collect();
        o.push(("succ", J::A(succ)));
        o.push(("ln", J::U(line as u128)));
        o.push(("x", J::B(exp)));
        match &term.kind {
            TerminatorKind::Goto { .. } => o.push(("t", J::s("Goto"))),
            TerminatorKind::SwitchInt { discr, targets } => {
                o.push(("t", J::s("SwitchInt")));
                o.push(("discr", J::S(format!("{:?}", discr))));
                let mut ts = vec![];
                for (v, b) in targets.iter() {
                    ts.push(J::A(vec![J::U(v), J::U(b.as_u32() as u128)]));
                }
                o.push(("targets", J::A(ts)));
                o.push(("otherwise", J::U(targets.otherwise().as_u32() as u128)));
            }
            TerminatorKind::UnwindResume => o.push(("t", J::s("UnwindResume"))),
            TerminatorKind::UnwindTerminate(_) => o.push(("t", J::s("UnwindTerminate"))),
            TerminatorKind::Return => o.push(("t", J::s("Return"))),
            TerminatorKind::Unreachable => o.push(("t", J::s("Unreachable"))),
            TerminatorKind::Drop { place, target, .. } => {
                o.push(("t", J::s("Drop")));
                let pty = place.ty(&body.local_decls, tcx).ty;
                o.push(("place", J::S(format!("{:?}", place))));
                o.push(("local", J::U(place.local.as_u32() as u128)));
                o.push(("whole", J::B(place.projection.is_empty())));
                o.push(("pty", J::S(with_no_trimmed_paths!(pty.to_string()))));
                let needs = pty.needs_drop(tcx, ty::TypingEnv::post_analysis(tcx, owner));
                o.push(("needs_drop", J::B(needs)));
                o.push(("target", J::U(target.as_u32() as u128)));
            }
            TerminatorKind::Call { func, args, destination, target, .. } => {
                o.push(("t", J::s("Call")));
                match func {
                    Operand::Constant(c) => {
                        if let ty::FnDef(did, gargs) = c.const_.ty().kind() {
                            let f = cx.fn_ref(owner, *did, gargs);
                            o.push(("fn", f));
                        } else {
                            o.push(("fn", J::Null));
                            o.push(("func", J::S(format!("{:?}", func))));
                        }
                    }
                    _ => {
                        let fty = func.ty(&body.local_decls, tcx);
                        o.push(("fn", J::Null));
                        o.push(("func", J::S(format!("{:?}", func))));
                        o.push(("functy", J::S(with_no_trimmed_paths!(fty.to_string()))));
                    }
                }
                let a: Vec<J> = args.iter().map(|a| J::S(format!("{:?}", a.node))).collect();
                o.push(("args", J::A(a)));
                let at: Vec<J> = args
                    .iter()
                    .map(|a| {
                        let t = a.node.ty(&body.local_decls, tcx);
                        J::S(with_no_trimmed_paths!(t.to_string()))
                    })
                    .collect();
                o.push(("argtys", J::A(at)));
                o.push(("dest", J::S(format!("{:?}", destination))));
                o.push(("target", target.map(|b| J::U(b.as_u32() as u128)).unwrap_or(J::Null)));
            }
            TerminatorKind::Assert { msg, target, cond, expected, .. } => {
                o.push(("t", J::s("Assert")));
                let kind = match &**msg {
                    AssertKind::BoundsCheck { .. } => "BoundsCheck".to_string(),
                    AssertKind::Overflow(op, _, _) => format!("Overflow({:?})", op),
                    AssertKind::OverflowNeg(_) => "OverflowNeg".to_string(),
                    AssertKind::DivisionByZero(_) => "DivisionByZero".to_string(),
                    AssertKind::RemainderByZero(_) => "RemainderByZero".to_string(),
                    AssertKind::MisalignedPointerDereference { .. } => "Misaligned".to_string(),
                    AssertKind::NullPointerDereference => "NullPointer".to_string(),
                    AssertKind::InvalidEnumConstruction(_) => "InvalidEnum".to_string(),
                    _ => "Other".to_string(),
                };
                o.push(("assert", J::S(kind)));
                o.push(("cond", J::S(format!("{:?}", cond))));
                o.push(("expected", J::B(*expected)));
                o.push(("target", J::U(target.as_u32() as u128)));
            }
            other => {
                o.push(("t", J::s("Other")));
                o.push(("debug", J::S(format!("{:?}", other).chars().take(120).collect())));
            }
        }
        blocks.push(J::O(o));
    }
    J::O(vec![
        ("arg_count", J::U(body.arg_count as u128)),
        ("locals", J::A(locals)),
        ("str_consts", J::A(str_consts)),
        ("blocks", J::A(blocks)),
    ])
}
