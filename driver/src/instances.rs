//! Monomorphic call table: starting from every non-generic function of the crate, follow the
//! function references of each THIR body with the instance's generic arguments substituted and let
//! rustc resolve the callee instance.  The evaluator uses this table to dispatch calls inside
//! generic code exactly (no re-implementation of trait selection).

use crate::json::J;
use crate::Cx;
use rustc_hir::def::DefKind;
use rustc_hir::def_id::{DefId, LocalDefId};
use rustc_middle::thir::ExprKind;
use rustc_middle::ty::print::with_no_trimmed_paths;
use rustc_middle::ty::{self, EarlyBinder, GenericArgsRef, Instance, TyCtxt};
use std::collections::HashMap;

fn from_fn_of<'tcx>(tcx: TyCtxt<'tcx>, did: DefId) -> Option<(DefId, bool)> {
    // (From::from / TryFrom::try_from def id, true) when `did` is Into::into / TryInto::try_into
    if !matches!(tcx.def_kind(did), DefKind::AssocFn) {
        return None;
    }
    let tr = tcx.trait_of_assoc(did)?;
    let name = tcx.item_name(did);
    let (tr_sym, fn_sym) = if Some(tr) == tcx.get_diagnostic_item(rustc_span::sym::Into) && name.as_str() == "into" {
        (rustc_span::sym::From, rustc_span::sym::from)
    } else if Some(tr) == tcx.get_diagnostic_item(rustc_span::sym::TryInto) && name.as_str() == "try_into" {
        (rustc_span::sym::TryFrom, rustc_span::sym::try_from)
    } else {
        return None;
    };
    let tr = tcx.get_diagnostic_item(tr_sym)?;
    let f = tcx.associated_items(tr).filter_by_name_unhygienic(fn_sym).next()?.def_id;
    Some((f, true))
}

pub fn dump_instances<'tcx>(cx: &mut Cx<'tcx>) -> J {
    let tcx = cx.tcx;
    let env = ty::TypingEnv::fully_monomorphized();

    // closures grouped by their typeck root
    let mut closures_of: HashMap<LocalDefId, Vec<LocalDefId>> = HashMap::new();
    for ldid in tcx.hir_body_owners() {
        if tcx.def_kind(ldid.to_def_id()) == DefKind::Closure {
            let root = tcx.typeck_root_def_id_local(ldid);
            closures_of.entry(root).or_default().push(ldid);
        }
    }

    let mut ids: HashMap<Instance<'tcx>, usize> = HashMap::new();
    let mut list: Vec<Instance<'tcx>> = vec![];
    let mut work: Vec<usize> = vec![];
    let mut intern = |inst: Instance<'tcx>, list: &mut Vec<Instance<'tcx>>, work: &mut Vec<usize>| -> usize {
        if let Some(&i) = ids.get(&inst) {
            return i;
        }
        let i = list.len();
        ids.insert(inst, i);
        list.push(inst);
        work.push(i);
        i
    };

    for ldid in tcx.hir_body_owners() {
        let did = ldid.to_def_id();
        if !matches!(tcx.def_kind(did), DefKind::Fn | DefKind::AssocFn) {
            continue;
        }
        if tcx.generics_of(did).requires_monomorphization(tcx) {
            continue;
        }
        let inst = Instance::mono(tcx, did);
        intern(inst, &mut list, &mut work);
    }

    let mut calls: Vec<J> = vec![];
    let mut limit = 60000usize;
    while let Some(i) = work.pop() {
        if limit == 0 {
            break;
        }
        limit -= 1;
        let inst = list[i];
        let did = inst.def_id();
        if !did.is_local() {
            // Library generic (iterator adaptors, Option/Result combinators, ...): follow the calls of its
            // MIR with the instance's arguments substituted, only to discover which local instances it
            // reaches (e.g. `<Walk<..> as Iterator>::next` from `Iterator::any`).
            if matches!(inst.def, ty::InstanceKind::Item(_))
                && matches!(tcx.def_kind(did), DefKind::Fn | DefKind::AssocFn | DefKind::Closure)
                && tcx.is_mir_available(did)
            {
                let body = tcx.instance_mir(inst.def);
                let mut ext_edges: Vec<J> = vec![];
                for bb in body.basic_blocks.iter() {
                    if let rustc_middle::mir::TerminatorKind::Call { func, .. } = &bb.terminator().kind {
                        if let rustc_middle::mir::Operand::Constant(c) = func {
                            if let ty::FnDef(callee, cargs) = c.const_.ty().kind() {
                                if matches!(tcx.def_kind(*callee), DefKind::Fn | DefKind::AssocFn) {
                                    if let Some(ci) = resolve(tcx, env, inst.args, *callee, cargs) {
                                        let cid = intern(ci, &mut list, &mut work);
                                        ext_edges.push(J::U(cid as u128));
                                    }
                                }
                            }
                        }
                    }
                }
                if !ext_edges.is_empty() {
                    calls.push(J::O(vec![("inst", J::U(i as u128)), ("edges", J::A(ext_edges))]));
                }
            }
            continue;
        }
        let Some(ldid) = did.as_local() else { continue };
        if !matches!(inst.def, ty::InstanceKind::Item(_)) {
            continue;
        }
        if !matches!(tcx.def_kind(did), DefKind::Fn | DefKind::AssocFn) {
            continue;
        }
        let mut owners = vec![ldid];
        if let Some(cs) = closures_of.get(&ldid) {
            owners.extend(cs.iter().copied());
        }
        let mut per_body: Vec<(&'static str, J)> = vec![];
        let mut bodies_json: Vec<J> = vec![];
        for owner in owners {
            let Ok((steal, _root)) = tcx.thir_body(owner) else { continue };
            if steal.is_stolen() {
                continue;
            }
            let thir = steal.borrow();
            let mut entries: Vec<J> = vec![];
            for (eid, e) in thir.exprs.iter_enumerated() {
                let fty = match &e.kind {
                    ExprKind::Call { ty, .. } => *ty,
                    ExprKind::ZstLiteral { .. } => e.ty,
                    _ => continue,
                };
                let ty::FnDef(callee, cargs) = fty.kind() else { continue };
                if !matches!(tcx.def_kind(*callee), DefKind::Fn | DefKind::AssocFn) {
                    continue;
                }
                let resolved = resolve(tcx, env, inst.args, *callee, cargs);
                let Some(ci) = resolved else { continue };
                let cid = intern(ci, &mut list, &mut work);
                let mut via = J::Null;
                if let Some((from_fn, _)) = from_fn_of(tcx, *callee) {
                    // substituted (Self, Target) of the Into call
                    if let Some(sargs) = subst_args(tcx, env, inst.args, cargs) {
                        if let (Some(t0), Some(t1)) = (sargs.get(0).and_then(|a| a.as_type()), sargs.get(1).and_then(|a| a.as_type())) {
                            let fargs = tcx.mk_args(&[t1.into(), t0.into()]);
                            let r = std::panic::catch_unwind(std::panic::AssertUnwindSafe(|| {
                                Instance::try_resolve(tcx, env, from_fn, fargs)
                            }));
                            if let Ok(Ok(Some(fi))) = r {
                                via = J::U(intern(fi, &mut list, &mut work) as u128);
                            }
                        }
                    }
                }
                entries.push(J::A(vec![J::U(eid.as_u32() as u128), J::U(cid as u128), via]));
            }
            bodies_json.push(J::O(vec![
                ("body", J::S(cx.key(owner.to_def_id()))),
                ("calls", J::A(entries)),
            ]));
        }
        per_body.push(("inst", J::U(i as u128)));
        per_body.push(("bodies", J::A(bodies_json)));
        calls.push(J::O(per_body));
    }

    let mut insts: Vec<J> = vec![];
    for inst in list.iter() {
        let did = inst.def_id();
        let mut targs = vec![];
        for a in inst.args.iter() {
            if let Some(t) = a.as_type() {
                targs.push(J::S(with_no_trimmed_paths!(t.to_string())));
            }
        }
        let kind = match inst.def {
            ty::InstanceKind::Item(_) => "item",
            ty::InstanceKind::Virtual(..) => "virtual",
            ty::InstanceKind::ClosureOnceShim { .. } => "closure-once-shim",
            ty::InstanceKind::FnPtrShim(..) => "fn-ptr-shim",
            ty::InstanceKind::DropGlue(..) => "drop-glue",
            ty::InstanceKind::CloneShim(..) => "clone-shim",
            ty::InstanceKind::Intrinsic(_) => "intrinsic",
            _ => "other",
        };
        insts.push(J::O(vec![
            ("def", J::S(cx.key(did))),
            ("path", J::S(cx.path(did))),
            ("local", J::B(did.is_local())),
            ("kind", J::s(kind)),
            ("args", J::A(targs)),
        ]));
    }
    J::O(vec![("instances", J::A(insts)), ("calls", J::A(calls)), ("truncated", J::B(limit == 0))])
}

fn subst_args<'tcx>(
    tcx: TyCtxt<'tcx>,
    env: ty::TypingEnv<'tcx>,
    param_args: GenericArgsRef<'tcx>,
    cargs: GenericArgsRef<'tcx>,
) -> Option<GenericArgsRef<'tcx>> {
    let r = std::panic::catch_unwind(std::panic::AssertUnwindSafe(|| {
        tcx.try_instantiate_and_normalize_erasing_regions(param_args, env, EarlyBinder::bind(cargs))
    }));
    match r {
        Ok(Ok(a)) => Some(a),
        _ => None,
    }
}

fn resolve<'tcx>(
    tcx: TyCtxt<'tcx>,
    env: ty::TypingEnv<'tcx>,
    param_args: GenericArgsRef<'tcx>,
    callee: DefId,
    cargs: GenericArgsRef<'tcx>,
) -> Option<Instance<'tcx>> {
    let sargs = subst_args(tcx, env, param_args, cargs)?;
    let r = std::panic::catch_unwind(std::panic::AssertUnwindSafe(|| Instance::try_resolve(tcx, env, callee, sargs)));
    match r {
        Ok(Ok(Some(i))) => Some(i),
        _ => None,
    }
}
