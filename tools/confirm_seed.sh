#!/bin/bash
# Confirms a seeded change in its scratch worktree (suite passes with it; demo fails with it and passes
# without it) and stores it under /verif/seeded/<name>/.   usage: confirm_seed.sh <name> <worktree> <checks...>
set -u
NAME=$1; WT=$2; shift 2
export CARGO_TARGET_DIR=${WT}-target
OUT=/verif/seeded/$NAME
mkdir -p $OUT
cd $WT || exit 2
LOG=$OUT/confirm.log
: > $LOG
echo "== test suite with change" >> $LOG
cargo test --offline --workspace >> $LOG.suite 2>&1; SUITE=$?
grep -E "^test result" $LOG.suite >> $LOG
echo "suite exit=$SUITE" >> $LOG
echo "== demo with change" >> $LOG
cargo run -q --offline --example seed_demo >> $LOG.demo_with 2>&1; WITH=$?
tail -3 $LOG.demo_with >> $LOG; echo "demo-with exit=$WITH" >> $LOG
git diff -- src > /tmp/confirm-$NAME.patch
git checkout -q -- src
echo "== demo without change" >> $LOG
cargo run -q --offline --example seed_demo >> $LOG.demo_without 2>&1; WITHOUT=$?
tail -2 $LOG.demo_without >> $LOG; echo "demo-without exit=$WITHOUT" >> $LOG
git apply /tmp/confirm-$NAME.patch
cp SEED/patch.diff SEED/demo.rs SEED/meta.json $OUT/ 2>/dev/null
rm -f $LOG.suite $LOG.demo_with $LOG.demo_without
echo "== checks against the change" >> $LOG
cd /verif
DET=""
for c in "$@"; do
  VERIF_REPO=$WT python3 -m sa.check $c > /tmp/confirm-$NAME-$c.out 2>&1; rc=$?
  n=$(grep -c "^VIOLATION" /tmp/confirm-$NAME-$c.out)
  echo "$c exit=$rc violations=$n" >> $LOG
  grep "^VIOLATION" /tmp/confirm-$NAME-$c.out | head -3 >> $LOG
  if [ $rc -ne 0 ]; then DET="$DET $c"; fi
done
python3 - <<PY
import json
p="$OUT/meta.json"
try: m=json.load(open(p))
except Exception: m={}
m["confirmed_by_us"]={"suite_exit_with_change":$SUITE,"demo_exit_with_change":$WITH,"demo_exit_without_change":$WITHOUT,
  "what_we_ran":"cargo test --offline --workspace (with change); cargo run --offline --example seed_demo (with and without change) in a scratch worktree; python3 -m sa.check <id> with VERIF_REPO=<worktree>"}
m["detected_by_checks"]="$DET".split()
json.dump(m,open(p,"w"),indent=1)
print("$NAME","suite",$SUITE,"with",$WITH,"without",$WITHOUT,"detected:","$DET")
PY
# restore evidence files of the real tree (the checks above overwrote them)
for c in "$@"; do python3 -m sa.check $c > /dev/null 2>&1; done
