#!/usr/bin/env python3
"""Generates /verif/MANIFEST.json from the table below (keeps it valid at all times)."""
import json
import os

VERIF = os.path.dirname(os.path.dirname(os.path.abspath(__file__)))

ASSUME = ("Trusted base: rustc nightly front end (THIR/MIR of /repo's current tree), the waxfacts serialiser, the sa/ "
          "evaluator with its library models (std/itertools semantics), the reference tables in the rule modules. "
          "Unix configuration only. ")

CLAIMS = {
    "C13": dict(
        technique="static analysis: MIR who-may-call + THIR case-table evaluation (pairing / typestate of cancellation)",
        text="Static decision, for all inputs, of the cancellation plumbing every walk goes through: single guarded "
             "caller of skip_current_dir, is_dir assigned on every path, every combinator forwards exactly one "
             "cancellation to the iterator it feeds from, a cancellation is used once iff an entry becomes tree residue "
             "from a non-tree state, and it targets the iterator whose feed() produced the entry. Decides these "
             "structural clauses (necessary conditions), not the behaviour on a concrete tree.",
        note=ASSUME + "Assumed: walkdir's skip_current_dir skips the most recently yielded directory. Not decided: "
             "correctness of the pruned set on concrete trees (component programs: see C02).",
        ref="4 C13"),
    "C16": dict(
        technique="static analysis: THIR case-table evaluation against the residue lattice + who-may-construct (MIR/THIR)",
        text="Static decision that every state-changing function computes max(state, verdict) in filtrate < node < tree "
             "with the right number of cancellations, that filtrate is only made from iterator items or filtrate, that "
             "each feed() applies its verdict once to filtrate and residue alike after exactly one input.feed(), and that "
             "the draining loop returns the first filtrate. Monotone layers that each see every entry once imply order "
             "independence; the behavioural law on concrete stacks is not executed.",
        note=ASSUME + "Assumed: verdict closures are functions of the entry. Not decided: yielded sets of concrete stacks.",
        ref="4 C16"),
    "C20": dict(
        technique="static analysis: MIR drop/move inventory of error-typed values (who-may-drop) + THIR evaluation of error arms",
        text="Static decision that wax cannot discard or rewrite an error item: no non-unwinding drop of a WalkError / "
             "walkdir::Error typed value and no move of one into a non-audited library function anywhere in the crate "
             "(with a positive-control fixture), every forwarding site maps Err to the same error as filtrate with no "
             "verdict and no cancellation, and the conversion keeps depth/path and the I/O vs. cycle distinction.",
        note=ASSUME + "Assumed: walkdir reports faults as Err items and continues. Not decided: which entries survive a "
             "fault at a given position of a concrete tree.",
        ref="4 C20"),

    "C01": dict(
        technique="static analysis: the parser function (token::parse::parse) evaluated from its THIR with a model of the nom / pori combinators on a catalogue of ~12 700 expression texts, compared with an independently written reference reading of the README syntax (token trees); emitted program vs. an independently written reference language, as automata, on an expression catalogue; THIR case-table evaluation of the encoder (emission table) + regex algebra on the emitted text (language equality with reference, flag typestate)",
        text="On every buildable catalogue expression with a crisp reference (no tree wildcard inside a branch, no class) the program encode::compile emits has exactly the language the README gives to the expression (catalogue shapes only). "
             "The encoder is a syntax-directed translation; conformance follows by structural induction from finitely many "
             "obligations that are decided on the text it emits in every case (grouping x context x position x token "
             "shape): leaf languages (separator-free, right length, literals only through regex::escape under an explicit "
             "flag), tree-wildcard fragment = reference language R(left, right, rooted) over {SEP, NL, OTHER}, classes "
             "compiled case-sensitively, every `.` under dot-all, alternation = union of all branches, repetition = "
             "body{m,n}, anchoring, both Program impls match with their own program, and the parser's bound specification (`repetition::bounds`, evaluated with a model of the nom combinators) gives the documented (lower, upper) for every documented form; on ~12 700 catalogue texts (every sequence of up to three atoms - literals, escapes, wildcards, separators, tree wildcards, classes, flags - and every atom inside every alternation / repetition form in several contexts, plus malformed texts) the parser accepts exactly the documented syntax and builds the documented token tree: kinds, unescaped literal text, the case flag in force at each literal (flags apply in text order, into and out of groups), class members and negation, bounds, the separators a tree wildcard absorbs. Necessary conditions covering "
             "the whole mechanism; whole-expression language equality is not computed.",
        note=ASSUME + "Assumed: regex crate semantics; nom / pori combinator semantics as modelled in sa/nommodel.py; outside the text catalogue the parser is "
             "assumed to deliver the tokens the text denotes. Known finding: rooted tree wildcard in first position (pinned by an existing test).",
        ref="4 C01"),
    "C04": dict(
        technique="static analysis: capturing groups of the emitted program vs. capturing tokens on an expression catalogue; emission table of the encoder + regex algebra (group count / content), writer-reader table agreement, THIR evaluation of the capture indexers",
        text="On ~8 000 buildable catalogue expressions the emitted program has exactly one capturing group per capturing top-level token (catalogue shapes only). "
             "Decides the positional correspondence of regex groups and capturing tokens for every case of the emission "
             "table: writer set = is_capturing set, exactly one capturing group per capturing top-level token, none nested, "
             "separator-free content for ?,*,$,classes, complete components for tree wildcards, anchoring (capture 0 = whole "
             "path), Glob::captures enumerates is_capturing tokens 1..n, owned and borrowed matched text index alike.",
        note=ASSUME + "Assumed: regex group numbering and leftmost-first semantics. Not decided: order/non-overlap and "
             "between-capture text. Known finding: rooted first tree wildcard captures half a component (pinned by a test).",
        ref="4 C04"),
    "C07": dict(
        technique="static analysis: emitted program vs. a compositional reference language on an expression catalogue (= C01.whole); THIR case-table of the context update (homomorphism equation) + emission table for branches + who-may-call for any",
        text="On the catalogue the emitted program equals a compositional reference (union, m..n-fold concatenation, in place), so wrapping, substitution and unrolling cannot change a language there. "
             "Decides the three finite obligations from which the composition laws follow by induction: the context "
             "passed to a nested branch preserves (has-left, has-right) over all 5x4 inputs and both branch kinds; "
             "alternation/repetition/concatenation arms are a homomorphism (language-level comparison with holes); "
             "token::any builds one alternation of all inputs in order and crate::any compiles that same tree.",
        note=ASSUME + "Assumed: regex semantics, C01.tree. Not decided: language equality of concrete expression pairs.",
        ref="4 C07"),
    "C09": dict(
        technique="static analysis: the exhaustiveness verdict (THIR evaluation of the whole fold) compared with the language of the emitted program (regex automaton) on a catalogue of ~6 500 / ~30 000 small expressions; THIR case tables for the finite parts",
        text="On every buildable expression of a catalogue (one alternation or repetition with sub-expressions of up to two "
             "segments, in every context of up to two / three segments) the verdict `always` implies that the program "
             "encode::compile emits for the same tree matches every canonical path beneath a matched canonical path - two "
             "artefacts computed from the source are compared, nothing is run. Also: trivalent tables, verdict functions, "
             "admission predicate, suffix selection free of bounded leaves, repetition guard, discarded-terms branch, "
             "identical delegation in Glob and Any, range operations never lose an upper bound.",
        note=ASSUME + "Soundness outside the catalogue is not decided. Found and repaired with it: `**/{a}` family (89e1cfe); known: optional repetitions (`<*/>`, pinned by an existing test).",
        ref="4 C09"),
    "C10": dict(
        technique="static analysis: reported depth variance (THIR evaluation of the whole fold) vs. component counts of the language of the emitted program (automaton) on an expression catalogue; THIR case-table evaluation against a model-derived reference (termination algebra, finalisation, leaf terms, fold operators, variance shapes)",
        text="On every buildable catalogue expression the reported depth variance contains the number of components of every canonical path the emitted program matches (catalogue shapes only). "
             "Decides the finite algebra the depth analysis is composed from: 25-cell termination table vs a reference "
             "computed from an edge model, finalisation as containment, depth terms of all leaf kinds, the nine VarianceFold "
             "impls and the BranchKind dispatcher (exact trait selection through rustc's monomorphic resolution), result "
             "shapes of conjunction/disjunction.",
        note=ASSUME + "Known: lower bound one too high with a tree wildcard inside a branch (`**/x/{a/**}`). Not decided: arithmetic over natural ranges, hence the containment law itself.",
        ref="4 C10"),
    "C12": dict(
        technique="static analysis: has_root verdict vs. the language of the emitted program, and Token::literals vs. a reference of delimited dot components, on expression catalogues; THIR case-tables (rooting predicate, fold operators, sequencers) + emission table (initial rooting leaves inside SEP.Sigma*)",
        text="On every buildable catalogue expression, has_root = always implies every matched path begins with a separator, and no expression reports `sometimes` (catalogue shapes only). "
             "Decides: rooting leaves = {separator, rooted tree wildcard}; has_root folds with or/certainty and weakens "
             "optional repetitions; Starting selects first / all children; every rooting leaf emitted at an initial position "
             "only matches text beginning with a separator; semantic literal iff text is `.` or `..`; "
             "has_semantic_literals = any over literals(); on a catalogue of buildable expressions with `.` / `..` components at every "
             "position and nesting, Token::literals (evaluated from THIR) yields a semantic literal whenever a delimited component is spelled `.` or `..`.",
        note=ASSUME + "Not decided: Token::literals/components beyond the dot catalogue's shapes; `never sometimes` is C06's clause.",
        ref="4 C12"),
    "C06": dict(
        technique="static analysis: the parser function (token::parse::parse) evaluated from its THIR with a model of the nom / pori combinators on a catalogue of ~12 700 expression texts, compared with an independently written reference reading of the README syntax (accepted / rejected); rule checker verdict (THIR evaluation on whole trees) vs. the documented rules computed independently by expansion, on an expression catalogue; THIR case-table evaluation of the three check functions against a reference decision table + loop-carried-dependence rule + evaluation of the traversal on abstract trees",
        text="On ~20 000 catalogue expressions the rule functions accept exactly the expressions that respect the documented rules (adjacent boundaries / zero-or-more wildcards under every choice of branches and one or two passes of repetition bodies, sole tree / separator / wildcard bodies, rooting branches), both directions (catalogue shapes only). "
             "Decides ~1600 decision cells of check_branch / check_alternation / check_repetition (terminal shapes x "
             "neighbour predicates x bound shapes) against a reference written from the documented rules; context-freedom "
             "twice: no loop-assigned variable reaches a check argument, and on a catalogue of abstract trees every branch "
             "body is checked exactly once with exactly its own nearest neighbours; Starting/Ending selection; boundary "
             "kinds; bounds and size predicates; check = all four rules; Checked constructed only by audited functions; on ~12 700 catalogue texts the parser accepts exactly the texts of the documented syntax (flags anywhere but inside a tree wildcard or at the end of a sub-expression, delimiters balanced, bounds well-formed, tree wildcards delimited) and rejects the others (C06.syntax).",
        note=ASSUME + "Not decided: completeness of the rule set; the group_by pipeline of `boundary()`.",
        ref="4 C06"),
    "C11": dict(
        technique="static analysis: reported invariant text vs. the language of the emitted program on an expression catalogue; THIR case-table evaluation (text terms of all leaf kinds, conjunction order, disjunction shapes, conversion)",
        text="On every buildable catalogue expression that reports invariant text, the emitted program matches exactly that text (catalogue shapes only). "
             "Decides the finite parts of the text variance: leaf terms (literal x flag x casing, class archetype shapes, "
             "separator, wildcards), left-then-right concatenation and repetition of fragments, disjunction of invariants "
             "invariant only when equal, TextVariance::from. The law `invariant text is the only match` itself is not computed.",
        note=ASSUME + "Unix: PATHS_ARE_CASE_INSENSITIVE = false. Not decided: case-folded equality; classes listing a separator.",
        ref="4 C11"),
    "C18": dict(
        technique="static analysis: the parser function evaluated from its THIR with a model of the nom combinators on probe texts and on escaped strings vs. evaluated is_meta_character / escape (set inclusions, round trip)",
        text="Decides that escape() and the parser agree on the meta-character set, on the parser itself and independently of how the sets are spelled: "
             "M (is_meta_character evaluated on ASCII and on non-ASCII characters with ASCII low bytes) within E (`\\x` is read as the literal x), "
             "S (characters that end a literal when unescaped) within M + {/,\\}, M within S; every character can be a class member as written or escaped, contextual "
             "meta-characters escapable; escape evaluated on strings covering every meta-character; for ~300 strings (every ASCII character, every pair of "
             "meta-characters, path-like, pattern-like, non-ASCII texts) the parser reads escape(s) as literals and separators spelling s (C18.roundtrip).",
        note=ASSUME + "Assumed: nom combinator semantics as modelled in sa/nommodel.py. Not decided: that the escaped text passes the rule checker and is invariant (C06, C11).",
        ref="4 C18"),
    "C19": dict(
        technique="static analysis: parser evaluated from its THIR on a text catalogue (stored expression); Token::into_owned evaluated on an expression catalogue (identity on trees); THIR evaluation of the generic fold_map on a catalogue of abstract trees + variant tables + provenance of (tree, program) pairs + who-may-construct",
        text="On ~5 600 buildable catalogue expressions Token::into_owned returns a structurally identical tree (catalogue shapes only). "
             "Decides that conversions preserve structure: variant-preserving kind tables, Token::into_owned rebuilds every "
             "catalogue tree identically, every Glob/Any construction pairs a tree with the program compiled from it, FromStr / "
             "TryFrom / Display / Pattern routes reach new / parse_and_check; after a partition the stored expression (what Display writes) is "
             "the text of the remaining tokens, for borrowed and owned expressions (C08.bytes); the parser stores exactly the text it was given as the expression Display writes, on ~10 700 accepted catalogue texts (C19.text).",
        note=ASSUME + "Not decided: equality of behaviour as such.",
        ref="4 C19"),
    "C05": dict(
        technique="static analysis: MIR inventory of all panic-capable constructs vs. an audited table (one reason per site) + machine-checked local guards (THIR evaluation on shape grids) + exact monomorphic call-graph SCCs",
        text="Every panic-capable construct of wax's own code (explicit panics, unwrap/expect, indexing, range methods, "
             "unchecked constructors, overloaded arithmetic, inserted overflow/bounds asserts) in every feature configuration "
             "must be in an audited table with a reason (discharged / finding / out of scope); a new or additional site is a "
             "violation with a call path from a public entry point. Local discharging arguments are machine-checked by "
             "evaluating the function on a grid of shapes and small magnitudes (this is how the unreachable!() in range "
             "conjunction was found); error mapping of encode::compile; only nom complete combinators; recursion cycles of the "
             "exact instance call graph; classes with a descending range never reach the final program as written (a regex "
             "syntax error is a panic).",
        note=ASSUME + "Audited, not proven: non-local discharging arguments. Panics inside dependencies assumed away. Known "
             "findings: overflow expects near the word size, panic on non-size regex errors, unbounded recursion depth.",
        ref="4 C05"),
    "C02": dict(
        technique="static analysis: THIR case-table evaluation of the glob walker's closure (decision procedure per entry, incl. rooted / `..` / `.` relative paths), of join_and_get_depth + split_at_depth on abstract component sequences, and of WalkProgram::compile",
        text="NARROW: walkdir's enumeration is assumed, the exactly-once law as a whole is not decided. Decided per entry, on "
             "every cell of depth 0..3 x programs 0..3 x lead component (none, RootDir, ParentDir, CurDir) x prefix components x "
             "own-component match x complete match: a program is only compared with the component of its own index, a tree is "
             "discarded only when the entry's own component fails its program, an entry is yielded only on a match of the "
             "complete program on the root-relative path (with that match and pivot stored), everything else is node residue; "
             "the root-relative path is the prefix as written plus the traversed names for every base x prefix shape; "
             "component programs cover exactly the maximal boundary-free prefix; same compiler for component and complete "
             "programs; a cancellation skips exactly the judged directory.",
        note=ASSUME + "Assumed: walkdir semantics; std::path semantics as modelled in sa/rules/pathmodel.py. Found and repaired with it: rooted globs stopped descending (19caab6), `..` prefixes yielded nothing (821abd1); known: `./` prefixes.",
        ref="4 C02"),
    "C03": dict(
        technique="static analysis: exhaustiveness verdict vs. program language on the C09 catalogue + THIR case-table evaluation of the negation's partition, program construction and verdict function + shared feed tables",
        text="Discarding a tree equals per-entry filtering iff `always exhaustive` is sound: decided on the C09 catalogue "
             "(shared computation). For all inputs: alternatives go to the exhaustive side only when `always`, the two sides "
             "reach the program's slots unswapped, residue() over 4 variants x match outcomes, candidate = root-relative "
             "path, Not::feed applies the verdict once to filtrate and residue alike, into_non_trivial / into_alternatives "
             "keep every alternative.",
        note=ASSUME + "Soundness of the verdict outside the catalogue is not decided; known: optional repetitions.",
        ref="4 C03"),
    "C08": dict(
        technique="static analysis: languages of glob, prefix and postfix compared as automata on an expression catalogue (Tokenized::partition evaluated from its THIR); THIR evaluation of Tokenized::partition on abstract token lists with concrete byte spans + table of invariant_text_prefix",
        text="On every buildable catalogue expression: a canonical path matches the glob exactly when it is prefix + separator + a path the postfix matches; no postfix => the glob matches exactly the prefix; the postfix is unrooted; partitioning is idempotent (catalogue shapes only). "
             "For all inputs: the postfix "
             "is recompiled from the partitioned tree; for every prefix length on scenarios incl. multi-byte and rooted tree "
             "wildcards, bytes removed from the expression = amount subtracted from every remaining span (each span still "
             "delimits its token's text), the first remaining token is unrooted, the prefix text is invariant_text_prefix's; "
             "invariant_text_prefix over all invariance/boundary patterns up to length 3 (4).",
        note=ASSUME + "The law outside the catalogue and the displayed postfix expression behind flags are not decided. Known: globs rooted through a repetition keep their root (`</a:1,>`).",
        ref="4 C08"),
    "C14": dict(
        technique="static analysis: THIR evaluation of join_and_get_depth and split_at_depth on abstract paths (component sequences) over a base x prefix x depth table, judged through the entries' own accessors (GlobEntry, TreeEntry)",
        text="Decided on abstract component sequences: for every base shape (empty, `.`, relative, `./x`, absolute) x prefix "
             "shape (none, literal, rooted, with `..`, with `.`) x traversal depth, the pivot makes the root segment the walked "
             "directory (empty for rooted globs), the relative segment the prefix as written plus the traversed names, "
             "joining them gives the path, and depth() equals the number of components of the relative segment; "
             "GlobEntry's own root_relative_paths and depth are evaluated on an entry the walker's closure builds from (path, "
             "traversal depth, pivot), so the rule does not depend on which helpers they use; the same for TreeEntry; "
             "to_candidate_path = complete matched text.",
        note=ASSUME + "Assumed: std::path semantics as modelled in sa/rules/pathmodel.py, walkdir depth. Found and repaired with it: depth() of rooted entries was one too large (1cead95); known: `./` prefixes lose the `.`.",
        ref="4 C14"),
    "C15": dict(
        technique="static analysis: THIR evaluation of the walk constructor and the first next() against a model of walkdir's builder (effect log) on a grid of depth behaviours x pivots x link behaviours + constructor tables + the cancellation flag's provenance",
        text="Decides the depth window end to end: for every depth behaviour (Unbounded, Max, Min, MinMax on a grid covering every ordering of "
             "minimum, maximum and prefix length) x link behaviour, the walk consults walkdir with exactly the traversal depths w for which "
             "min <= w + pivot <= max, follow_links = (ReadTarget), and consults nothing when no depth qualifies; the DepthBehavior "
             "constructors on a grid (tri-state); walkdir loop errors become LinkCycle; the flag a cancellation consults is the yielded "
             "entry's own file type, so a link read as a file is a leaf.",
        note=ASSUME + "Assumed: walkdir honours its window, follows links only when asked and detects re-entrant links. Not decided: emptiness "
             "when the minimum exceeds the deepest entry of the actual tree (run-time quantity); termination (walkdir's).",
        ref="4 C15"),
    "C17": dict(
        technique="static analysis: the parser function (token::parse::parse) evaluated from its THIR with a model of the nom / pori combinators on a catalogue of ~12 700 expression texts, compared with an independently written reference reading of the README syntax (token annotations); THIR evaluation of the rule functions on failing abstract trees (provenance of spans) + tables for union and LocatedError::span",
        text="Decides where spans come from: every span in a RuleError produced by the four rules is a token annotation or a "
             "union of annotations of the same expression; union = (min start, max end - min start); every LocatedError::span "
             "ends on a character boundary of the text at its location (empty, ASCII, multi-byte); partition shifts spans and "
             "expression by the same offset (C08.bytes); capture spans are token annotations (C04.captures); on ~10 700 accepted catalogue texts (with multi-byte characters, escapes, flags, nesting) every token's annotation is the byte span of its own text in the expression - from the token or from its preceding flags to its end (C17.tokens) - and the stored expression is the text parsed.",
        note=ASSUME + "Assumed: nom / pori combinator semantics as modelled in sa/nommodel.py (pori::span = location before, location difference after). Not decided: spans inside nom's error stack beyond the entry point.",
        ref="4 C17"),
}


# round 10 additions (appended to the claims above)
EXTRA = {
    "C02": ("; both public walk routes evaluated end to end against a model of walkdir",
            " Every walk route, evaluated end to end with the walkdir model, asks walkdir on the base joined with the prefix (C20.source)."),
    "C07": ("; variant tables of the tree rebuild used by `any`",
            " The trees `any` rebuilds (fold_map: decompose / compose) keep kinds, children, repetition bounds and literal flags (C19.kinds)."),
    "C08": ("; parser + Tokenized::partition evaluated from THIR on a text catalogue, the displayed postfix parsed again",
            " On ~850 texts with flags / escapes / multi-byte text / invariant groups / rooted and `..` prefixes the displayed postfix is a suffix of the text, "
            "holds the remaining tokens, and parses again into the same tokens with the same spans, with spans taken from the parser itself (C08.text)."),
    "C10": ("; Program::depth evaluated on a grid of internal variances and read through the public accessors",
            " Program::depth of Glob and Any hands out, in the public types, exactly the interval of the internal variance for 20 variance shapes (C10.public)."),
    "C11": ("; variant tables of the owning conversion",
            " The owning conversion keeps every leaf of the tree, the case flag of a literal included (C19.kinds), so an owned glob reports the text of the glob it was made from."),
    "C12": ("; the public query Glob::has_semantic_literals evaluated on catalogue trees with an abstract std::path model",
            " C12.dots evaluates the public query itself."),
    "C13": ("; decision cells of the glob walker's closure; sibling rule for the combinators' Iterator::next",
            " A directory whose own component fails the program of its depth is discarded as a tree and any other non-matching entry as a file, on 320 cells of the "
            "glob walker (C02.prune); every combinator yields the filtrate of its own feed (C16.next)."),
    "C15": ("; Glob::new + Glob::walk_with_behavior + first next() evaluated end to end on a catalogue of glob texts x bases x behaviours against a hand-written reference; conversion tables",
            " End to end from the glob text (C15.reach, 2 622 cells, 1 560 of them demanding): whenever a possible match lies inside the depth bounds, walkdir is consulted on the base "
            "joined with the prefix with exactly the translated window and link behaviour; every From conversion into WalkBehavior / DepthBehavior and the defaults are as documented (C15.convert)."),
    "C16": ("; sibling rule for the combinators' Iterator::next",
            " Iterator::next of the four separating filters is filter::filtrate of the combinator itself (C16.next)."),
    "C20": ("; both public walk routes evaluated end to end against a model of walkdir, unmodelled calls answering unknowns",
            " Every walk consults walkdir on its root whatever an unmodelled call (a file-system probe) answers, so a fault at the root is reported by walkdir and cannot be pre-empted (C20.source)."),
}
EXTRA["C06"] = ("; the rule checker on ~6 400 parsed texts vs. the documented rules by expansion",
               " On ~6 400 texts taken through the parser (two groups around a middle, groups in groups) the rule functions agree with the documented rules in both directions, "
               "up to two known families recorded in KNOWN_FINDINGS.txt (C06.text).")
EXTRA["C09"] = ("; nested alternations taken through the parser",
               " On ~2 800 alternations of alternations the verdict `always` agrees with the program language (C09.text).")
EXTRA["C03"] = ("; nested alternations taken through the parser; the cancellation flag's provenance",
               " C09.text on alternations of alternations; discarding a non-directory entry cannot leave its parent (C13.isdir).")
EXTRA["C12"] = (EXTRA["C12"][0] + "; has_root on ~3 700 buildable parsed texts",
               EXTRA["C12"][1] + " No buildable text of the C06.text catalogue reports `sometimes`, up to one known family (C12.text).")
EXTRA["C01"] = ("; the whole route text -> parser -> rule checker -> encoder evaluated on ~4 200 texts with flags / classes / escapes and the program compared with the reference language",
               " End to end from the text (C01.text): on ~4 200 texts with flags anywhere, classes, escapes and multi-byte characters the program has exactly the language the README gives to the tokens.")
EXTRA["C07"] = (EXTRA["C07"][0] + "; the whole route text -> program vs. reference language on ~4 200 texts (multi-character literals)",
               EXTRA["C07"][1] + " C07.text (= C01.text): from the text to the program language, which is where a quantifier binding to the last character of a literal shows.")
EXTRA["C18"] = ("; sibling rule on the Program impls", " Matching is the compiled program's for every glob, invariant ones included (C01.delegate).")
for _pid, (_t, _x) in EXTRA.items():
    CLAIMS[_pid] = dict(CLAIMS[_pid], technique=CLAIMS[_pid]["technique"] + _t, text=CLAIMS[_pid]["text"] + _x)

NA_DEFAULT = "check not built yet (work in progress; see DESIGN.md section 4 for the planned rules)"
NA = {}


def main():
    props = [json.loads(l) for l in open(os.path.join(VERIF, "properties.jsonl"))]
    checks = []
    na = []
    for p in props:
        pid = p["id"]
        if pid in CLAIMS:
            c = CLAIMS[pid]
            checks.append({
                "property_id": pid,
                "quick_cmd": "python3 -m sa.check %s --tier quick" % pid,
                "thorough_cmd": "python3 -m sa.check %s --tier thorough" % pid,
                "evidence_file": "/verif/evidence/%s.json" % pid,
                "replay_cmd_template": "python3 -m sa.check %s --replay {path}" % pid,
                "engine": "sa",
                "level_claimed": {"category": "other", "text": c["text"], "design_ref": "DESIGN.md section " + c["ref"]},
                "level_note": c["note"],
                "technique": c["technique"],
            })
        else:
            na.append({"property_id": pid, "reason": NA.get(pid, NA_DEFAULT)})
    m = {
        "version": 1,
        "setup_cmd": "python3 -m sa.build default",
        "hooks": {"guard": "olson_sean_k_wax_verif",
                  "enable": "none: no hooks are needed; the checks analyse /repo's sources as they are",
                  "baseline_off_cmd": "cd /repo && cargo test --workspace --no-fail-fast --offline",
                  "source_commits": [], "add_only": True},
        "engines": [
            {"name": "waxfacts", "path": "/verif/driver", "serves_properties": sorted(CLAIMS),
             "kind_free_text": "rustc_private driver (nightly): dumps items, impls, evaluated consts, ADTs, THIR and MIR facts of /repo as JSON; never runs wax"},
            {"name": "sa", "path": "/verif/sa", "serves_properties": sorted(CLAIMS),
             "kind_free_text": "Python static analyses over the facts: THIR case-table evaluator, MIR inventories / who-may-call / call graph, regex algebra, per-property rules"},
        ],
        "checks": checks,
        "notes": "Technique family: static analysis only. Every check re-extracts facts from /repo's current working tree "
                 "(content-hash cache under /verif/.cache). KNOWN_FINDINGS.txt lists known/fixed findings.",
        "not_applicable": na,
    }
    with open(os.path.join(VERIF, "MANIFEST.json"), "w") as f:
        json.dump(m, f, indent=1)
    print("claimed:", sorted(CLAIMS), "not applicable:", len(na))


if __name__ == "__main__":
    main()
