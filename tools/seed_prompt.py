#!/usr/bin/env python3
"""Prints the prompt given to a seeding sub-agent for one property (only the property text + logistics)."""
import json, sys
pid = sys.argv[1]
hint = sys.argv[2] if len(sys.argv) > 2 else "the modules the property talks about"
for l in open('/verif/properties.jsonl'):
    p = json.loads(l)
    if p['id'] == pid:
        break
d = "/tmp/seed-%s" % pid
import glob, os
studied = []
for mp in sorted(glob.glob('/verif/seeded/*/meta.json')):
    name = os.path.basename(os.path.dirname(mp))
    try:
        m = json.load(open(mp))
    except Exception:
        continue
    if name.startswith(pid) or (len(sys.argv) > 3 and any(name.startswith(x) for x in sys.argv[3].split(','))):
        studied.append("- %s: %s" % (", ".join(m.get('files_changed') or []), (m.get('summary') or '').replace('\n', ' ')[:330]))
AVOID = ""
if studied:
    AVOID = ("\n\nALREADY STUDIED - do NOT submit any of these changes again, nor a close variant of one (same function, same slip); "
             "find a DIFFERENT function / mechanism / kind of mistake:\n" + "\n".join(studied) + "\n")
print(f"""You are helping to evaluate a verification effort for the Rust glob library `wax` (olson-sean-k/wax 0.6.0). You have your OWN scratch git worktree of the library at {d} (a detached checkout; work ONLY inside that directory; never touch /repo or /verif, and do not read anything under /verif). The sandbox has NO network: always pass `--offline` to cargo and use a private target directory: `CARGO_TARGET_DIR={d}-target`.

Here is a semantic property that the library is supposed to satisfy:

---
Property {pid}: {p['title']}

Statement: {p['statement']}

Quantified over: {p['quantifier']['text']}

Why the existing tests cannot settle it: {p['why_tests_cant']}
---

YOUR TASK: produce ONE realistic change to the library's source (under {d}/src) that BREAKS this property while (a) the crate still compiles, and (b) the ENTIRE existing test suite still passes unchanged (`cd {d} && CARGO_TARGET_DIR={d}-target cargo test --offline --workspace` - 468 unit tests plus doctests). The change should look like a plausible regression a maintainer could introduce (a refactoring slip, an "optimisation", a wrong condition, a swapped argument, a dropped call, an off-by-one...), NOT sabotage with special-cased inputs. IMPORTANT: the breakage must need something SPECIFIC to manifest (a particular combination of constructs, a multi-step sequence of operations, an unusual input, two cooperating sites that each look fine alone) - not something ordinary use or the existing tests would expose at once.

Also write a DEMONSTRATION: a small Rust program (e.g. {d}/examples/seed_demo.rs using only the public API of `wax`, creating any directory trees it needs under std::env::temp_dir()) that FAILS (panics / non-zero exit) with your change applied and PASSES on the unchanged code. Verify both: run it with the change, then remove the change (`git diff -- src > /tmp/seed-{pid}.patch; git checkout -- src`), run it again, then re-apply (`git apply /tmp/seed-{pid}.patch`).

Read the source to find a good spot (start with {hint}). Do not edit tests. Do not add dependencies.{AVOID}

DELIVERABLES (all inside {d}/SEED/):
1. patch.diff - `git diff -- src` of your change only (must apply with `git apply` on the clean checkout).
2. demo.rs - the demonstration source (say in meta.json where it must be placed and how to run it, e.g. `cargo run --offline --example seed_demo`).
3. meta.json - {{"property": "{pid}", "summary": what the change does, "needs_to_manifest": what specific situation exposes it, "files_changed": [...], "commands_run": [each command with its observed outcome: test suite with change (pass count), demo with change (fails how), demo without change (passes)]}}.
Leave the worktree with the change APPLIED and the demo file in place. In your final answer, summarise the change, the manifestation condition, and the verification results (be truthful: if the full test suite did not pass with your change, say so and try another change instead).""")
