// Building a glob never panics: `<a:0,2><b:1,>` reached `unreachable!()` in the range algebra.
use wax::{Glob, Program};
fn main() {
    for expr in ["<a:0,2><b:1,>", "<a:1,><b:0,2>", "<a/:0,3><b/:2,>", "<a:0,2><b:1,>/**"] {
        let r = std::panic::catch_unwind(|| Glob::new(expr).map(|g| (g.depth(), g.is_exhaustive())));
        match r {
            Ok(r) => println!("{:<20} -> {:?}", expr, r.map_err(|e| e.to_string())),
            Err(_) => panic!("building or querying `{}` panicked", expr),
        }
    }
    println!("ok");
}
