// The verdict of the rule checker for a sub-expression must depend only on its own neighbours.
use wax::{Glob, Program};
fn main() {
    // `{/a,b}` is the first token of the first branch of the outer alternation, which is the first
    // token of the expression: the branch `/a` roots the expression and must be rejected, whatever
    // follows the outer alternation.
    let without = Glob::new("{{/a,b}c,d}x");
    let with = Glob::new("{{/a,b}c,d}x{e,f}");
    println!("without sibling: {:?}", without.as_ref().map(|_| ()).map_err(|e| e.to_string()));
    println!("with sibling:    {:?}", with.as_ref().map(|g| g.has_root()).map_err(|e| e.to_string()));
    assert!(without.is_err());
    assert!(with.is_err(), "`{{{{/a,b}}c,d}}x{{e,f}}` builds (and is only sometimes rooted) although `{{{{/a,b}}c,d}}x` is rejected");
    // The converse leak: a right neighbour of a later sibling is applied to an earlier branch.
    let a = Glob::new("{{**/a,b}c,d}x{e,f}");
    let b = Glob::new("{{**/a,b}c,d}x/{e,f}");
    assert_eq!(a.is_ok(), b.is_ok(), "`{{{{**/a,b}}c,d}}x/{{e,f}}` and `{{{{**/a,b}}c,d}}x{{e,f}}` get different verdicts");
    println!("ok");
}
