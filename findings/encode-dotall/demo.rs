// A tree wildcard matches every character a path may contain, including a newline.
use wax::{Glob, Program};
fn main() {
    assert!(Glob::new("**").unwrap().is_match("a\nb"), "`**` does not match `a\\nb`");
    assert!(Glob::new("a/**/b").unwrap().is_match("a/x\ny/b"), "`a/**/b` does not match `a/x\\ny/b`");
    assert!(Glob::new("**/b").unwrap().is_match("x\ny/b"));
    println!("ok");
}
