// `/**` reports a root, so it must only match paths beginning with a separator.
use wax::{Glob, Program};
fn main() {
    let g = Glob::new("/**").unwrap();
    assert!(g.has_root().is_always());
    assert!(g.is_match("/a/b"));
    assert!(g.is_match("/"));
    assert!(!g.is_match("a"), "`/**` matches the relative path `a`");
    assert!(!g.is_match(""), "`/**` matches the empty path");
    println!("ok");
}
