// C02: a rooted glob stops descending after one level.  The walker skips `depth - 1` components of the relative
// segment *before* dropping the RootDir component, so from traversal depth 2 on every entry is compared with the
// program of the next component and its tree is discarded.
use std::fs;
use wax::walk::Entry;
use wax::Glob;
fn main() {
    let base = std::env::temp_dir().join(format!("wax-rooted-{}", std::process::id()));
    fs::create_dir_all(base.join("proj/src/deep")).unwrap();
    fs::write(base.join("proj/src/lib.rs"), "").unwrap();
    fs::write(base.join("proj/src/deep/x.rs"), "").unwrap();
    let expr = format!("{}/proj/**", base.to_str().unwrap());
    let glob = Glob::new(&expr).unwrap();
    let got: Vec<_> = glob.walk(".").map(|e| e.unwrap().into_path()).collect();
    fs::remove_dir_all(&base).unwrap();
    println!("{:#?}", got);
    // proj, proj/src, proj/src/lib.rs, proj/src/deep, proj/src/deep/x.rs
    assert_eq!(got.len(), 5, "a rooted `**` must yield all five entries");
}
