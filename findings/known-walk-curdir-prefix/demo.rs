// KNOWN FINDING (C02 / C14; not repaired): a glob whose prefix contains `.` yields nothing when the base directory is
// not empty.  std::path drops a `.` that is not the first component, so the relative segment recovered from
// `base/./src/...` is `src/...`, which the glob `./src/**` (where `.` is a literal component) does not match.
use std::fs;
use wax::walk::Entry;
use wax::Glob;
fn main() {
    let base = std::env::temp_dir().join(format!("wax-curdir-{}", std::process::id()));
    fs::create_dir_all(base.join("proj/src")).unwrap();
    fs::write(base.join("proj/src/lib.rs"), "").unwrap();
    let glob = Glob::new("./src/**").unwrap();
    let got: Vec<_> = glob.walk(base.join("proj")).map(|e| e.unwrap().into_path()).collect();
    fs::remove_dir_all(&base).unwrap();
    println!("{:?}", got);
    assert_eq!(got.len(), 2, "`./src/**` walked from `proj` must yield proj/./src and proj/./src/lib.rs");
}
