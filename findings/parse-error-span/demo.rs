// Every span attached to a build error lies within the expression on character boundaries,
// so slicing the expression by it (as the documentation does) never panics.
use wax::Glob;
fn main() {
    for expr in ["愛\\", "a{", "é[", "{a,b", "<a:x>", "**a", "愛{"] {
        let error = match Glob::new(expr) {
            Ok(_) => continue,
            Err(error) => error,
        };
        for location in error.locations() {
            let (start, n) = location.span();
            assert!(start <= expr.len() && start + n <= expr.len(), "span ({}, {}) of `{}` runs past the end ({} bytes)", start, n, expr, expr.len());
            assert!(expr.is_char_boundary(start) && expr.is_char_boundary(start + n),
                "span ({}, {}) of `{}` splits a multi-byte character", start, n, expr);
            let _ = &expr[start..][..n];
        }
    }
    println!("ok");
}
