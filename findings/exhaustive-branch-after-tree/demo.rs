// C09 / C03: a branch (alternation or repetition) was always admitted to the suffix that decides exhaustiveness, even
// when its own tokens are bounded, so `**/{a}` was `always` exhaustive although `**/a` is not: a negated walk discarded
// the directory `a` with everything beneath it.
use std::fs;
use wax::walk::{Entry, FileIterator};
use wax::{Glob, Program};
fn main() {
    let base = std::env::temp_dir().join(format!("wax-exh-{}", std::process::id()));
    fs::create_dir_all(base.join("a/b")).unwrap();
    fs::create_dir_all(base.join("x/a/c")).unwrap();
    fs::write(base.join("a/b/f.txt"), "").unwrap();
    fs::write(base.join("x/a/c/g.txt"), "").unwrap();
    let mut bad = 0;
    for neg in ["**/{a}", "**/{a,bc}", "**/<a:1,2>", "**/{a}/*", "x/**/{a}", "**/*{a}"] {
        let g = Glob::new(neg).unwrap();
        let all: Vec<_> = Glob::new("**").unwrap().walk(&base).map(|e| e.unwrap().root_relative_paths().1.to_path_buf()).collect();
        let want: Vec<_> = all.iter().filter(|p| !g.is_match(p.as_path())).cloned().collect();
        let got: Vec<_> = Glob::new("**").unwrap().walk(&base).not(neg).unwrap().map(|e| e.unwrap().root_relative_paths().1.to_path_buf()).collect();
        println!("not({:?}): is_exhaustive = {:?}; yielded {} of {} expected", neg, g.is_exhaustive(), got.len(), want.len());
        if got != want { bad += 1; }
    }
    fs::remove_dir_all(&base).unwrap();
    assert_eq!(bad, 0, "{} negations differ from per-entry filtering", bad);
}
