// C02: a glob whose prefix contains `..` yields nothing (the documentation of Glob::walk says `../**` escapes the base
// directory as expected).  The walker drops the ParentDir component of the relative segment although the glob has a
// component program for it, so every entry is compared with the wrong program and pruned.
use std::fs;
use wax::walk::Entry;
use wax::{Glob, Program};
fn main() {
    let base = std::env::temp_dir().join(format!("wax-dotdot-{}", std::process::id()));
    fs::create_dir_all(base.join("proj/src")).unwrap();
    fs::create_dir_all(base.join("other")).unwrap();
    fs::write(base.join("other/x.txt"), "").unwrap();
    let mut failures = 0;
    for (expr, want) in [("../other/**", 2), ("../other/*.txt", 1), ("src/../../other/*", 1)] {
        let glob = Glob::new(expr).unwrap();
        let got: Vec<_> = glob.walk(base.join("proj")).map(|e| e.unwrap()).collect();
        println!("{:<22} -> {:?}", expr, got.iter().map(|e| e.root_relative_paths().1.to_path_buf()).collect::<Vec<_>>());
        for e in &got {
            assert!(glob.is_match(e.root_relative_paths().1));
        }
        if got.len() != want { failures += 1; }
    }
    fs::remove_dir_all(&base).unwrap();
    assert_eq!(failures, 0, "{} glob(s) with a `..` prefix did not yield their matches", failures);
}
