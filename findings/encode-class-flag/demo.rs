// Character classes must stay case-sensitive whatever flags precede them.
use wax::{Glob, Program};
fn main() {
    let g = Glob::new("(?i)a[b]").unwrap();
    assert!(g.is_match("ab"));
    assert!(g.is_match("Ab"));
    assert!(!g.is_match("aB"), "`(?i)a[b]` matches `aB`: the class inherited the case-insensitive flag of the literal");
    let g = Glob::new("(?i)a/[b]*").unwrap();
    assert!(!g.is_match("a/Bc"), "`(?i)a/[b]*` matches `a/Bc`");
    println!("ok");
}
