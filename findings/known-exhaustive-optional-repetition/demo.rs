// KNOWN FINDING (C09 / C03; not repaired): a repetition with a zero lower bound is optional, but the exhaustiveness fold
// treats it as present.  `<*/>` (pinned as `always` by tests::parse_expression_is_exhaustive_eq) matches the empty path
// - the root of a walk - and nothing else that is canonical, so not("<*/>") discards the whole walk; `a<*/>` matches
// `a` but not `a/x`.
use std::fs;
use wax::walk::{Entry, FileIterator};
use wax::{Glob, Program};
fn main() {
    let base = std::env::temp_dir().join(format!("wax-exh-opt-{}", std::process::id()));
    fs::create_dir_all(base.join("a/b")).unwrap();
    fs::write(base.join("a/b/f.txt"), "").unwrap();
    let mut bad = 0;
    for neg in ["<*/>", "a<*/>", "<a/**:0,>"] {
        let g = Glob::new(neg).unwrap();
        let all: Vec<_> = Glob::new("**").unwrap().walk(&base).map(|e| e.unwrap().root_relative_paths().1.to_path_buf()).collect();
        let want: Vec<_> = all.iter().filter(|p| !g.is_match(p.as_path())).cloned().collect();
        let got: Vec<_> = Glob::new("**").unwrap().walk(&base).not(neg).unwrap().map(|e| e.unwrap().root_relative_paths().1.to_path_buf()).collect();
        println!("not({:?}): is_exhaustive = {:?}; yielded {} of {} expected", neg, g.is_exhaustive(), got.len(), want.len());
        if got != want { bad += 1; }
    }
    fs::remove_dir_all(&base).unwrap();
    assert_eq!(bad, 0, "{} negations differ from per-entry filtering", bad);
}
