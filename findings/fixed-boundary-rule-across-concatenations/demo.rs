// Demonstration for C06.text: the adjacent-boundary rule grouped the tokens of a level of the tree by their position
// (depth and branch index), so the last token of one group and the first token of a later group at the same position
// were taken for neighbours although a literal stands between the groups: `{a/}x{/b}` = `a/x/b` was rejected with
// "adjacent component boundaries", while `{a/}x` and `x{/b}` build.
use wax::{Glob, Program};
fn main() {
    for e in ["{a/}x{/b}", "<a/:2>x</b:2>", "{a/}*{/a}", "x/{a/,b}y{c,/d}/z"] {
        let g = Glob::new(e).unwrap_or_else(|err| panic!("`{}` violates none of the documented rules but does not build: {}", e, err));
        let _ = g;
    }
    assert!(Glob::new("{a/}x{/b}").unwrap().is_match("a/x/b"));
    // still rejected: boundaries that really meet
    for e in ["a//b", "{a/}{/b}", "{a/}/b", "a/{/b}", "<a/:1,>/b", "{a,b/**}/c"] {
        assert!(Glob::new(e).is_err(), "`{}` must be rejected", e);
    }
    println!("ok");
}
