// Known findings of C06.text (recorded, not repaired): rules that are only applied to the first / last *leaf* of a
// branch are bypassed through a nested group.  This program panics on the pinned tree.
use wax::{Glob, Program};
fn main() {
    let mut bad = Vec::new();
    // an alternation branch that roots the expression through a repetition
    match Glob::new("{</a:1,>,b}") {
        Ok(g) => bad.push(format!("`{{</a:1,>,b}}` builds, has_root = {:?} (a glob never reports `sometimes`)", g.has_root())),
        Err(_) => {},
    }
    // an optional repetition that roots the expression through a nested repetition
    if Glob::new("<</a:2>>").is_ok() {
        bad.push("`<</a:2>>` builds although an optional repetition may not root an expression".into());
    }
    // two iterations of the body put two separators next to each other
    for e in ["x<{a,/b}c/:2>", "x<{/a}/:1,>", "</c{a/}:2>"] {
        if Glob::new(e).is_ok() {
            bad.push(format!("`{}` builds although repeating its body makes two component boundaries adjacent", e));
        }
    }
    // the leaf forms of the same expressions are rejected
    for e in ["{/a,b}", "</a>", "x</ac/:2>"] {
        assert!(Glob::new(e).is_err(), "`{}` is rejected", e);
    }
    assert!(bad.is_empty(), "{:#?}", bad);
}
