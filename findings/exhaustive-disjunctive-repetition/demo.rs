// C09 / C03: when a repetition is folded, a term of depth two or more per iteration is not multiplied by the open range
// (`<*/*/>` only reaches even depths), but a disjunctive term - an alternation inside the repetition - always was, so
// `a/<{*/*/,*/*/}:1,>*` was `always` exhaustive: it matches `a/x/y/z` but not `a/x/y/z/w`.
use std::fs;
use wax::walk::{Entry, FileIterator};
use wax::{Glob, Program};
fn main() {
    let base = std::env::temp_dir().join(format!("wax-exh-disj-{}", std::process::id()));
    fs::create_dir_all(base.join("a/x/y/z")).unwrap();
    fs::write(base.join("a/x/y/z/w.txt"), "").unwrap();
    let mut bad = 0;
    for neg in ["a/<{*/*/,*/*/}:1,>*", "a/<{*/*/,?/?/}:1,>*"] {
        let g = Glob::new(neg).unwrap();
        let all: Vec<_> = Glob::new("**").unwrap().walk(&base).map(|e| e.unwrap().root_relative_paths().1.to_path_buf()).collect();
        let want: Vec<_> = all.iter().filter(|p| !g.is_match(p.as_path())).cloned().collect();
        let got: Vec<_> = Glob::new("**").unwrap().walk(&base).not(neg).unwrap().map(|e| e.unwrap().root_relative_paths().1.to_path_buf()).collect();
        println!("not({:?}): is_exhaustive = {:?}; yielded {:?}, expected {:?}", neg, g.is_exhaustive(), got, want);
        if got != want { bad += 1; }
    }
    fs::remove_dir_all(&base).unwrap();
    assert_eq!(bad, 0, "{} negations differ from per-entry filtering", bad);
}
