// C09 / C03: sums of a per-iteration depth range like three to four have gaps (five), but a variant term was always
// multiplied by the range of an open repetition, so `<<*/:1,2>*/*/:1,>*` was `always` exhaustive: it matches
// `a/b/c/d` (one pass of depth four, `d` by the trailing `*`... ) and not every path beneath it.
use std::fs;
use wax::walk::{Entry, FileIterator};
use wax::{Glob, Program};
fn main() {
    let base = std::env::temp_dir().join(format!("wax-exh-gap-{}", std::process::id()));
    fs::create_dir_all(base.join("a/b/c/d/e/f")).unwrap();
    fs::write(base.join("a/b/c/d/e/f/g.txt"), "").unwrap();
    let neg = "<<*/:1,2>*/*/:1,>*";
    let g = Glob::new(neg).unwrap();
    let all: Vec<_> = Glob::new("**").unwrap().walk(&base).map(|e| e.unwrap().root_relative_paths().1.to_path_buf()).collect();
    let want: Vec<_> = all.iter().filter(|p| !g.is_match(p.as_path())).cloned().collect();
    let got: Vec<_> = Glob::new("**").unwrap().walk(&base).not(neg).unwrap().map(|e| e.unwrap().root_relative_paths().1.to_path_buf()).collect();
    println!("not({:?}): is_exhaustive = {:?}; yielded {:?}, expected {:?}", neg, g.is_exhaustive(), got, want);
    fs::remove_dir_all(&base).unwrap();
    assert_eq!(got, want, "the negation differs from per-entry filtering");
}
