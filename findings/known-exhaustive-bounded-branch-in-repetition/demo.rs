// KNOWN FINDING (C09 / C03; not repaired): a bounded token wrapped in a branch inside the body of an open repetition is
// not counted as a discarded term, so `<{a}/:1,>*` and `<<a:1>/:1,>*` are `always` exhaustive although `<a/:1,>*` is
// not: they match `a/x` and not `a/x/y`.  (Telling `{a}` from `<?>`, which must stay transparent - `<<?>/>` is pinned
// as `always` - needs the breadth of a branch as a whole, which the analysis does not compute.)
use wax::{Glob, Program};
fn main() {
    let mut bad = 0;
    for expr in ["<{a}/:1,>*", "<<a:1>/:1,>*", "<a/:1,>*"] {
        let g = Glob::new(expr).unwrap();
        let always = format!("{:?}", g.is_exhaustive()) == "Always";
        println!("{:<14} is_exhaustive = {:?}; matches a/x: {}, a/x/y: {}", expr, g.is_exhaustive(), g.is_match("a/x"), g.is_match("a/x/y"));
        if always && g.is_match("a/x") && !g.is_match("a/x/y") { bad += 1; }
    }
    assert_eq!(bad, 0, "{} patterns report `always` but have a matched path with an unmatched descendant", bad);
}
