// KNOWN FINDING (C10; not repaired): the reported lower depth bound is one too high when a tree wildcard sits inside a
// branch behind other components, or when a body ending in a tree wildcard is repeated.
use wax::{Glob, Program};
fn main() {
    let mut bad = 0;
    for (expr, path) in [("**/x/{a/**}", "x/a"), ("**/*/<a/**:1,>", "x/a"), ("<a/**:2,2>", "aa")] {
        let glob = Glob::new(expr).unwrap();
        let n = path.split('/').count();
        let text = format!("{:?}", glob.depth());
        println!("{:<18} depth = {}; matches {:?} ({} component(s)): {}", expr, text, path, n, glob.is_match(path));
        // the lower bound is printed as `lower: Bounded(k)`
        let lower: usize = text.split("lower: Bounded(").nth(1).and_then(|t| t.split(')').next()).and_then(|t| t.parse().ok()).unwrap_or(0);
        if glob.is_match(path) && n < lower { bad += 1; }
    }
    assert_eq!(bad, 0, "{} matched paths have fewer components than the reported lower bound", bad);
}
