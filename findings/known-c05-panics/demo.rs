// KNOWN FINDINGS (not repaired: each needs a rule-level redesign, not a small patch).
// Inputs that make building a glob panic instead of returning an error.
use wax::Glob;
fn main() {
    let nested: String = "{".repeat(130) + "a" + &"}".repeat(130);
    let inputs: Vec<(&str, String)> = vec![
        ("usize product overflow in the size rule", "<ab:18446744073709551615>".to_string()),
        ("usize conjunction overflow", "<a:18446744073709551615><b:2>".to_string()),
        ("regex non-size error -> panic (bound above 2^32)", "<a:0,4294967296>".to_string()),
        ("regex non-size error -> panic (130 nested branches)", nested),
    ];
    let mut panics = 0;
    for (what, expr) in &inputs {
        let e = expr.clone();
        let r = std::panic::catch_unwind(move || Glob::new(&e).map(|_| ()).map_err(|e| e.to_string()));
        let shown: String = expr.chars().take(40).collect();
        match r {
            Ok(r) => println!("{:<55} {:<42} -> {:?}", what, shown, r),
            Err(_) => { panics += 1; println!("{:<55} {:<42} -> PANIC", what, shown) },
        }
    }
    assert_eq!(panics, 0, "{} of {} inputs panic", panics, inputs.len());
}
