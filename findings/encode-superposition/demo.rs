// Wrapping an expression in single-branch braces must not change what it matches.
use wax::{Glob, Program};
fn main() {
    let plain = Glob::new(".A{**/A}ba").unwrap();
    let wrapped = Glob::new("{.A{**/A}}ba").unwrap();
    for path in [".AAba", ".A/Aba", ".A/x/Aba", ".Aba"] {
        assert_eq!(plain.is_match(path), wrapped.is_match(path), "`.A{{**/A}}ba` and `{{.A{{**/A}}}}ba` disagree on {:?}", path);
    }
    let a = Glob::new("{a/**}b").unwrap();
    let b = Glob::new("{{a/**}b}").unwrap();
    for path in ["ab", "a/b", "a/x/b", "a/xb"] {
        assert_eq!(a.is_match(path), b.is_match(path), "`{{a/**}}b` and `{{{{a/**}}b}}` disagree on {:?}", path);
    }
    println!("ok");
}
