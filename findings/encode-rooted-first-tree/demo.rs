// KNOWN FINDING (not repaired: an existing test pins the non-conforming capture behind a TODO).
// A rooted tree wildcard followed by something must match complete components only.
use wax::{CandidatePath, Glob, Program};
fn main() {
    let g = Glob::new("/**/a").unwrap();
    assert!(g.is_match("/a"));
    assert!(g.is_match("/x/a"));
    let bad = g.is_match("/xa");
    println!("`/**/a` matches `/xa`: {}", bad);
    let g = Glob::new("/**/{var,.var}/**/*.log").unwrap();
    let path = CandidatePath::from("/home/nobody/.var/network.log");
    let m = g.matched(&path).unwrap();
    println!("capture 1 = {:?}", m.get(1));
    assert!(!bad, "`/**/a` matches `/xa` (half a component)");
}
