// KNOWN FINDING (C08 / C17; not repaired): the parser's span of a token includes a flag written in front of it, and
// unrooting a leading tree wildcard drops the *first byte of the span*, not the root separator: `(?i)/**/x*` partitions
// into the prefix `/` and a postfix displayed as `?i)/**/x*`, whose capture span (0, 7) delimits `?i)/**/`.
use wax::{Glob, Program};
fn main() {
    let expr = "(?i)/**/x*";
    let (prefix, postfix) = Glob::new(expr).unwrap().partition();
    let postfix = postfix.unwrap();
    let shown = postfix.to_string();
    println!("{} -> prefix {:?}, postfix displayed as `{}`, capture spans {:?}", expr, prefix, shown, postfix.captures().map(|c| c.span()).collect::<Vec<_>>());
    // the displayed postfix must rebuild into an equivalent glob
    let rebuilt = Glob::new(&shown).expect("the displayed postfix does not build");
    for path in ["a/X1", "x", "b/c/xy"] {
        assert_eq!(postfix.is_match(path), rebuilt.is_match(path), "`{}` rebuilt from its display differs on {:?}", shown, path);
    }
}
