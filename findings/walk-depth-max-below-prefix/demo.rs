// C15: a maximum depth smaller than the length of the glob's prefix excludes every entry (the prefix directory itself
// is deeper than the maximum), but the bound was translated with a saturating subtraction, so `a/b/**` with a maximum
// of 1 still yielded `a/b` (depth 2).
use std::fs;
use wax::walk::{DepthBehavior, DepthMax, Entry, WalkBehavior};
use wax::Glob;
fn main() {
    let base = std::env::temp_dir().join(format!("wax-depth-max-{}", std::process::id()));
    fs::create_dir_all(base.join("a/b/c")).unwrap();
    let glob = Glob::new("a/b/**").unwrap();
    let mut bad = 0;
    for behavior in [WalkBehavior::from(DepthMax(1)), WalkBehavior::from(DepthBehavior::bounded(1, 1).unwrap())] {
        for e in glob.walk_with_behavior(&base, behavior) {
            let e = e.unwrap();
            println!("{:?}: yielded {:?} at depth {}", behavior.depth, e.root_relative_paths().1, e.depth());
            if e.depth() > 1 { bad += 1; }
        }
    }
    // a maximum that reaches the prefix directory still yields it
    let n = glob.walk_with_behavior(&base, DepthMax(2)).count();
    fs::remove_dir_all(&base).unwrap();
    assert_eq!(n, 1, "DepthMax(2) yields a/b only");
    assert_eq!(bad, 0, "{} entries deeper than the maximum were yielded", bad);
}
