// Demonstration for C01.parse / C06.syntax: flags before a tree wildcard that begins a (sub-)expression.
// README: flags "may appear anywhere within a glob expression so long as they do not split tree wildcards".
// Before the repair `(?i)**/a`, `{(?i)**/a,b}` and `<(?i)**/a:1>` were rejected by the parser (the
// beginning-of-expression test compared the location after the flags with the start of the sub-expression).
use wax::{Glob, Program};
fn main() {
    for e in ["(?i)**/a", "(?-i)**", "{(?i)**/a,b}", "<(?i)**/a:1>"] {
        let g = Glob::new(e).unwrap_or_else(|err| panic!("`{}` is in the documented syntax but does not build: {}", e, err));
        assert!(g.is_match("a") || e == "(?-i)**");
    }
    let g = Glob::new("(?i)**/a").unwrap();
    assert!(g.is_match("x/y/A"));
    assert!(!g.is_match("x/b"));
    assert!(Glob::new("a(?i)**").is_err());
    println!("ok");
}
