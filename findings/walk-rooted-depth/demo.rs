// C14 (and C15): for a rooted glob the root segment is empty and the relative segment is the whole path, but depth() is
// one more than the number of components of the relative segment: join_and_get_depth adds one to the component count
// of an absolute prefix.  Depth bounds of rooted walks are shifted by the same one.
use std::fs;
use wax::walk::{DepthMax, Entry, WalkBehavior};
use wax::Glob;
fn main() {
    let base = std::env::temp_dir().join(format!("wax-rooted-depth-{}", std::process::id()));
    fs::create_dir_all(base.join("proj/src")).unwrap();
    let expr = format!("{}/proj/**", base.to_str().unwrap());
    let glob = Glob::new(&expr).unwrap();
    let mut bad = 0;
    for e in glob.walk(".") {
        let e = e.unwrap();
        let (root, rel) = e.root_relative_paths();
        println!("root={:?} relative={:?} components={} depth={}", root, rel, rel.components().count(), e.depth());
        if rel.components().count() != e.depth() { bad += 1; }
    }
    // a maximum equal to the depth of `proj/src` must still yield it
    let n = base.join("proj/src").components().count();
    let bounded = glob.walk_with_behavior(".", WalkBehavior::from(DepthMax(n))).filter(|e| e.is_ok()).count();
    println!("entries within DepthMax({}) = {} (proj and proj/src expected)", n, bounded);
    fs::remove_dir_all(&base).unwrap();
    assert_eq!(bad, 0, "depth() differs from the number of components of the relative segment for {} entries", bad);
    assert_eq!(bounded, 2);
}
