// Demonstration for the finding "Separation::filter_map_tree labels a cancelled filtrate as Node".
// Build as an example of wax (cargo run --example demo).  Expected with the defect: only the root
// entry is yielded (1 entry); after the fix: 11 entries (root, 5 dirs a,c,d,e,f and their x.txt,
// minus everything under b).
use std::fs;
use wax::walk::{Entry, EntryResidue, FileIterator};
use wax::Glob;

fn main() {
    let root = std::env::temp_dir().join(format!("wax-demo-{}", std::process::id()));
    let _ = fs::remove_dir_all(&root);
    for d in ["a", "b", "c", "d", "e", "f"] {
        fs::create_dir_all(root.join(d)).unwrap();
        fs::write(root.join(d).join("x.txt"), b"").unwrap();
    }
    let glob = Glob::new("**").unwrap();
    let mut n = 0;
    let mut seen = vec![];
    for entry in glob
        .walk(&root)
        .not("b/**")
        .unwrap()
        .filter_entry(|e| {
            if e.path().ends_with("b") {
                Some(EntryResidue::Tree)
            } else {
                None
            }
        })
    {
        let entry = entry.unwrap();
        seen.push(entry.root_relative_paths().1.to_path_buf());
        n += 1;
    }
    seen.sort();
    println!("{} entries: {:?}", n, seen);
    let _ = fs::remove_dir_all(&root);
    // every directory except b, each with its file, plus the root itself
    assert_eq!(n, 11, "siblings of a doubly-discarded directory were skipped");
}
