"""Reports, known findings, evidence and replay files."""
import json
import os
import re
import time

VERIF = os.path.dirname(os.path.dirname(os.path.abspath(__file__)))
KNOWN_FILE = os.path.join(VERIF, "KNOWN_FINDINGS.txt")


def load_known():
    """-> {property: {key: description}} for `known:` lines.  `fixed:` lines suppress nothing."""
    known = {}
    if not os.path.exists(KNOWN_FILE):
        return known
    with open(KNOWN_FILE) as f:
        for line in f:
            line = line.strip()
            if not line.startswith("known:"):
                continue
            m = re.match(r"known:\s+property=(\S+)\s+key=(\S+)\s*(.*)", line)
            if m:
                known.setdefault(m.group(1), {})[m.group(2)] = m.group(3)
    return known


def slug(s):
    return re.sub(r"[^A-Za-z0-9_.-]+", "_", s)[:150]


class Report:
    def __init__(self, pid, tier, seed):
        self.pid = pid
        self.tier = tier
        self.seed = seed
        self.t0 = time.time()
        self.obligations = []      # (rule, instance, ok, detail)
        self.violations = []       # dict(key, rule, instance, msg, where)
        self.samples = []
        self.assumptions = []
        self.not_decided = []
        self.analysed = {}         # free-form counters
        self.notes = []
        self.configs = []
        self.floors = {}
        self.selftest = []

    # ---- recording ----------------------------------------------------------------------------
    def count(self, name, n=1):
        self.analysed[name] = self.analysed.get(name, 0) + n

    def ok(self, rule, instance, detail="", where="", sample=True):
        self.obligations.append((rule, instance, True, detail))
        if sample and len([s for s in self.samples if s.get("rule") == rule]) < 3:
            self.samples.append({"rule": rule, "instance": instance, "where": where, "decided": detail, "ok": True})

    def fail(self, rule, instance, msg, where=""):
        self.obligations.append((rule, instance, False, msg))
        key = "%s/%s" % (rule, slug(instance))
        self.violations.append({"key": key, "rule": rule, "instance": instance, "msg": msg, "where": where})

    def check(self, cond, rule, instance, detail="", where="", fail_msg=None):
        if cond:
            self.ok(rule, instance, detail, where)
        else:
            self.fail(rule, instance, fail_msg or ("expected: " + detail), where)
        return cond

    def anchor_missing(self, rule, what):
        self.fail(rule, "anchor-missing:" + str(what), "reason=anchor-missing: %s (the rule cannot find the construct it decides; it never passes vacuously)" % what)

    def floor(self, rule, what, count, minimum):
        self.floors["%s/%s" % (rule, what)] = {"count": count, "floor": minimum}
        if count < minimum:
            self.fail(rule, "floor:" + what, "reason=floor: %s: analysed %d instances, at least %d were confirmed by hand on the pinned tree" % (what, count, minimum))

    def assume(self, text):
        if text not in self.assumptions:
            self.assumptions.append(text)

    def undecided(self, text):
        if text not in self.not_decided:
            self.not_decided.append(text)

    def note(self, text):
        self.notes.append(text)

    # ---- output -------------------------------------------------------------------------------
    def finish(self, explanation, rule_text, replay=None):
        known = load_known().get(self.pid, {})
        if replay is not None:
            # --replay <file>: the verdict is about that one rule instance on the current tree
            key = replay.get("key")
            hit = [v for v in self.violations if v["key"] == key]
            self.violations = hit
            print("replay of %s on the current tree: %s" % (key, "still violated" if hit else "holds (or the instance no longer exists)"))
        new = []
        known_hit = []
        seen = set()
        for v in self.violations:
            if v["key"] in seen:
                continue
            seen.add(v["key"])
            if v["key"] in known:
                known_hit.append(v)
            else:
                new.append(v)
        # runs against a scratch copy (VERIF_REPO set: seeded variants, self-tests) never touch the evidence of /repo
        alt = os.environ.get("VERIF_REPO") not in (None, "", "/repo")
        evdir = os.path.join(VERIF, ".cache", "evidence-scratch") if alt else os.path.join(VERIF, "evidence")
        os.makedirs(evdir, exist_ok=True)
        os.makedirs(os.path.join(VERIF, "replay"), exist_ok=True)
        for v in known_hit:
            print("KNOWN-FINDING: property=%s key=%s %s [%s] %s" % (self.pid, v["key"], known[v["key"]], v["where"], v["msg"]))
        for v in new:
            rp = os.path.join(VERIF, "replay", "%s-%s.json" % (self.pid, slug(v["key"])))
            with open(rp, "w") as f:
                json.dump({"property_id": self.pid, "key": v["key"], "rule": v["rule"], "instance": v["instance"],
                           "where": v["where"], "message": v["msg"], "tier": self.tier}, f, indent=1)
            print("VIOLATION property=%s replay=%s" % (self.pid, rp))
            print("  key=%s\n  rule=%s instance=%s at %s\n  %s" % (v["key"], v["rule"], v["instance"], v["where"], v["msg"]))
        n_obl = len(self.obligations)
        n_ok = sum(1 for o in self.obligations if o[2])
        distinct = len(set((o[0], o[1]) for o in self.obligations))
        ev = {
            "property_id": self.pid,
            "tier": self.tier,
            "seed": self.seed,
            "level": "other",
            "coverage": {
                "explanation": explanation,
                "rule": rule_text,
                "obligations": n_obl,
                "discharged": n_ok,
                "evaluations": max(n_obl, 1),
                "distinct_nontrivial": distinct,
                "samples": self.samples[:40] or [{"note": "no rule instance was evaluated"}],
                "analysed": self.analysed,
                "floors": self.floors,
                "configurations": self.configs,
                "rules": sorted(set(o[0] for o in self.obligations)),
                "known_findings_reported": [v["key"] for v in known_hit],
                "new_violations": [v["key"] for v in new],
                "not_decided": self.not_decided,
                "notes": self.notes,
                "selftest": self.selftest,
                "exhaustive": False,
                "checker_cmd": "python3 -m sa.check %s --tier %s" % (self.pid, self.tier),
                "trusted_base": ["rustc nightly front end (THIR/MIR as produced for /repo's current tree)",
                                 "waxfacts serialiser", "sa/ evaluator and library models", "reference tables in sa/refs"],
            },
            "assumptions": self.assumptions,
            "wall_s": round(time.time() - self.t0, 3),
            "violations": len(new),
        }
        with open(os.path.join(evdir, "%s.json" % self.pid), "w") as f:
            json.dump(ev, f, indent=1)
        print("%s: tier=%s obligations=%d discharged=%d known-findings=%d new-violations=%d wall=%.1fs" % (
            self.pid, self.tier, n_obl, n_ok, len(known_hit), len(new), time.time() - self.t0))
        return 1 if new else 0
