"""A small model of the nom parser combinators wax's parser is written with, for the THIR evaluator.

A parser is a callable value: a PyFn built by one of the combinator stubs below, a reference to a nom parser function
(`character::complete::digit1`), or a local function / closure of wax (evaluated from its THIR).  An input is
Adt("nom-input", "Input", {text, loc, state}); a result is Result::Ok((remaining input, output)) or
Result::Err(nom::Err::Error(..)).  Only what the decided parser functions use is modelled; anything else is
unanalysable (the rules fail closed)."""
from .teval import Adt, Tup, PyFn, FnRef, Sym, Top, strip, ok, err, some, none

INPUT = "nom-input"


def make_input(text, loc=0, state=None):
    return Adt(INPUT, "Input", {"text": text, "loc": loc, "state": state if state is not None else Sym("parser-state")})


def is_input(v):
    v = strip(v)
    return isinstance(v, Adt) and v.path == INPUT


def advance(inp, n):
    inp = strip(inp)
    t = inp.fields["text"]
    return Adt(INPUT, "Input", {"text": t[n:], "loc": inp.fields["loc"] + len(t[:n].encode()), "state": inp.fields["state"]})


def take(inp, n):
    inp = strip(inp)
    return Adt(INPUT, "Input", {"text": inp.fields["text"][:n], "loc": inp.fields["loc"], "state": inp.fields["state"]})


def failure(inp, what):
    return err(Adt("nom::Err", "Error", {"0": Adt("nom-error", "Error", {"input": inp, "what": what})}))


def is_ok(r):
    r = strip(r)
    return isinstance(r, Adt) and r.variant == "Ok"


def unpack(r):
    t = strip(strip(r).fields["0"])
    return t.items[0], t.items[1]


def run(I, p, inp):
    """Applies a parser value to an input."""
    p = strip(p)
    if isinstance(p, PyFn):
        return p.fn(I, [inp])
    if isinstance(p, FnRef):
        path = p.fn["path"]
        if path in LEAF_PARSERS:
            return LEAF_PARSERS[path](I, inp)
    return I.call_value(p, [inp])


def _digit1(I, inp):
    t = strip(inp).fields["text"]
    n = 0
    while n < len(t) and t[n] in "0123456789":
        n += 1
    if n == 0:
        return failure(inp, "digit1")
    return ok(Tup([advance(inp, n), take(inp, n)]))


LEAF_PARSERS = {
    "nom::character::complete::digit1": _digit1,
}


def parser(f, desc):
    return PyFn(lambda I, a: f(I, a[0]), desc)


def stubs():
    def tag(I, a, fn, e):
        t = strip(a[0])
        if not isinstance(t, str):
            return I.top("tag with a symbolic text")

        def p(I2, inp):
            if strip(inp).fields["text"].startswith(t):
                return ok(Tup([advance(inp, len(t)), take(inp, len(t))]))
            return failure(inp, "tag(%s)" % t)
        return parser(p, "tag(%r)" % t)

    def alt(I, a, fn, e):
        ps = strip(a[0])
        if not isinstance(ps, Tup):
            return I.top("alt of something else than a tuple of parsers")

        def p(I2, inp):
            last = None
            for q in ps.items:
                r = run(I2, q, inp)
                if is_ok(r):
                    return r
                last = r
            return last
        return parser(p, "alt")

    def preceded(I, a, fn, e):
        def p(I2, inp):
            r = run(I2, a[0], inp)
            if not is_ok(r):
                return r
            rest, _o = unpack(r)
            return run(I2, a[1], rest)
        return parser(p, "preceded")

    def terminated(I, a, fn, e):
        def p(I2, inp):
            r = run(I2, a[0], inp)
            if not is_ok(r):
                return r
            rest, o = unpack(r)
            r2 = run(I2, a[1], rest)
            if not is_ok(r2):
                return r2
            rest2, _ = unpack(r2)
            return ok(Tup([rest2, o]))
        return parser(p, "terminated")

    def separated_pair(I, a, fn, e):
        def p(I2, inp):
            r = run(I2, a[0], inp)
            if not is_ok(r):
                return r
            rest, o1 = unpack(r)
            r = run(I2, a[1], rest)
            if not is_ok(r):
                return r
            rest, _ = unpack(r)
            r = run(I2, a[2], rest)
            if not is_ok(r):
                return r
            rest, o2 = unpack(r)
            return ok(Tup([rest, Tup([o1, o2])]))
        return parser(p, "separated_pair")

    def opt(I, a, fn, e):
        def p(I2, inp):
            r = run(I2, a[0], inp)
            if is_ok(r):
                rest, o = unpack(r)
                return ok(Tup([rest, some(o)]))
            return ok(Tup([inp, none()]))
        return parser(p, "opt")

    def success(I, a, fn, e):
        return parser(lambda I2, inp: ok(Tup([inp, a[0]])), "success")

    def context(I, a, fn, e):
        return a[1]

    def map_(I, a, fn, e):
        def p(I2, inp):
            r = run(I2, a[0], inp)
            if not is_ok(r):
                return r
            rest, o = unpack(r)
            return ok(Tup([rest, I2.call_value(a[1], [o])]))
        return parser(p, "map")

    def map_res(I, a, fn, e):
        def p(I2, inp):
            r = run(I2, a[0], inp)
            if not is_ok(r):
                return r
            rest, o = unpack(r)
            v = strip(I2.call_value(a[1], [o]))
            if isinstance(v, Adt) and v.variant == "Ok":
                return ok(Tup([rest, v.fields["0"]]))
            if isinstance(v, Adt) and v.variant == "Err":
                return failure(inp, "map_res")
            return I2.top("map_res closure returned %r" % (v,))
        return parser(p, "map_res")

    def call_mut(I, a, fn, e):
        # `(parser)(input)`: FnMut::call_mut(&mut parser, (input,))
        args = strip(a[1])
        inp = args.items[0] if isinstance(args, Tup) else args
        return run(I, a[0], inp)

    def deref(I, a, fn, e):
        v = strip(a[0])
        if is_input(v):
            return v.fields["text"]
        return v

    def str_parse(I, a, fn, e):
        s = strip(a[0])
        if is_input(s):
            s = s.fields["text"]
        if isinstance(s, str):
            if s.isdigit() and len(s) < 20 and int(s) < 2 ** 64:
                return ok(int(s))
            return err(Sym("ParseIntError"))
        return I.top("parse of %r" % (s,))
    return {
        "nom::bytes::complete::tag": tag,
        "nom::branch::alt": alt,
        "nom::sequence::preceded": preceded,
        "nom::sequence::terminated": terminated,
        "nom::sequence::separated_pair": separated_pair,
        "nom::combinator::opt": opt,
        "nom::combinator::success": success,
        "nom::error::context": context,
        "nom::combinator::map": map_,
        "nom::combinator::map_res": map_res,
        "std::ops::FnMut::call_mut": call_mut,
        "std::ops::Deref::deref": deref,
        "core::str::<impl str>::parse": str_parse,
    }
