"""A small model of the nom parser combinators wax's parser is written with, for the THIR evaluator.

A parser is a callable value: a PyFn built by one of the combinator stubs below, a reference to a nom parser function
(`character::complete::digit1`), or a local function / closure of wax (evaluated from its THIR).  An input is
Adt("nom-input", "Input", {text, loc, state}); a result is Result::Ok((remaining input, output)) or
Result::Err(nom::Err::Error(..)).  Only what the decided parser functions use is modelled; anything else is
unanalysable (the rules fail closed)."""
from .teval import Adt, Tup, PyFn, FnRef, Sym, Top, Char, RList, strip, ok, err, some, none

INPUT = "nom-input"


def make_input(text, loc=0, state=None):
    return Adt(INPUT, "Input", {"text": text, "loc": loc, "state": state if state is not None else Sym("parser-state")})


def is_input(v):
    v = strip(v)
    return isinstance(v, Adt) and v.path == INPUT


def advance(inp, n):
    inp = strip(inp)
    t = inp.fields["text"]
    return Adt(INPUT, "Input", {"text": t[n:], "loc": inp.fields["loc"] + len(t[:n].encode()), "state": copy_state(inp.fields["state"])})


def take(inp, n):
    inp = strip(inp)
    return Adt(INPUT, "Input", {"text": inp.fields["text"][:n], "loc": inp.fields["loc"], "state": copy_state(inp.fields["state"])})


def is_error(r):
    """Err(nom::Err::Error(_)): the recoverable kind (alt / many / opt go on); Failure and Incomplete are not."""
    r = strip(r)
    if not (isinstance(r, Adt) and r.variant == "Err"):
        return False
    e = strip(r.fields["0"])
    return isinstance(e, Adt) and e.variant == "Error"


def failure(inp, what):
    return err(Adt("nom::Err", "Error", {"0": Adt("nom-error", "Error", {"input": inp, "what": what})}))


def is_ok(r):
    r = strip(r)
    return isinstance(r, Adt) and r.variant == "Ok"


def unpack(r):
    t = strip(strip(r).fields["0"])
    return t.items[0], t.items[1]


def copy_state(v):
    """Inputs are `Copy` values in the parser: a parser that assigns to `input.state` changes its own copy only."""
    v = strip(v)
    if isinstance(v, Adt):
        return Adt(v.path, v.variant, {k: copy_state(x) for k, x in v.fields.items()})
    if isinstance(v, Tup):
        return Tup([copy_state(x) for x in v.items])
    return v


def copy_input(inp):
    i = strip(inp)
    if not is_input(i):
        return inp
    return Adt(INPUT, "Input", {"text": i.fields["text"], "loc": i.fields["loc"], "state": copy_state(i.fields["state"])})


def run(I, p, inp):
    """Applies a parser value to an input."""
    p = strip(p)
    inp = copy_input(inp)
    if isinstance(p, PyFn):
        return p.fn(I, [inp])
    if isinstance(p, FnRef):
        path = p.fn["path"]
        if path in LEAF_PARSERS:
            return LEAF_PARSERS[path](I, inp)
    return I.call_value(p, [inp])


def _digit1(I, inp):
    t = strip(inp).fields["text"]
    n = 0
    while n < len(t) and t[n] in "0123456789":
        n += 1
    if n == 0:
        return failure(inp, "digit1")
    return ok(Tup([advance(inp, n), take(inp, n)]))


def _eof(I, inp):
    if strip(inp).fields["text"] == "":
        return ok(Tup([inp, inp]))
    return failure(inp, "eof")


def _anychar(I, inp):
    t = strip(inp).fields["text"]
    if t:
        return ok(Tup([advance(inp, 1), Char(t[0])]))
    return failure(inp, "anychar")


LEAF_PARSERS = {
    "nom::character::complete::anychar": _anychar,
    "nom::character::complete::digit1": _digit1,
    "nom::combinator::eof": _eof,
}


def parser(f, desc):
    return PyFn(lambda I, a: f(I, a[0]), desc)


def stubs():
    def tag(I, a, fn, e):
        t = strip(a[0])
        if not isinstance(t, str):
            return I.top("tag with a symbolic text")

        def p(I2, inp):
            if strip(inp).fields["text"].startswith(t):
                return ok(Tup([advance(inp, len(t)), take(inp, len(t))]))
            return failure(inp, "tag(%s)" % t)
        return parser(p, "tag(%r)" % t)

    def alt(I, a, fn, e):
        ps = strip(a[0])
        if not isinstance(ps, Tup):
            return I.top("alt of something else than a tuple of parsers")

        def p(I2, inp):
            last = None
            for q in ps.items:
                r = run(I2, q, inp)
                if is_ok(r) or not is_error(r):
                    return r
                last = r
            return last
        return parser(p, "alt")

    def preceded(I, a, fn, e):
        def p(I2, inp):
            r = run(I2, a[0], inp)
            if not is_ok(r):
                return r
            rest, _o = unpack(r)
            return run(I2, a[1], rest)
        return parser(p, "preceded")

    def terminated(I, a, fn, e):
        def p(I2, inp):
            r = run(I2, a[0], inp)
            if not is_ok(r):
                return r
            rest, o = unpack(r)
            r2 = run(I2, a[1], rest)
            if not is_ok(r2):
                return r2
            rest2, _ = unpack(r2)
            return ok(Tup([rest2, o]))
        return parser(p, "terminated")

    def separated_pair(I, a, fn, e):
        def p(I2, inp):
            r = run(I2, a[0], inp)
            if not is_ok(r):
                return r
            rest, o1 = unpack(r)
            r = run(I2, a[1], rest)
            if not is_ok(r):
                return r
            rest, _ = unpack(r)
            r = run(I2, a[2], rest)
            if not is_ok(r):
                return r
            rest, o2 = unpack(r)
            return ok(Tup([rest, Tup([o1, o2])]))
        return parser(p, "separated_pair")

    def opt(I, a, fn, e):
        def p(I2, inp):
            r = run(I2, a[0], inp)
            if is_ok(r):
                rest, o = unpack(r)
                return ok(Tup([rest, some(o)]))
            if not is_error(r):
                return r
            return ok(Tup([inp, none()]))
        return parser(p, "opt")

    def success(I, a, fn, e):
        return parser(lambda I2, inp: ok(Tup([inp, a[0]])), "success")

    def context(I, a, fn, e):
        return a[1]

    def map_(I, a, fn, e):
        def p(I2, inp):
            r = run(I2, a[0], inp)
            if not is_ok(r):
                return r
            rest, o = unpack(r)
            return ok(Tup([rest, I2.call_value(a[1], [o])]))
        return parser(p, "map")

    def map_res(I, a, fn, e):
        def p(I2, inp):
            r = run(I2, a[0], inp)
            if not is_ok(r):
                return r
            rest, o = unpack(r)
            v = strip(I2.call_value(a[1], [o]))
            if isinstance(v, Adt) and v.variant == "Ok":
                return ok(Tup([rest, v.fields["0"]]))
            if isinstance(v, Adt) and v.variant == "Err":
                return failure(inp, "map_res")
            return I2.top("map_res closure returned %r" % (v,))
        return parser(p, "map_res")


    def delimited(I, a, fn, e):
        def p(I2, inp):
            r = run(I2, a[0], inp)
            if not is_ok(r):
                return r
            rest, _ = unpack(r)
            r = run(I2, a[1], rest)
            if not is_ok(r):
                return r
            rest, o = unpack(r)
            r = run(I2, a[2], rest)
            if not is_ok(r):
                return r
            rest, _ = unpack(r)
            return ok(Tup([rest, o]))
        return parser(p, "delimited")

    def tuple_(I, a, fn, e):
        ps = strip(a[0])
        if not isinstance(ps, Tup):
            return I.top("sequence::tuple of something else than a tuple of parsers")

        def p(I2, inp):
            outs = []
            rest = inp
            for q in ps.items:
                r = run(I2, q, rest)
                if not is_ok(r):
                    return r
                rest, o = unpack(r)
                outs.append(o)
            return ok(Tup([rest, Tup(outs)]))
        return parser(p, "tuple")

    def many(at_least_one):
        def build(I, a, fn, e):
            def p(I2, inp):
                acc = []
                cur = inp
                for _ in range(400):
                    r = run(I2, a[0], cur)
                    if not is_ok(r):
                        if not is_error(r):
                            return r
                        if at_least_one and not acc:
                            return r
                        return ok(Tup([cur, RList(acc)]))
                    rest, o = unpack(r)
                    if acc or not at_least_one:
                        # infinite loop check: the parser must always consume
                        if len(strip(rest).fields["text"]) == len(strip(cur).fields["text"]):
                            return failure(cur, "many: parser did not consume")
                    acc.append(o)
                    cur = rest
                return I2.top("many0/many1: more than 400 iterations")
            return parser(p, "many1" if at_least_one else "many0")
        return build

    def separated_list1(I, a, fn, e):
        def p(I2, inp):
            r = run(I2, a[1], inp)
            if not is_ok(r):
                return r
            cur, o = unpack(r)
            acc = [o]
            for _ in range(400):
                r = run(I2, a[0], cur)
                if not is_ok(r):
                    return ok(Tup([cur, RList(acc)])) if is_error(r) else r
                rest, _ = unpack(r)
                if len(strip(rest).fields["text"]) == len(strip(cur).fields["text"]):
                    return failure(rest, "separated_list1: separator did not consume")
                r = run(I2, a[1], rest)
                if not is_ok(r):
                    return ok(Tup([cur, RList(acc)])) if is_error(r) else r
                cur, o = unpack(r)
                acc.append(o)
            return I2.top("separated_list1: more than 400 iterations")
        return parser(p, "separated_list1")

    def value(I, a, fn, e):
        def p(I2, inp):
            r = run(I2, a[1], inp)
            if not is_ok(r):
                return r
            rest, _ = unpack(r)
            return ok(Tup([rest, a[0]]))
        return parser(p, "value")

    def peek(I, a, fn, e):
        def p(I2, inp):
            r = run(I2, a[0], inp)
            if not is_ok(r):
                return r
            _, o = unpack(r)
            return ok(Tup([inp, o]))
        return parser(p, "peek")

    def verify(I, a, fn, e):
        def p(I2, inp):
            r = run(I2, a[0], inp)
            if not is_ok(r):
                return r
            rest, o = unpack(r)
            from .teval import Ref, Place, Cell
            v = strip(I2.call_value(a[1], [Ref(Place(Cell(o)))]))
            if v is True:
                return ok(Tup([rest, o]))
            if v is False:
                return failure(inp, "verify")
            return I2.top("verify predicate returned %r" % (v,))
        return parser(p, "verify")

    def all_consuming(I, a, fn, e):
        def p(I2, inp):
            r = run(I2, a[0], inp)
            if not is_ok(r):
                return r
            rest, o = unpack(r)
            if strip(rest).fields["text"] == "":
                return ok(Tup([rest, o]))
            return failure(rest, "all_consuming: input left")
        return parser(p, "all_consuming")

    def charset(v):
        v = strip(v)
        if isinstance(v, str):
            return v
        return None

    def is_not(I, a, fn, e):
        cs = charset(a[0])
        if cs is None:
            return I.top("is_not with a symbolic set")

        def p(I2, inp):
            t = strip(inp).fields["text"]
            n = 0
            while n < len(t) and t[n] not in cs:
                n += 1
            if n == 0:
                return failure(inp, "is_not(%s)" % cs)
            return ok(Tup([advance(inp, n), take(inp, n)]))
        return parser(p, "is_not(%r)" % cs)

    def none_of(I, a, fn, e):
        cs = charset(a[0])
        if cs is None:
            return I.top("none_of with a symbolic set")

        def p(I2, inp):
            t = strip(inp).fields["text"]
            if t and t[0] not in cs:
                return ok(Tup([advance(inp, 1), Char(t[0])]))
            return failure(inp, "none_of(%s)" % cs)
        return parser(p, "none_of(%r)" % cs)

    def one_of(I, a, fn, e):
        cs = charset(a[0])
        if cs is None:
            return I.top("one_of with a symbolic set")

        def p(I2, inp):
            t = strip(inp).fields["text"]
            if t and t[0] in cs:
                return ok(Tup([advance(inp, 1), Char(t[0])]))
            return failure(inp, "one_of(%s)" % cs)
        return parser(p, "one_of(%r)" % cs)

    def char_(I, a, fn, e):
        c = strip(a[0])
        c = c.c if isinstance(c, Char) else c
        if not isinstance(c, str):
            return I.top("character::char with a symbolic character")

        def p(I2, inp):
            t = strip(inp).fields["text"]
            if t and t[0] == c:
                return ok(Tup([advance(inp, 1), Char(c)]))
            return failure(inp, "char(%s)" % c)
        return parser(p, "char(%r)" % c)

    def recognize(I, a, fn, e):
        def p(I2, inp):
            r = run(I2, a[0], inp)
            if not is_ok(r):
                return r
            rest, _ = unpack(r)
            n = len(strip(inp).fields["text"]) - len(strip(rest).fields["text"])
            return ok(Tup([rest, take(inp, n)]))
        return parser(p, "recognize")

    def pair(I, a, fn, e):
        def p(I2, inp):
            r = run(I2, a[0], inp)
            if not is_ok(r):
                return r
            rest, o1 = unpack(r)
            r = run(I2, a[1], rest)
            if not is_ok(r):
                return r
            rest, o2 = unpack(r)
            return ok(Tup([rest, Tup([o1, o2])]))
        return parser(p, "pair")

    def escaped_transform(I, a, fn, e):
        ctl = strip(a[1])
        ctl = ctl.c if isinstance(ctl, Char) else ctl
        if not isinstance(ctl, str) or len(ctl) != 1:
            return I.top("escaped_transform with a symbolic control character")

        def text_of(o):
            o = strip(o)
            if is_input(o):
                return o.fields["text"]
            if isinstance(o, str):
                return o
            if isinstance(o, Char):
                return o.c
            return None

        def p(I2, inp):
            # nom 7.1.3 bytes::complete::escaped_transform, on characters
            full = strip(inp).fields["text"]
            index = 0
            res = ""
            while index < len(full):
                remainder = advance(inp, index)
                r = run(I2, a[0], remainder)
                if is_ok(r):
                    i2, o = unpack(r)
                    t = text_of(o)
                    if t is None:
                        return I2.top("escaped_transform: output %r" % (strip(o),))
                    res += t
                    left = len(strip(i2).fields["text"])
                    if left == 0:
                        return ok(Tup([advance(inp, len(full)), res]))
                    if left == len(full):
                        return ok(Tup([remainder, res]))
                    index = len(full) - left
                elif is_error(r):
                    if full[index] == ctl:
                        nxt = index + 1
                        if nxt >= len(full):
                            return failure(remainder, "escaped_transform: control character at the end")
                        r2 = run(I2, a[2], advance(inp, nxt))
                        if not is_ok(r2):
                            return r2
                        i2, o = unpack(r2)
                        t = text_of(o)
                        if t is None:
                            return I2.top("escaped_transform: transformed output %r" % (strip(o),))
                        res += t
                        left = len(strip(i2).fields["text"])
                        if left == 0:
                            return ok(Tup([advance(inp, len(full)), res]))
                        index = len(full) - left
                    else:
                        if index == 0:
                            return failure(remainder, "escaped_transform")
                        return ok(Tup([remainder, res]))
                else:
                    return r
            return ok(Tup([advance(inp, index), res]))
        return parser(p, "escaped_transform")

    def span(I, a, fn, e):
        def p(I2, inp):
            start = strip(inp).fields["loc"]
            r = run(I2, a[0], inp)
            if not is_ok(r):
                return r
            rest, o = unpack(r)
            end = strip(rest).fields["loc"]
            return ok(Tup([rest, Tup([Tup([start, max(end - start, 0)]), o])]))
        return parser(p, "pori::span")

    def parse_method(I, a, fn, e):
        return run(I, a[0], a[1])

    def location(I, a, fn, e):
        v = strip(a[0])
        if is_input(v):
            return v.fields["loc"]
        return I.top("location of %r" % (v,))

    def stateful_new(I, a, fn, e):
        d = strip(a[0])
        if isinstance(d, str):
            return make_input(d, 0, a[1])
        if is_input(d):
            return Adt(INPUT, "Input", {"text": d.fields["text"], "loc": d.fields["loc"], "state": a[1]})
        return I.top("Stateful::new of %r" % (d,))

    def into_data(I, a, fn, e):
        v = strip(a[0])
        if is_input(v):
            return v.fields["text"]
        return v

    def clone_parser(I, a, fn, e):
        return strip(a[0])

    def call_mut(I, a, fn, e):
        # `(parser)(input)`: FnMut::call_mut(&mut parser, (input,))
        args = strip(a[1])
        inp = args.items[0] if isinstance(args, Tup) else args
        return run(I, a[0], inp)

    def deref(I, a, fn, e):
        v = strip(a[0])
        if is_input(v):
            return v.fields["text"]
        return v

    def str_parse(I, a, fn, e):
        s = strip(a[0])
        if is_input(s):
            s = s.fields["text"]
        if isinstance(s, str):
            if s.isdigit() and len(s) < 20 and int(s) < 2 ** 64:
                return ok(int(s))
            return err(Sym("ParseIntError"))
        return I.top("parse of %r" % (s,))
    return {
        "nom::bytes::complete::tag": tag,
        "nom::branch::alt": alt,
        "nom::sequence::preceded": preceded,
        "nom::sequence::terminated": terminated,
        "nom::sequence::separated_pair": separated_pair,
        "nom::combinator::opt": opt,
        "nom::combinator::success": success,
        "nom::error::context": context,
        "nom::combinator::map": map_,
        "nom::combinator::map_res": map_res,
        "nom::sequence::delimited": delimited,
        "nom::sequence::tuple": tuple_,
        "nom::multi::many0": many(False),
        "nom::multi::many1": many(True),
        "nom::multi::separated_list1": separated_list1,
        "nom::combinator::value": value,
        "nom::combinator::peek": peek,
        "nom::combinator::verify": verify,
        "nom::combinator::all_consuming": all_consuming,
        "nom::bytes::complete::is_not": is_not,
        "nom::character::complete::none_of": none_of,
        "nom::bytes::complete::escaped_transform": escaped_transform,
        "nom::character::complete::one_of": one_of,
        "nom::character::complete::char": char_,
        "nom::combinator::recognize": recognize,
        "nom::sequence::pair": pair,
        "pori::span": span,
        "nom::Parser::parse": parse_method,
        "pori::Location::location": location,
        "pori::Stateful::<I, T>::new": stateful_new,
        "pori::Located::<'i, I>::into_data": into_data,
        "std::ops::FnMut::call_mut": call_mut,
        "std::ops::Deref::deref": deref,
        "core::str::<impl str>::parse": str_parse,
    }
