"""Fact extraction: builds the waxfacts driver if needed and runs `cargo +nightly check` on /repo
through it.  Facts are cached under /verif/.cache/facts/<hash>.json, keyed by a content hash of
/repo's sources, manifest, lock file, the feature configuration and the driver binary, so every
edit to /repo forces a new extraction while the checks of one run share one."""
import fcntl
import hashlib
import json
import os
import shutil
import subprocess
import sys
import tempfile
import time

VERIF = os.path.dirname(os.path.dirname(os.path.abspath(__file__)))
REPO = os.environ.get("VERIF_REPO", "/repo")
CACHE = os.path.join(VERIF, ".cache")
DRIVER_DIR = os.path.join(VERIF, "driver")
DRIVER_TARGET = os.path.join(CACHE, "driver-target")
DRIVER_BIN = os.path.join(DRIVER_TARGET, "debug", "waxfacts")

CONFIGS = {
    "default": [],
    "all": ["--all-features"],
    "none": ["--no-default-features"],
}


def _env():
    env = dict(os.environ)
    env["CARGO_NET_OFFLINE"] = "true"
    return env


def _nightly_sysroot():
    out = subprocess.run(["rustc", "+nightly", "--print", "sysroot"], capture_output=True, text=True,
                         env=_env(), cwd=DRIVER_DIR)
    if out.returncode != 0:
        raise RuntimeError("cannot find nightly sysroot: " + out.stderr)
    return out.stdout.strip()


def _driver_sources():
    files = []
    for root, _dirs, names in os.walk(os.path.join(DRIVER_DIR, "src")):
        for n in sorted(names):
            files.append(os.path.join(root, n))
    files.append(os.path.join(DRIVER_DIR, "Cargo.toml"))
    return sorted(files)


def ensure_driver(verbose=False):
    os.makedirs(CACHE, exist_ok=True)
    srcs = _driver_sources()
    newest = max(os.path.getmtime(p) for p in srcs)
    if os.path.exists(DRIVER_BIN) and os.path.getmtime(DRIVER_BIN) >= newest:
        return DRIVER_BIN
    with open(os.path.join(CACHE, "lock-driver"), "w") as lock:
        fcntl.flock(lock, fcntl.LOCK_EX)
        if os.path.exists(DRIVER_BIN) and os.path.getmtime(DRIVER_BIN) >= newest:
            return DRIVER_BIN
        env = _env()
        env["CARGO_TARGET_DIR"] = DRIVER_TARGET
        r = subprocess.run(["cargo", "+nightly", "build", "--offline"], cwd=DRIVER_DIR, env=env,
                           capture_output=True, text=True)
        if r.returncode != 0 or not os.path.exists(DRIVER_BIN):
            sys.stderr.write(r.stdout + r.stderr)
            raise RuntimeError("building the waxfacts driver failed")
        os.utime(DRIVER_BIN, None)
    return DRIVER_BIN


def _hash_tree(repo, config, with_driver=True):
    h = hashlib.sha256()
    paths = []
    for root, dirs, names in os.walk(os.path.join(repo, "src")):
        dirs.sort()
        for n in sorted(names):
            paths.append(os.path.join(root, n))
    for extra in ("Cargo.toml", "Cargo.lock"):
        p = os.path.join(repo, extra)
        if os.path.exists(p):
            paths.append(p)
    for p in paths:
        h.update(os.path.relpath(p, repo).encode())
        h.update(b"\0")
        with open(p, "rb") as f:
            h.update(f.read())
        h.update(b"\0")
    h.update(config.encode())
    if with_driver:
        with open(DRIVER_BIN, "rb") as f:
            h.update(hashlib.sha256(f.read()).digest())
    return h.hexdigest()[:24]


def _run_cargo(repo, config, out, target_dir, mir_text):
    env = _env()
    env["LD_LIBRARY_PATH"] = os.path.join(_nightly_sysroot(), "lib") + ":" + env.get("LD_LIBRARY_PATH", "")
    env["RUSTFLAGS"] = "-Zmir-opt-level=0 -Zno-steal-thir -Awarnings"
    env["RUSTC_WORKSPACE_WRAPPER"] = DRIVER_BIN
    env["WAXFACTS_OUT"] = out
    env["WAXFACTS_CRATE"] = "wax"
    env["CARGO_TARGET_DIR"] = target_dir
    if mir_text:
        env["WAXFACTS_MIR_TEXT"] = "1"
    cmd = ["cargo", "+nightly", "check", "--offline", "--lib", "--manifest-path",
           os.path.join(repo, "Cargo.toml")] + CONFIGS[config]
    return subprocess.run(cmd, env=env, capture_output=True, text=True, cwd=DRIVER_DIR)


def extract(config="default", repo=None, verbose=False, tag=None):
    """Returns (path of the fact file, info dict).  Raises RuntimeError when /repo does not compile.
    `repo` + `tag`: analyse another crate directory whose package is named `wax` (self-test fixtures,
    scratch copies of /repo with a seeded change)."""
    repo = repo or REPO
    ensure_driver()
    os.makedirs(os.path.join(CACHE, "facts"), exist_ok=True)
    t0 = time.time()
    with open(os.path.join(CACHE, "lock-extract"), "w") as lock:
        fcntl.flock(lock, fcntl.LOCK_EX)
        key = _hash_tree(repo, config)
        out = os.path.join(CACHE, "facts", "%s%s-%s.json" % ((tag + "-") if tag else "", config, key))
        if os.path.exists(out) and os.environ.get("VERIF_NO_CACHE") != "1":
            return out, {"cached": True, "hash": key, "wall_s": time.time() - t0}
        # Cargo's freshness cache would skip the wrapper for an unchanged crate: forget wax's fingerprint.
        target_dir = os.path.join(CACHE, "target-" + ((tag + "-") if tag and tag.startswith("fixture") else "") + config)
        fp = os.path.join(target_dir, "debug", ".fingerprint")
        if os.path.isdir(fp):
            for n in os.listdir(fp):
                if n.startswith("wax-"):
                    shutil.rmtree(os.path.join(fp, n), ignore_errors=True)
        tmp_out = out + ".new"
        if os.path.exists(tmp_out):
            os.remove(tmp_out)
        r = _run_cargo(repo, config, tmp_out, target_dir, False)
        if r.returncode != 0:
            raise RuntimeError("cargo check of %s failed (config %s):\n%s" % (repo, config, r.stderr[-4000:]))
        if not os.path.exists(tmp_out):
            # Fall back to a fresh temporary target directory (removed afterwards).
            tdir = tempfile.mkdtemp(prefix="waxfacts-target-")
            try:
                r = _run_cargo(repo, config, tmp_out, tdir, False)
            finally:
                shutil.rmtree(tdir, ignore_errors=True)
            if r.returncode != 0 or not os.path.exists(tmp_out):
                raise RuntimeError("fact extraction produced no output:\n" + r.stderr[-4000:])
        os.replace(tmp_out, out)
        # keep the cache small: at most 12 fact files
        files = sorted((os.path.join(CACHE, "facts", n) for n in os.listdir(os.path.join(CACHE, "facts"))),
                       key=os.path.getmtime)
        for old in files[:-24]:
            try:
                os.remove(old)
            except OSError:
                pass
        return out, {"cached": False, "hash": key, "wall_s": time.time() - t0}


if __name__ == "__main__":
    ensure_driver()
    for cfg in sys.argv[1:] or ["default"]:
        p, info = extract(cfg)
        print(cfg, p, info)
