"""Loader and indices for the JSON produced by the waxfacts driver."""
import json
import os
import re


class AnchorMissing(Exception):
    """A function / ADT / variant / constant a rule needs does not exist (or is ambiguous)."""


def strip_generics(s):
    """`token::Token<'t, A>` -> `token::Token` (balanced angle brackets removed)."""
    out = []
    depth = 0
    for ch in s:
        if ch == "<":
            depth += 1
        elif ch == ">":
            depth -= 1
        elif depth == 0:
            out.append(ch)
    return "".join(out).replace("::::", "::")


class Item:
    def __init__(self, d):
        self.d = d
        self.key = d["key"]
        self.path = d["path"]
        self.kind = d["kind"]
        self.name = d.get("name", "")
        self.file = d.get("file", "")
        self.line = d.get("line", 0)
        self.parent = d.get("parent")
        self.impl_self = d.get("impl_self")
        self.impl_adt = d.get("impl_adt")
        self.impl_trait = d.get("impl_trait")
        self.impl_trait_ref = d.get("impl_trait_ref")
        self.trait_decl = d.get("trait_decl")
        self.expn = d.get("expn", False)
        self.qname = None  # filled by Facts

    def where(self):
        return "%s:%s" % (os.path.relpath(self.file, "/repo") if self.file.startswith("/") else self.file, self.line)

    def __repr__(self):
        return "<Item %s>" % self.qname


class Facts:
    def __init__(self, path):
        with open(path) as f:
            self.raw = json.load(f)
        self.path = path
        self.cfg = self.raw["cfg"]
        self.types = self.raw["types"]
        self.items = {}
        for d in self.raw["items"]:
            it = Item(d)
            self.items[it.key] = it
        self.bodies = {b["key"]: b for b in self.raw["bodies"]}
        self.adts = {a["path"]: a for a in self.raw["adts"]}
        self.impls = self.raw["impls"]
        self.consts = self.raw["consts"]
        self.children = {}
        for it in self.items.values():
            self.children.setdefault(it.parent, []).append(it)
        for it in self.items.values():
            it.qname = self._qname(it)
        self.by_qname = {}
        for it in self.items.values():
            self.by_qname.setdefault(it.qname, []).append(it)
        self._callgraph = None
        mono = self.raw.get("mono") or {"instances": [], "calls": []}
        self.instances = mono["instances"]
        self.inst_calls = {}
        self.inst_edges = {}
        for c in mono["calls"]:
            if "edges" in c:
                self.inst_edges.setdefault(c["inst"], set()).update(c["edges"])
                continue
            per = {}
            for b in c["bodies"]:
                per[b["body"]] = {e[0]: (e[1], e[2]) for e in b["calls"]}
                for e in b["calls"]:
                    self.inst_edges.setdefault(c["inst"], set()).add(e[1])
                    if e[2] is not None:
                        self.inst_edges.setdefault(c["inst"], set()).add(e[2])
            self.inst_calls[c["inst"]] = per
        self.insts_by_def = {}
        for i, x in enumerate(self.instances):
            self.insts_by_def.setdefault(x["def"], []).append(i)

    def instances_of(self, item, args_contains=None):
        """Monomorphic instances (ids) of a function that the crate itself uses."""
        key = item.key if isinstance(item, Item) else item
        ids = self.insts_by_def.get(key, [])
        if args_contains is not None:
            ids = [i for i in ids if any(args_contains in a for a in self.instances[i]["args"])]
        return ids

    def default_instance(self, key):
        ids = self.insts_by_def.get(key, [])
        return ids[0] if len(ids) == 1 else None

    # ---- naming -------------------------------------------------------------------------------
    def _qname(self, it):
        if it.kind == "AssocFn":
            if it.impl_self is not None:
                base = it.impl_adt or strip_generics(it.impl_self)
                if it.impl_trait:
                    return "<%s as %s>::%s" % (base, it.impl_trait, it.name)
                return "%s::%s" % (base, it.name)
            if it.trait_decl:
                return "%s::%s" % (it.trait_decl, it.name)
            return it.path
        if it.kind == "Fn":
            par = self.items.get(it.parent)
            if par is not None:
                return "%s::%s" % (self._qname(par), it.name)
            return it.path
        if it.kind == "Closure":
            par = self.items.get(it.parent)
            suffix = it.key.rsplit("::", 1)[-1]
            if par is not None:
                return "%s::%s" % (self._qname(par), suffix)
            return it.path
        return it.path

    # ---- lookup -------------------------------------------------------------------------------
    def find(self, qname, trait_ref=None, self_ty=None, optional=False, many=False):
        """Items whose qualified name is `qname`.  `trait_ref` / `self_ty`: substring filters on the
        impl's trait reference / self type (to choose among impls that differ in generic arguments)."""
        cands = list(self.by_qname.get(qname, []))
        if trait_ref is not None:
            cands = [c for c in cands if c.impl_trait_ref and trait_ref in c.impl_trait_ref]
        if self_ty is not None:
            cands = [c for c in cands if c.impl_self and self_ty in c.impl_self]
        if many:
            return cands
        if len(cands) == 1:
            return cands[0]
        if not cands and optional:
            return None
        raise AnchorMissing("function %s%s: %d candidates" % (
            qname, (" [%s]" % trait_ref) if trait_ref else "", len(cands)))

    def grep(self, pattern):
        rx = re.compile(pattern)
        return [it for it in self.items.values() if rx.search(it.qname)]

    def body(self, item):
        key = item.key if isinstance(item, Item) else item
        return self.bodies[key]

    def thir(self, item):
        return self.body(item)["thir"]

    def mir(self, item):
        return self.body(item)["mir"]

    def closures_of(self, item, recursive=True):
        out = []
        for ch in self.children.get(item.key, []):
            if ch.kind == "Closure" or ch.kind == "Fn":
                out.append(ch)
                if recursive:
                    out.extend(self.closures_of(ch, True))
        return out

    def adt(self, path):
        a = self.adts.get(path)
        if a is None:
            raise AnchorMissing("ADT %s" % path)
        return a

    def variants(self, path):
        return [v["name"] for v in self.adt(path)["variants"]]

    def variant(self, path, name):
        for v in self.adt(path)["variants"]:
            if v["name"] == name:
                return v
        raise AnchorMissing("variant %s::%s" % (path, name))

    def const(self, path):
        vals = [c for c in self.consts if c["path"] == path]
        if len(vals) != 1 or vals[0]["val"] is None:
            raise AnchorMissing("const %s" % path)
        v = vals[0]["val"]
        while v.get("t") == "adt" and len(v["fields"]) == 1:
            v = v["fields"][0]["val"]   # newtype constant: the wrapped scalar
        return v["v"]

    def ty(self, ix):
        return self.types[ix]

    def ty_str(self, ix):
        return self.types[ix]["s"]

    # ---- whole-crate MIR queries --------------------------------------------------------------
    def mir_calls(self, item):
        """Yield (block index, block dict) for every Call terminator of a body."""
        m = self.mir(item)
        if not m:
            return
        for i, b in enumerate(m["blocks"]):
            if b["t"] == "Call":
                yield i, b

    def all_fn_items(self):
        return list(self.items.values())

    def callers_of(self, pred):
        """All (item, block) whose MIR call's callee satisfies pred(fn dict)."""
        out = []
        for it in self.items.values():
            for i, b in self.mir_calls(it):
                fn = b.get("fn")
                if fn and pred(fn):
                    out.append((it, i, b))
        return out

    def owner_fn(self, item):
        """Enclosing non-closure function of a closure (or the item itself)."""
        cur = item
        while cur.kind == "Closure" and cur.parent in self.items:
            cur = self.items[cur.parent]
        return cur

    def callgraph(self):
        """key -> set of callee keys (local functions only).  Unresolved trait-method calls are
        resolved by class hierarchy: every local impl of that trait method.  Closures are reached
        from the function that creates them."""
        if self._callgraph is not None:
            return self._callgraph
        trait_impls = {}
        for it in self.items.values():
            if it.kind == "AssocFn" and it.impl_trait:
                trait_impls.setdefault((it.impl_trait, it.name), []).append(it.key)
        g = {}
        for it in self.items.values():
            out = set()
            for _i, b in self.mir_calls(it):
                fn = b.get("fn")
                if not fn:
                    continue
                if fn.get("resolved_key") and fn["resolved_key"] in self.items:
                    out.add(fn["resolved_key"])
                elif fn["key"] in self.items:
                    out.add(fn["key"])
                elif fn.get("trait") and fn["local"] is not None:
                    for k in trait_impls.get((fn["trait"], fn["name"]), []):
                        out.add(k)
            for ch in self.children.get(it.key, []):
                if ch.kind == "Closure":
                    out.add(ch.key)
            g[it.key] = out
        self._callgraph = g
        return g


def fn_refs(F, pred):
    """Every THIR reference (call or function value) to a function satisfying pred(fn dict):
    list of (item, expr).  Function values (`.map(Product::new)`) are included, which MIR call
    terminators do not show."""
    out = []
    for key, b in F.bodies.items():
        th = b.get("thir")
        if not th:
            continue
        it = F.items[key]
        called = set()
        for e in th["exprs"]:
            if e["k"] == "Call" and "fn" in e:
                f = e["fun"]
                called.add(f)
                while th["exprs"][f]["k"] in ("Scope", "Use"):
                    f = th["exprs"][f].get("value", th["exprs"][f].get("source"))
                    called.add(f)
        for i, e in enumerate(th["exprs"]):
            fn = e.get("fn")
            if not fn:
                continue
            if e["k"] == "ZstLiteral" and i in called:
                continue  # the callee operand of a Call already counted
            if pred(fn):
                out.append((it, e))
    return out
