"""Sizes of the known deviation families of the expression catalogue, counted on the pinned tree (see
sa/rules/exhaust.py: a family that grows is a new violation).  (query, family, tier) -> ceiling"""
GROUP_CEILINGS = {
    ("exhaustive", "bounded-branch-in-open-repetition", "thorough"): 4,
    ("exhaustive", "bounded-branch-in-open-repetition", "quick"): 4,
    ("exhaustive", "optional-repetition/matches-the-empty-path", "quick"): 41,
    ("exhaustive", "optional-repetition/matched-path-not-empty", "quick"): 13,
    ("exhaustive", "optional-repetition/matches-the-empty-path", "thorough"): 52,
    ("exhaustive", "optional-repetition/matched-path-not-empty", "thorough"): 28,
    ("depth", "lower-bound-above-actual/tree-wildcard-inside-a-branch", "quick"): 73,
    ("depth", "lower-bound-above-actual/tree-wildcard-inside-a-branch", "thorough"): 306,
    ("partition", "rooted-through-a-branch/law+postfix-rooted+not-idempotent", "quick"): 90,
    ("partition", "rooted-through-a-branch/law+postfix-rooted+not-idempotent", "thorough"): 856,
    ("partition", "rooted-through-a-branch/postfix-rooted", "thorough"): 8,
}
# the attribution to the known C01 encoding finding has a ceiling too
EXPLAINED_CEILINGS = {("partition", "rooted-first-tree-encoding", "quick"): 353, ("partition", "rooted-first-tree-encoding", "thorough"): 353,
                      ("semantics", "rooted-first-tree-encoding", "quick"): 339, ("semantics", "rooted-first-tree-encoding", "thorough"): 339}
