"""Automata over a concrete character alphabet for whole compiled patterns (no holes).

rx.py decides fragment obligations over the symbolic alphabet {SEP, NL, OTHER} with opaque holes for escaped text;
here every literal of a (small, catalogue) expression is a concrete character, so that wildcards and classes match
literal text as the regex crate would.  The alphabet is '/', '\\n', every character written in the pattern and one
fresh character standing for every character not written.  Used for properties of the *language* of a pattern:
exhaustiveness (C09), equality of two patterns (C08)."""
from . import rx

FRESH = "\U0010fffd"


def alphabet_of(*texts):
    chars = {"/", "\n", FRESH}
    for t in texts:
        node, p = rx.parse(t)
        for kind, _flags, x in p.atoms:
            if kind == "char":
                chars.add(x)
            elif kind == "class":
                acc = set()
                rx._class_chars(x, acc)
                for it in acc:
                    if it[0] == "ch":
                        chars.add(it[1])
                    else:
                        raise rx.RxError("hole in a concrete pattern")
            elif kind == "hole":
                raise rx.RxError("hole in a concrete pattern")
    # the other case of every letter written in the pattern: a case flag that is wrongly in force (or wrongly not)
    # is only visible on such a character
    for c in list(chars):
        if c.isalpha():
            chars.update(x for x in (c.lower(), c.upper()) if len(x) == 1)
    # order only matters for the witnesses: prefer an ordinary character, the line feed last
    return tuple(sorted(chars, key=lambda c: (c == "\n", c == "/", c != FRESH, c)))


def member(c, cls):
    _t, neg, operands = cls
    res = True
    for items in operands:
        inside = False
        for it in items:
            if it[0] == "item":
                inside = inside or it[1][1] == c
            elif it[0] == "range":
                inside = inside or (it[1][1] <= c <= it[2][1])
            elif it[0] == "class":
                inside = inside or member(c, it[1])
        res = res and inside
    return (not res) if neg else res


def _fold(c):
    return {c, c.lower(), c.upper()} if c.isalpha() else {c}


def build(node, nfa, alphabet):
    k = node.kind
    s, e = nfa.new(), nfa.new()
    if k == "cat":
        cur = s
        for it in node.items:
            a, b = build(it, nfa, alphabet)
            nfa.add_eps(cur, a)
            cur = b
        nfa.add_eps(cur, e)
    elif k == "alt":
        for it in node.items:
            a, b = build(it, nfa, alphabet)
            nfa.add_eps(s, a)
            nfa.add_eps(b, e)
    elif k == "group":
        a, b = build(node.node, nfa, alphabet)
        nfa.add_eps(s, a)
        nfa.add_eps(b, e)
    elif k == "rep":
        lo, hi = node.lo, node.hi
        if not isinstance(lo, int) or (hi is not None and not isinstance(hi, int)):
            raise rx.RxError("symbolic repetition bound")
        if (hi is not None and hi > 8) or lo > 8:
            raise rx.RxError("repetition bound too large")
        cur = s
        for _ in range(lo):
            a, b = build(node.node, nfa, alphabet)
            nfa.add_eps(cur, a)
            cur = b
        if hi is None:
            a, b = build(node.node, nfa, alphabet)
            nfa.add_eps(cur, a)
            nfa.add_eps(b, a)
            nfa.add_eps(b, e)
            nfa.add_eps(cur, e)
        else:
            nfa.add_eps(cur, e)
            for _ in range(hi - lo):
                a, b = build(node.node, nfa, alphabet)
                nfa.add_eps(cur, a)
                cur = b
                nfa.add_eps(cur, e)
    elif k == "dot":
        for c in alphabet:
            if c == "\n" and not node.flags.get("s"):
                continue
            nfa.add(s, c, e)
    elif k == "chars":
        for c in (_fold(node.text) if node.flags.get("i") else {node.text}):
            if c in alphabet:
                nfa.add(s, c, e)
    elif k == "set":
        for c in alphabet:
            hit = member(c, node.cls)
            if node.flags.get("i") and not hit:
                hit = any(member(x, node.cls) for x in _fold(c))
            if hit:
                nfa.add(s, c, e)
    elif k in ("bol", "eol"):
        if getattr(node, "flags", {}).get("m"):
            raise rx.RxError("an anchor under the multi-line flag is a line anchor, not a whole-text anchor")
        nfa.add_eps(s, e)
    else:
        raise rx.RxError("unsupported node " + k)
    return s, e


def dfa(text, alphabet=None):
    node, _p = rx.parse(text)
    alphabet = alphabet or alphabet_of(text)
    nfa = rx.NFA()
    s, e = build(node, nfa, alphabet)

    def closure(states):
        stack = list(states)
        seen = set(states)
        while stack:
            x = stack.pop()
            for y in nfa.eps.get(x, ()):
                if y not in seen:
                    seen.add(y)
                    stack.append(y)
        return frozenset(seen)
    start = closure({s})
    trans, accept, todo, seen = {}, set(), [start], {start}
    while todo:
        cur = todo.pop()
        if e in cur:
            accept.add(cur)
        for c in alphabet:
            nxt = set()
            for x in cur:
                nxt |= nfa.delta.get((x, c), set())
            nxt = closure(nxt)
            trans[(cur, c)] = nxt
            if nxt not in seen:
                seen.add(nxt)
                todo.append(nxt)
    return rx.DFA(trans, start, accept, alphabet)


def show(word):
    return "".join("\\n" if c == "\n" else ("x" if c == FRESH else c) for c in word)


def not_exhaustive_witness(d):
    """A pattern is exhaustive when, for every canonical path it matches, it matches every canonical path beneath it.
    Canonical: components are non-empty and separated by one separator, an optional leading separator (root), no
    trailing separator; the empty path is canonical and every relative path is beneath it.
    -> None if exhaustive, else (matched path, extension) with the extended path not matched (shortest first)."""
    # canonical-prefix automaton: 0 = empty, 1 = inside a component, 2 = just after a separator, None = not canonical
    def cstep(x, c):
        if x is None:
            return None
        if c == "/":
            return 2 if x in (0, 1) else None
        return 1
    # extension automaton: 0 expects SEP, 1 expects the first character of a component, 2 = inside a component (a
    # complete descendant ends here)
    def estep(x, c):
        if c == "/":
            return 1 if x in (0, 2) else None
        return 2 if x in (1, 2) else None
    start = (d.start, 0, frozenset())
    info = {start: ((), {})}
    todo = [start]
    while todo:
        nxt = []
        for st in todo:
            q, canon, _es = st
            word, pos = info[st]
            live = dict(pos)                  # extension state -> index where that extension started
            if q in d.accept and canon in (0, 1):
                live.setdefault(1 if canon == 0 else 0, len(word))   # a matched canonical path ends here
            for c in d.alphabet:
                q2 = d.trans[(q, c)]
                live2 = {}
                for x, at in live.items():
                    y = estep(x, c)
                    if y is not None:
                        live2[y] = min(live2.get(y, at), at)
                w2 = word + (c,)
                if 2 in live2 and q2 not in d.accept:
                    return show(w2[:live2[2]]), show(w2[live2[2]:])
                st2 = (q2, cstep(canon, c), frozenset(live2))
                if st2 not in info:
                    info[st2] = (w2, live2)
                    nxt.append(st2)
        todo = nxt
    return None


def difference_witness(text1, text2):
    """-> (equal, word only matched by text1, word only matched by text2)"""
    alphabet = alphabet_of(text1, text2)
    eq, o1, o2 = rx.compare(dfa(text1, alphabet), dfa(text2, alphabet))
    return eq, (show(o1) if o1 is not None else None), (show(o2) if o2 is not None else None)


def _canon_step(x, c):
    """canonical-prefix automaton: 0 = empty, 1 = inside a component, 2 = just after a separator, None = not canonical"""
    if x is None:
        return None
    if c == "/":
        return 2 if x in (0, 1) else None
    return 1


def component_range(d, rooted=None, nonempty=True):
    """(min, max, example of min, example of max) of the number of components over the canonical paths the automaton
    accepts; max is None when unbounded; None when no canonical path is accepted.  rooted: True = only paths that
    begin with a separator, False = only relative paths, None = both; nonempty: the empty path is not counted."""
    start = (d.start, 0)
    # forward exploration of the product with the canonical-prefix automaton
    edges = {}
    seen = {start}
    todo = [start]
    while todo:
        st = todo.pop()
        q, x = st
        for c in d.alphabet:
            x2 = _canon_step(x, c)
            if x2 is None:
                continue
            if x == 0 and ((c == "/" and rooted is False) or (c != "/" and rooted is True)):
                continue
            st2 = (d.trans[(q, c)], x2)
            w = 1 if (x in (0, 2) and x2 == 1) else 0
            edges.setdefault(st, []).append((st2, w, c))
            if st2 not in seen:
                seen.add(st2)
                todo.append(st2)
    final = {st for st in seen if st[0] in d.accept and st[1] in ((1,) if nonempty else (0, 1))}
    if not final:
        return None
    # states from which a final state is reachable
    rev = {}
    for a, outs in edges.items():
        for b, _w, _c in outs:
            rev.setdefault(b, set()).add(a)
    useful = set(final)
    todo = list(final)
    while todo:
        b = todo.pop()
        for a in rev.get(b, ()):
            if a not in useful:
                useful.add(a)
                todo.append(a)
    if start not in useful:
        return None
    # minimum: 0/1 breadth-first search
    import collections
    dist = {start: (0, ())}
    dq = collections.deque([start])
    while dq:
        a = dq.popleft()
        da, wa = dist[a]
        for b, w, c in edges.get(a, ()):
            if b not in useful:
                continue
            if b not in dist or dist[b][0] > da + w:
                dist[b] = (da + w, wa + (c,))
                (dq.append if w else dq.appendleft)(b)
    lo, lo_word = min((dist[f] for f in final if f in dist), key=lambda t: (t[0], len(t[1])))
    # maximum: unbounded iff a useful cycle contains a component-opening edge; otherwise longest path over the SCC DAG
    index, low, onstack, stack, comp = {}, {}, set(), [], {}
    counter = [0]
    ncomp = [0]

    def strong(v):
        # iterative Tarjan
        work = [(v, iter([b for b, _w, _c in edges.get(v, ()) if b in useful]))]
        index[v] = low[v] = counter[0]
        counter[0] += 1
        stack.append(v)
        onstack.add(v)
        while work:
            node, it = work[-1]
            advanced = False
            for b in it:
                if b not in index:
                    index[b] = low[b] = counter[0]
                    counter[0] += 1
                    stack.append(b)
                    onstack.add(b)
                    work.append((b, iter([x for x, _w, _c in edges.get(b, ()) if x in useful])))
                    advanced = True
                    break
                elif b in onstack:
                    low[node] = min(low[node], index[b])
            if advanced:
                continue
            work.pop()
            if work:
                low[work[-1][0]] = min(low[work[-1][0]], low[node])
            if low[node] == index[node]:
                while True:
                    x = stack.pop()
                    onstack.discard(x)
                    comp[x] = ncomp[0]
                    if x == node:
                        break
                ncomp[0] += 1
    for v in useful:
        if v not in index:
            strong(v)
    for a in useful:
        for b, w, _c in edges.get(a, ()):
            if b in useful and w and comp[a] == comp[b]:
                return lo, None, show(lo_word), None
    # longest path: Tarjan numbers components in reverse topological order
    best = {}
    order = sorted(useful, key=lambda v: comp[v])
    # process components in topological order (highest component number first)
    by_comp = {}
    for v in useful:
        by_comp.setdefault(comp[v], []).append(v)
    value = {}
    for cnum in sorted(by_comp):           # sinks first
        members = by_comp[cnum]
        # within a component all internal edges have weight 0: the members share the best continuation
        cont = None
        for v in members:
            if v in final:
                cont = max(cont or (0, ()), (0, ()), key=lambda t: t[0])
            for b, w, c in edges.get(v, ()):
                if b in useful and comp[b] != cnum:
                    cand = (value[b][0] + w, (c,) + value[b][1])
                    if cont is None or cand[0] > cont[0]:
                        cont = cand
        for v in members:
            value[v] = cont if cont is not None else (0, ())
    hi = value[start][0]
    return lo, hi, show(lo_word), None


def all_start_with_separator(d):
    """-> None if every accepted word begins with '/', else a shortest accepted word that does not"""
    if d.start in d.accept:
        return ""
    for c in d.alphabet:
        if c == "/":
            continue
        # is an accepting state reachable from trans(start, c)?
        s0 = d.trans[(d.start, c)]
        seen = {s0: (c,)}
        todo = [s0]
        while todo:
            nxt = []
            for s in todo:
                if s in d.accept:
                    return show(seen[s])
                for c2 in d.alphabet:
                    s2 = d.trans[(s, c2)]
                    if s2 not in seen:
                        seen[s2] = seen[s] + (c2,)
                        nxt.append(s2)
            todo = nxt
    return None


def canonical_difference(d1, d2, skip=()):
    """-> None if both automata accept the same canonical paths (words in `skip` are not compared), else
    (word, accepted by the first?, accepted by the second?) for a shortest canonical word on which they differ"""
    assert d1.alphabet == d2.alphabet
    skip = set(skip)
    start = (d1.start, d2.start, 0)
    seen = {start: ()}
    todo = [start]
    while todo:
        nxt = []
        for st in todo:
            a, b, x = st
            w = seen[st]
            if x in (0, 1):
                in1, in2 = a in d1.accept, b in d2.accept
                if in1 != in2 and "".join(w) not in skip:
                    return show(w), in1, in2
            for c in d1.alphabet:
                x2 = _canon_step(x, c)
                if x2 is None:
                    continue
                st2 = (d1.trans[(a, c)], d2.trans[(b, c)], x2)
                if st2 not in seen:
                    seen[st2] = w + (c,)
                    nxt.append(st2)
        todo = nxt
    return None


def body_of(program):
    """The expression between the anchors of a program text `(?s)^...$` (flags that precede the anchor are kept)."""
    t = program
    flags = ""
    while t.startswith("(?") and not t.startswith("(?:"):
        j = t.index(")")
        flags += t[:j + 1]
        t = t[j + 1:]
    if not (t.startswith("^") and t.endswith("$")):
        raise rx.RxError("program text %r is not anchored as expected" % program)
    return flags, t[1:-1]


def escape(text):
    return "".join("\\" + c if c in "\\.+*?()|[]{}^$#&-~" else c for c in text)
