"""Automata over a concrete character alphabet for whole compiled patterns (no holes).

rx.py decides fragment obligations over the symbolic alphabet {SEP, NL, OTHER} with opaque holes for escaped text;
here every literal of a (small, catalogue) expression is a concrete character, so that wildcards and classes match
literal text as the regex crate would.  The alphabet is '/', '\\n', every character written in the pattern and one
fresh character standing for every character not written.  Used for properties of the *language* of a pattern:
exhaustiveness (C09), equality of two patterns (C08)."""
from . import rx

FRESH = "\U0010fffd"


def alphabet_of(*texts):
    chars = {"/", "\n", FRESH}
    for t in texts:
        node, p = rx.parse(t)
        for kind, _flags, x in p.atoms:
            if kind == "char":
                chars.add(x)
            elif kind == "class":
                acc = set()
                rx._class_chars(x, acc)
                for it in acc:
                    if it[0] == "ch":
                        chars.add(it[1])
                    else:
                        raise rx.RxError("hole in a concrete pattern")
            elif kind == "hole":
                raise rx.RxError("hole in a concrete pattern")
    # order only matters for the witnesses: prefer an ordinary character, the line feed last
    return tuple(sorted(chars, key=lambda c: (c == "\n", c == "/", c != FRESH, c)))


def member(c, cls):
    _t, neg, operands = cls
    res = True
    for items in operands:
        inside = False
        for it in items:
            if it[0] == "item":
                inside = inside or it[1][1] == c
            elif it[0] == "range":
                inside = inside or (it[1][1] <= c <= it[2][1])
            elif it[0] == "class":
                inside = inside or member(c, it[1])
        res = res and inside
    return (not res) if neg else res


def _fold(c):
    return {c, c.lower(), c.upper()} if c.isalpha() else {c}


def build(node, nfa, alphabet):
    k = node.kind
    s, e = nfa.new(), nfa.new()
    if k == "cat":
        cur = s
        for it in node.items:
            a, b = build(it, nfa, alphabet)
            nfa.add_eps(cur, a)
            cur = b
        nfa.add_eps(cur, e)
    elif k == "alt":
        for it in node.items:
            a, b = build(it, nfa, alphabet)
            nfa.add_eps(s, a)
            nfa.add_eps(b, e)
    elif k == "group":
        a, b = build(node.node, nfa, alphabet)
        nfa.add_eps(s, a)
        nfa.add_eps(b, e)
    elif k == "rep":
        lo, hi = node.lo, node.hi
        if not isinstance(lo, int) or (hi is not None and not isinstance(hi, int)):
            raise rx.RxError("symbolic repetition bound")
        if (hi is not None and hi > 8) or lo > 8:
            raise rx.RxError("repetition bound too large")
        cur = s
        for _ in range(lo):
            a, b = build(node.node, nfa, alphabet)
            nfa.add_eps(cur, a)
            cur = b
        if hi is None:
            a, b = build(node.node, nfa, alphabet)
            nfa.add_eps(cur, a)
            nfa.add_eps(b, a)
            nfa.add_eps(b, e)
            nfa.add_eps(cur, e)
        else:
            nfa.add_eps(cur, e)
            for _ in range(hi - lo):
                a, b = build(node.node, nfa, alphabet)
                nfa.add_eps(cur, a)
                cur = b
                nfa.add_eps(cur, e)
    elif k == "dot":
        for c in alphabet:
            if c == "\n" and not node.flags.get("s"):
                continue
            nfa.add(s, c, e)
    elif k == "chars":
        for c in (_fold(node.text) if node.flags.get("i") else {node.text}):
            if c in alphabet:
                nfa.add(s, c, e)
    elif k == "set":
        for c in alphabet:
            hit = member(c, node.cls)
            if node.flags.get("i") and not hit:
                hit = any(member(x, node.cls) for x in _fold(c))
            if hit:
                nfa.add(s, c, e)
    elif k in ("bol", "eol"):
        nfa.add_eps(s, e)
    else:
        raise rx.RxError("unsupported node " + k)
    return s, e


def dfa(text, alphabet=None):
    node, _p = rx.parse(text)
    alphabet = alphabet or alphabet_of(text)
    nfa = rx.NFA()
    s, e = build(node, nfa, alphabet)

    def closure(states):
        stack = list(states)
        seen = set(states)
        while stack:
            x = stack.pop()
            for y in nfa.eps.get(x, ()):
                if y not in seen:
                    seen.add(y)
                    stack.append(y)
        return frozenset(seen)
    start = closure({s})
    trans, accept, todo, seen = {}, set(), [start], {start}
    while todo:
        cur = todo.pop()
        if e in cur:
            accept.add(cur)
        for c in alphabet:
            nxt = set()
            for x in cur:
                nxt |= nfa.delta.get((x, c), set())
            nxt = closure(nxt)
            trans[(cur, c)] = nxt
            if nxt not in seen:
                seen.add(nxt)
                todo.append(nxt)
    return rx.DFA(trans, start, accept, alphabet)


def show(word):
    return "".join("\\n" if c == "\n" else ("x" if c == FRESH else c) for c in word)


def not_exhaustive_witness(d):
    """A pattern is exhaustive when, for every canonical path it matches, it matches every canonical path beneath it.
    Canonical: components are non-empty and separated by one separator, an optional leading separator (root), no
    trailing separator; the empty path is canonical and every relative path is beneath it.
    -> None if exhaustive, else (matched path, extension) with the extended path not matched (shortest first)."""
    # canonical-prefix automaton: 0 = empty, 1 = inside a component, 2 = just after a separator, None = not canonical
    def cstep(x, c):
        if x is None:
            return None
        if c == "/":
            return 2 if x in (0, 1) else None
        return 1
    # extension automaton: 0 expects SEP, 1 expects the first character of a component, 2 = inside a component (a
    # complete descendant ends here)
    def estep(x, c):
        if c == "/":
            return 1 if x in (0, 2) else None
        return 2 if x in (1, 2) else None
    start = (d.start, 0, frozenset())
    info = {start: ((), {})}
    todo = [start]
    while todo:
        nxt = []
        for st in todo:
            q, canon, _es = st
            word, pos = info[st]
            live = dict(pos)                  # extension state -> index where that extension started
            if q in d.accept and canon in (0, 1):
                live.setdefault(1 if canon == 0 else 0, len(word))   # a matched canonical path ends here
            for c in d.alphabet:
                q2 = d.trans[(q, c)]
                live2 = {}
                for x, at in live.items():
                    y = estep(x, c)
                    if y is not None:
                        live2[y] = min(live2.get(y, at), at)
                w2 = word + (c,)
                if 2 in live2 and q2 not in d.accept:
                    return show(w2[:live2[2]]), show(w2[live2[2]:])
                st2 = (q2, cstep(canon, c), frozenset(live2))
                if st2 not in info:
                    info[st2] = (w2, live2)
                    nxt.append(st2)
        todo = nxt
    return None


def difference_witness(text1, text2):
    """-> (equal, word only matched by text1, word only matched by text2)"""
    alphabet = alphabet_of(text1, text2)
    eq, o1, o2 = rx.compare(dfa(text1, alphabet), dfa(text2, alphabet))
    return eq, (show(o1) if o1 is not None else None), (show(o2) if o2 is not None else None)
