"""Self-test of the checkers against variants of /repo's current tree (thorough tier).

  seeded/<name>/patch.diff      a confirmed property-breaking change: the checks named in meta.json must report it
  selftest/benign/<name>.diff   a behaviour-preserving rewrite: every check must stay silent on it

Each variant is a scratch copy of the current tree (outside /repo and /verif, removed afterwards) with the patch
applied; it is analysed statically like /repo itself (VERIF_REPO=<copy> python3 -m sa.check <id>); nothing is run.
A patch that no longer applies to the current tree is skipped and reported as such.  Outcomes go to the evidence
(`selftest`); they never produce a VIOLATION line: a failing self-test is a defect of the checker, printed as
`SELFTEST-FAILED ...`.

usage: python3 -m sa.selftest [--property Cxx] [--only substring] [--jobs N] [--kind seeded|benign]"""
import argparse
import concurrent.futures
import json
import os
import shutil
import subprocess
import sys
import tempfile

VERIF = os.path.dirname(os.path.dirname(os.path.abspath(__file__)))
REPO = os.environ.get("VERIF_REPO", "/repo")
ALL = ["C%02d" % i for i in range(1, 21)]


def variants(kind=None):
    out = []
    sd = os.path.join(VERIF, "seeded")
    if kind in (None, "seeded") and os.path.isdir(sd):
        for name in sorted(os.listdir(sd)):
            patch = os.path.join(sd, name, "patch.diff")
            meta = os.path.join(sd, name, "meta.json")
            if not (os.path.exists(patch) and os.path.exists(meta)):
                continue
            with open(meta) as f:
                m = json.load(f)
            out.append({"kind": "seeded", "name": name, "patch": patch, "property": m.get("property"),
                        "expect_fire": list(m.get("detected_by_checks") or [])})
    bd = os.path.join(VERIF, "selftest", "benign")
    if kind in (None, "benign") and os.path.isdir(bd):
        for name in sorted(os.listdir(bd)):
            if name.endswith(".diff"):
                out.append({"kind": "benign", "name": name[:-5], "patch": os.path.join(bd, name), "property": None, "expect_fire": []})
    return out


def make_copy(patch):
    """-> (dir, None) or (None, reason)"""
    d = tempfile.mkdtemp(prefix="wax-selftest-")
    try:
        for n in ("src", "Cargo.toml", "Cargo.lock", "build.rs"):
            p = os.path.join(REPO, n)
            if os.path.isdir(p):
                shutil.copytree(p, os.path.join(d, n))
            elif os.path.exists(p):
                shutil.copy2(p, os.path.join(d, n))
        r = subprocess.run(["git", "apply", "--whitespace=nowarn", patch], cwd=d, capture_output=True, text=True)
        if r.returncode != 0:
            shutil.rmtree(d, ignore_errors=True)
            return None, "the patch does not apply to the current tree: " + r.stderr.strip().splitlines()[-1][:200]
        return d, None
    except Exception as e:  # pragma: no cover
        shutil.rmtree(d, ignore_errors=True)
        return None, "cannot create the scratch copy: %s" % e


def run_check(copy, pid):
    env = dict(os.environ)
    env["VERIF_REPO"] = copy
    env["VERIF_TIER"] = "quick"
    r = subprocess.run([sys.executable, "-m", "sa.check", pid, "--tier", "quick"], cwd=VERIF, env=env, capture_output=True, text=True)
    keys = [l.strip()[4:] for l in r.stdout.splitlines() if l.strip().startswith("key=")]
    return r.returncode, keys


def run_variant(v, pids):
    """pids: the checks to run on this variant.  -> result dict"""
    copy, why = make_copy(v["patch"])
    res = {"variant": v["name"], "kind": v["kind"], "checks": {}, "status": "ok"}
    if copy is None:
        res["status"] = "skipped"
        res["reason"] = why
        return res
    try:
        for pid in pids:
            rc, keys = run_check(copy, pid)
            fired = rc != 0
            want = pid in v["expect_fire"]
            res["checks"][pid] = {"exit": rc, "fired": fired, "expected_to_fire": want, "keys": keys[:4]}
            if v["kind"] == "seeded" and want and not fired:
                res["status"] = "FAILED"
                res.setdefault("problems", []).append("%s stays silent on the seeded change" % pid)
            if v["kind"] == "benign" and fired:
                res["status"] = "FAILED"
                res.setdefault("problems", []).append("%s raises an alarm on a behaviour-preserving rewrite: %s" % (pid, keys[:2]))
    finally:
        shutil.rmtree(copy, ignore_errors=True)
    return res


def run_for(pid=None, only=None, kind=None, jobs=8):
    """Self-tests concerning one property (or all): seeded variants expected to be caught by `pid`, and
    every benign variant against `pid`."""
    work = []
    for v in variants(kind):
        if only and only not in v["name"]:
            continue
        if v["kind"] == "seeded":
            pids = [p for p in v["expect_fire"] if pid in (None, p)]
        else:
            pids = [pid] if pid else ALL
        if pids:
            work.append((v, pids))
    results = []
    with concurrent.futures.ThreadPoolExecutor(max_workers=jobs) as ex:
        futs = [ex.submit(run_variant, *w) for w in work]
        for f in concurrent.futures.as_completed(futs):
            r = f.result()
            results.append(r)
            if os.environ.get("VERIF_SELFTEST_STREAM") == "1":     # progress of a long run, as it happens
                for l in summarise([r]):
                    print("(progress) " + l, flush=True)
    results.sort(key=lambda r: (r["kind"], r["variant"]))
    return results


def summarise(results):
    lines = []
    for r in results:
        if r["status"] == "skipped":
            lines.append("SELFTEST-SKIPPED %s %s: %s" % (r["kind"], r["variant"], r["reason"]))
        elif r["status"] == "FAILED":
            lines.append("SELFTEST-FAILED %s %s: %s" % (r["kind"], r["variant"], "; ".join(r.get("problems", []))))
        else:
            fired = [p for p, c in r["checks"].items() if c["fired"]]
            lines.append("SELFTEST-OK %s %s: %s" % (r["kind"], r["variant"], ("reported by " + ",".join(fired)) if fired else "silent (%d checks)" % len(r["checks"])))
    return lines


def main(argv=None):
    ap = argparse.ArgumentParser()
    ap.add_argument("--property", default=None)
    ap.add_argument("--only", default=None)
    ap.add_argument("--kind", default=None, choices=["seeded", "benign"])
    ap.add_argument("--jobs", type=int, default=8)
    args = ap.parse_args(argv)
    results = run_for(args.property, args.only, args.kind, args.jobs)
    for l in summarise(results):
        print(l)
    bad = [r for r in results if r["status"] == "FAILED"]
    print("selftest: %d variants, %d failed, %d skipped" % (len(results), len(bad), sum(1 for r in results if r["status"] == "skipped")))
    return 2 if bad else 0


if __name__ == "__main__":
    sys.exit(main())
