"""THIR case-table evaluator.

Evaluates type-checked function bodies (THIR, as serialised by waxfacts) on *abstract inputs drawn
from finite domains chosen by a rule*, and returns one `Case` per combination of decisions taken on
the way: the abstract result plus an ordered effect log.  Nothing of wax is executed: this is a
partial evaluator over the typed syntax tree.  Unknown values (`Sym`) that reach a branch are split
lazily into the finitely many cases of their static type (enum variants, booleans, equal / not equal
to a pattern constant); there is no constraint solving.  Anything the evaluator cannot interpret
becomes `Top` and rules that need that cell fail closed.
"""
import os
import sys

sys.setrecursionlimit(max(sys.getrecursionlimit(), 20000))


# ---------------------------------------------------------------------------------------------------
# values


# VERIF_COVERAGE=<file>: the keys of all bodies evaluated by this process are appended at exit (a development aid:
# which functions of /repo no rule ever evaluates)
_COVER = None
if os.environ.get("VERIF_COVERAGE"):
    class _Cover(set):
        def add(self, k):
            if k not in self:
                set.add(self, k)
                try:
                    with open(os.environ["VERIF_COVERAGE"], "a") as f:
                        f.write(k + "\n")
                except Exception:
                    pass
    _COVER = _Cover()


class Top:
    """Unanalysable value."""

    def __init__(self, reason):
        self.reason = reason

    def __repr__(self):
        return "Top(%s)" % self.reason


class Sym:
    """Unknown value of a static type; may be refined in place by a decision."""
    _n = 0

    SERIAL = 0
    JOURNAL = []              # (sym, "r", previous refinement) | (sym, "n", previous length of neq)

    def __init__(self, name, ty=None):
        Sym.SERIAL += 1
        self.serial = Sym.SERIAL
        self.name = name
        self.ty = ty          # type index (into facts.types) or None
        self._resolved = None  # refinement (Adt / bool / int / str / Char ...)
        self.neq = []         # constants it is known to differ from

    # Refinements are made in place while one decision vector is evaluated.  A symbol that exists before the
    # evaluation starts (an input built by the rule once and used for every decision vector) must not carry the
    # refinements of one vector into the next: every change is journalled and `Interp.explore` undoes the changes
    # to such symbols after each vector (after freezing the result).
    @property
    def resolved(self):
        return self._resolved

    @resolved.setter
    def resolved(self, v):
        Sym.JOURNAL.append((self, "r", self._resolved))
        self._resolved = v

    def exclude(self, c):
        Sym.JOURNAL.append((self, "n", len(self.neq)))
        self.neq.append(c)

    def __repr__(self):
        if self.resolved is not None:
            return "%s=%r" % (self.name, self.resolved)
        return "?%s" % self.name


class Char:
    def __init__(self, c):
        self.c = c

    def __eq__(self, o):
        return isinstance(o, Char) and o.c == self.c

    def __hash__(self):
        return hash(("Char", self.c))

    def __repr__(self):
        return "'%s'" % self.c


class Adt:
    def __init__(self, path, variant, fields=None, kind=None):
        self.path = path
        self.variant = variant
        self.fields = fields if fields is not None else {}

    def __repr__(self):
        short = self.path.rsplit("::", 1)[-1]
        name = short if short == self.variant else "%s::%s" % (short, self.variant)
        if not self.fields:
            return name
        if all(k.isdigit() for k in self.fields):
            return "%s(%s)" % (name, ", ".join(repr(self.fields[k]) for k in sorted(self.fields, key=int)))
        return "%s{%s}" % (name, ", ".join("%s: %r" % (k, v) for k, v in self.fields.items()))


class Tup:
    def __init__(self, items):
        self.items = list(items)

    def __repr__(self):
        return "(%s)" % ", ".join(repr(i) for i in self.items)


UNIT = Tup([])


class Cell:
    def __init__(self, v=None):
        self.v = v


class Place:
    """A storage location: (container, key).  Containers: Cell (key None), Adt (field name),
    Tup / RList (index)."""

    def __init__(self, container, key=None):
        self.container = container
        self.key = key

    def get(self):
        c = self.container
        if isinstance(c, Cell):
            return c.v
        if isinstance(c, Adt):
            return c.fields.get(self.key, Top("missing field %s" % self.key))
        if isinstance(c, (Tup, RList)):
            if isinstance(self.key, int) and 0 <= self.key < len(c.items):
                return c.items[self.key]
            return Top("index %r out of range" % (self.key,))
        return Top("bad place")

    def set(self, v):
        c = self.container
        if isinstance(c, Cell):
            c.v = v
        elif isinstance(c, Adt):
            c.fields[self.key] = v
        elif isinstance(c, (Tup, RList)):
            c.items[self.key] = v


class Ref:
    def __init__(self, place):
        self.place = place

    def __repr__(self):
        return "&%r" % (self.place.get(),)


class Closure:
    def __init__(self, key, env, inst=None):
        self.key = key
        self.env = env
        self.inst = inst

    def __repr__(self):
        return "<closure %s>" % self.key.rsplit("::", 2)[-2:]


class FnRef:
    def __init__(self, fn):
        self.fn = fn

    def __repr__(self):
        return "<fn %s>" % self.fn["path"]


class RList:
    """Vec / slice / array / VecDeque with known elements."""

    def __init__(self, items):
        self.items = list(items)

    def __repr__(self):
        return "[%s]" % ", ".join(repr(i) for i in self.items)


class RIter:
    """Lazy iterator: `fn_next()` returns a value or raises StopIteration."""

    def __init__(self, fn_next, desc="iter"):
        self.fn_next = fn_next
        self.desc = desc
        self.peeked = None

    def next(self):
        if self.peeked is not None:
            v = self.peeked
            self.peeked = None
            if v is StopIteration:
                raise StopIteration
            return v
        return self.fn_next()

    def __repr__(self):
        return "<%s>" % self.desc


class StrB:
    """String with symbolic parts: atoms are ('lit', text) | ('esc', value) | ('sym', value)."""

    def __init__(self, atoms=None):
        self.atoms = list(atoms or [])

    def push(self, atom):
        if atom[0] == "lit" and self.atoms and self.atoms[-1][0] == "lit":
            self.atoms[-1] = ("lit", self.atoms[-1][1] + atom[1])
        elif atom[0] == "lit" and atom[1] == "":
            pass
        else:
            self.atoms.append(atom)

    def extend(self, other):
        for a in to_atoms(other):
            self.push(a)

    def text(self):
        """Rendering with holes written as ⟦kind:name⟧."""
        out = []
        for k, v in self.atoms:
            if k == "lit":
                out.append(v)
            else:
                out.append("⟦%s:%s⟧" % (k, _short(v)))
        return "".join(out)

    def is_concrete(self):
        return all(a[0] == "lit" for a in self.atoms)

    def concrete(self):
        """The text with escaped concrete parts written out (regex::escape), or None when a part is symbolic."""
        out = []
        for k, v in self.atoms:
            v = strip(v) if k != "lit" else v
            if isinstance(v, Char):
                v = v.c
            if isinstance(v, StrB):
                v = v.text() if v.is_concrete() else None
            if not isinstance(v, str) or k == "sym":
                return None
            out.append(v if k == "lit" else "".join("\\" + c if c in "\\.+*?()|[]{}^$#&-~" else c for c in v))
        return "".join(out)

    def __repr__(self):
        return "\"%s\"" % self.text()


def _short(v):
    v = strip(v)
    if isinstance(v, Sym):
        return v.name
    return repr(v)


def to_atoms(v):
    v = strip(v)
    if isinstance(v, str):
        return [("lit", v)] if v else []
    if isinstance(v, StrB):
        return list(v.atoms)
    if isinstance(v, Char):
        return [("lit", v.c)]
    if isinstance(v, bool):
        return [("lit", "true" if v else "false")]
    if isinstance(v, int):
        return [("lit", str(v))]
    return [("sym", v)]


def freeze(v, serial0, memo):
    """A copy of the value in which the refinements of symbols older than `serial0` are written out (objects without
    such symbols inside are returned as they are)."""
    k = id(v)
    if k in memo:
        return memo[k]
    if isinstance(v, Sym):
        if v.serial <= serial0 and v._resolved is not None:
            r = freeze(v._resolved, serial0, memo)
            memo[k] = r
            return r
        return v
    if isinstance(v, (int, str, bool, float, Char, type(None), Top, FnRef)):
        return v
    memo[k] = v     # provisional (cycles)
    if isinstance(v, Adt):
        nf = {f: freeze(x, serial0, memo) for f, x in v.fields.items()}
        if any(nf[f] is not v.fields[f] for f in nf):
            a = Adt(v.path, v.variant, nf)
            for attr, val in v.__dict__.items():
                if attr not in ("path", "variant", "fields"):
                    setattr(a, attr, val)
            memo[k] = a
            return a
        return v
    if isinstance(v, (Tup, RList)):
        ni = [freeze(x, serial0, memo) for x in v.items]
        if any(a is not b for a, b in zip(ni, v.items)):
            r = type(v)(ni)
            for attr, val in v.__dict__.items():
                if attr != "items":
                    setattr(r, attr, val)
            memo[k] = r
            return r
        return v
    if isinstance(v, Cell):
        nv = freeze(v.v, serial0, memo)
        if nv is not v.v:
            r = Cell(nv)
            memo[k] = r
            return r
        return v
    if isinstance(v, Place):
        nc = freeze(v.container, serial0, memo)
        if nc is not v.container:
            r = Place(nc, v.key)
            memo[k] = r
            return r
        return v
    if isinstance(v, Ref):
        np_ = freeze(v.place, serial0, memo)
        if np_ is not v.place:
            r = Ref(np_)
            memo[k] = r
            return r
        return v
    if isinstance(v, StrB):
        na = [(a[0], freeze(a[1], serial0, memo)) if a[0] != "lit" else a for a in v.atoms]
        if any(x[1] is not y[1] for x, y in zip(na, v.atoms)):
            r = StrB(na)
            memo[k] = r
            return r
        return v
    if isinstance(v, tuple):
        nt = tuple(freeze(x, serial0, memo) for x in v)
        r = nt if any(a is not b for a, b in zip(nt, v)) else v
        memo[k] = r
        return r
    if isinstance(v, list):
        nl = [freeze(x, serial0, memo) for x in v]
        r = nl if any(a is not b for a, b in zip(nl, v)) else v
        memo[k] = r
        return r
    return v


def strip(v):
    """Look through references and resolved symbols."""
    while True:
        if isinstance(v, Ref):
            v = v.place.get()
        elif isinstance(v, Sym) and v.resolved is not None:
            v = v.resolved
        else:
            return v


def some(v):
    return Adt("std::option::Option", "Some", {"0": v})


NONE_PATH = "std::option::Option"


def none():
    return Adt("std::option::Option", "None", {})


def ok(v):
    return Adt("std::result::Result", "Ok", {"0": v})


def err(v):
    return Adt("std::result::Result", "Err", {"0": v})


def is_variant(v, variant):
    v = strip(v)
    return isinstance(v, Adt) and v.variant == variant


# ---------------------------------------------------------------------------------------------------
# control flow


class ReturnEx(Exception):
    def __init__(self, value):
        self.value = value


class BreakEx(Exception):
    def __init__(self, label, value):
        self.label = label
        self.value = value


class ContinueEx(Exception):
    def __init__(self, label):
        self.label = label


class PanicEx(Exception):
    def __init__(self, msg):
        self.msg = msg


class Abort(Exception):
    """Evaluation cannot continue (fuel, depth, unsupported construct in control position)."""

    def __init__(self, reason):
        self.reason = reason


class Panicked:
    def __init__(self, msg):
        self.msg = msg

    def __repr__(self):
        return "PANIC(%s)" % self.msg


class Case:
    def __init__(self, decisions, result, log, where=None):
        self.decisions = decisions  # list of (label, n options, choice, choice name)
        self.result = result
        self.log = log

    def decided(self):
        return {d[0]: d[3] for d in self.decisions}

    def __repr__(self):
        return "Case(%s -> %r; log=%s)" % (", ".join("%s=%s" % (d[0], d[3]) for d in self.decisions), self.result,
                                           self.log)


# ---------------------------------------------------------------------------------------------------
# interpreter


class Interp:
    def __init__(self, facts, stubs=None, max_depth=60, fuel=400000, max_cases=4000, max_loop=64):
        from . import models
        self.F = facts
        self.models = dict(models.MODELS)
        self.name_models = dict(models.NAME_MODELS)
        self.rule_stubs = dict(stubs or {})
        self.max_depth = max_depth
        self.fuel0 = fuel
        self.max_cases = max_cases
        self.max_loop = max_loop
        self.script = []
        self.trace = []
        self.log = []
        self.depth = 0
        self.fuel = fuel
        self.tops = []          # reasons for Top values created in this run
        self.no_inline = set()  # qnames never inlined (treated as opaque effect calls)
        self.trait_impl_ix = None
        self.callstack = []

    # ---- decisions ----------------------------------------------------------------------------
    def decide(self, label, options):
        """Pick one of `options` (list of names); explored exhaustively by `explore`."""
        i = len(self.trace)
        c = self.script[i] if i < len(self.script) else 0
        if c >= len(options):
            c = 0
        self.trace.append((label, len(options), c, options[c]))
        return c

    def explore(self, run):
        """Run `run()` once per decision vector.  Returns list of Case."""
        cases = []
        stack = [[]]
        import time as _time
        t_end = _time.time() + float(getattr(self, "budget_s", None) or os.environ.get("VERIF_EXPLORE_BUDGET_S", "90"))
        while stack:
            if _time.time() > t_end:
                # a wall-clock budget per exploration: an input the rule meant to be small has exploded (a function that
                # now inspects an unknown value in depth); the exploration is unanalysable, it does not hang the check
                cases.append(Case([], Top("exploration exceeded its time budget (%d cases so far)" % len(cases)), []))
                self.tops.append("exploration time budget")
                break
            script = stack.pop()
            self.script = script
            self.trace = []
            self.log = []
            self.depth = 0
            self.fuel = self.fuel0
            self.callstack = []
            Sym._n = 0
            serial0 = Sym.SERIAL
            j0 = len(Sym.JOURNAL)
            try:
                res = run()
            except PanicEx as e:
                res = Panicked(e.msg)
            except Abort as e:
                res = Top(e.reason)
                self.tops.append(e.reason)
            except ReturnEx as e:
                res = e.value
            # symbols that existed before this evaluation keep nothing of it: the result is frozen (their refinements
            # written into a copy), then their refinements are undone
            changed = [ent for ent in Sym.JOURNAL[j0:] if ent[0].serial <= serial0]
            if changed:
                memo = {}
                res = freeze(res, serial0, memo)
                self.log = [freeze(ev, serial0, memo) for ev in self.log]
                for sym, kind, old in reversed(changed):
                    if kind == "r":
                        sym._resolved = old
                    else:
                        del sym.neq[old:]
            del Sym.JOURNAL[j0:]
            cases.append(Case(list(self.trace), res, list(self.log)))
            if len(cases) > self.max_cases:
                cases.append(Case([], Top("case explosion (> %d cases)" % self.max_cases), []))
                self.tops.append("case explosion")
                break
            for i in range(len(script), len(self.trace)):
                _label, n, c, _name = self.trace[i]
                for alt in range(c + 1, n):
                    stack.append([t[2] for t in self.trace[:i]] + [alt])
        return cases

    def top(self, reason):
        self.tops.append(reason)
        return Top(reason)

    def emit(self, *event):
        self.log.append(tuple(event))

    # ---- functions ----------------------------------------------------------------------------
    def call_item(self, item, args, inst=None):
        """Evaluate a local function / closure body on argument values.  `inst`: monomorphic instance
        id (calls inside are then dispatched through rustc's own resolution for that instance); when
        omitted and the function has exactly one instance in the crate, that one is used."""
        key = item.key if hasattr(item, "key") else item
        if inst is None:
            inst = self.F.default_instance(key)
        elif inst is False:
            inst = None  # generic mode: calls as rustc resolved them in the generic body
        body = self.F.bodies.get(key)
        if body is None or not body.get("thir"):
            return self.top("no THIR body for %s" % key)
        thir = body["thir"]
        if self.depth >= self.max_depth:
            return self.top("inlining depth exceeded at %s" % key)
        env = {}
        params = thir["params"]
        if len(params) != len(args):
            return self.top("arity mismatch calling %s: %d params, %d args" % (key, len(params), len(args)))
        fr = Frame(self, key, thir, env, inst)
        if _COVER is not None:
            _COVER.add(key)
        for p, a in zip(params, args):
            if p["pat"] is None:
                continue
            if not fr.bind(p["pat"], Place(Cell(a))):
                return self.top("parameter pattern refuted in %s" % key)
        self.depth += 1
        self.callstack.append(key)
        try:
            return fr.eval(thir["root"])
        except ReturnEx as e:
            return e.value
        finally:
            self.depth -= 1
            self.callstack.pop()

    def call_closure(self, clo, args):
        body = self.F.bodies.get(clo.key)
        if body is None or not body.get("thir"):
            return self.top("no THIR body for closure %s" % clo.key)
        thir = body["thir"]
        if self.depth >= self.max_depth + 4:
            return self.top("inlining depth exceeded at closure %s" % clo.key)
        env = dict(clo.env)  # captured variables are shared cells; new bindings are local
        if _COVER is not None:
            _COVER.add(clo.key)
        fr = Frame(self, clo.key, thir, env, clo.inst)
        params = thir["params"][1:]
        if len(params) != len(args):
            return self.top("closure arity mismatch %s: %d params, %d args" % (clo.key, len(params), len(args)))
        for p, a in zip(params, args):
            if p["pat"] is None:
                continue
            if not fr.bind(p["pat"], Place(Cell(a))):
                return self.top("closure parameter pattern refuted in %s" % clo.key)
        self.depth += 1
        self.callstack.append(clo.key)
        try:
            return fr.eval(thir["root"])
        except ReturnEx as e:
            return e.value
        finally:
            self.depth -= 1
            self.callstack.pop()

    def call_value(self, f, args):
        """Call a function-like value (closure, fn item reference) with positional args."""
        f = strip(f)
        if isinstance(f, Closure):
            return self.call_closure(f, args)
        if isinstance(f, FnRef):
            return self.call_fn(f.fn, args, None)
        if isinstance(f, PyFn):
            return f.fn(self, args)
        return self.top("call of non-function value %r" % (f,))

    def _trait_impls(self):
        if self.trait_impl_ix is None:
            ix = {}
            for it in self.F.items.values():
                if it.kind == "AssocFn" and it.impl_trait:
                    ix.setdefault((it.impl_trait, it.name), []).append(it)
            self.trait_impl_ix = ix
        return self.trait_impl_ix

    def dispatch(self, fn, args):
        """Local item a call dispatches to, or None."""
        rk = fn.get("resolved_key")
        if rk and rk in self.F.bodies:
            if self.F.items[rk].kind == "Closure":
                return None  # a closure call: evaluated through the closure value (captured environment)
            return self.F.items[rk]
        if fn["key"] in self.F.bodies:
            return self.F.items[fn["key"]]
        tr = fn.get("trait")
        if tr and args:
            recv = strip(args[0])
            cands = self._trait_impls().get((tr, fn["name"]), [])
            if isinstance(recv, Adt):
                # only methods with a `self` receiver are dispatched on the first argument's type
                # (`From::from(x)`: Self is the target type, not the type of x)
                sel = [c for c in cands if c.impl_adt == recv.path and self._has_self(c)]
                if len(sel) > 1:
                    # choose among impls that differ only in trait generic args, by the call's type args
                    targs = [self.F.ty_str(t) for t in fn.get("args", [])]
                    sel2 = [c for c in sel if all(("<" + a + ">" in (c.impl_trait_ref or "") or a in (c.impl_trait_ref or "")) for a in targs[1:])]
                    if len(sel2) == 1:
                        sel = sel2
                if len(sel) == 1:
                    return sel[0]
        return None

    def call_mono(self, fn, args, expr):
        """Dispatch through the monomorphic call table (exact: rustc resolved the callee)."""
        F = self.F
        for which in ("mono_via", "mono"):
            cid = fn.get(which)
            if cid is None:
                continue
            ci = F.instances[cid]
            if ci["local"] and ci["def"] in F.bodies and ci["kind"] == "item" and F.items[ci["def"]].kind != "Closure":
                item = F.items[ci["def"]]
                st = self.rule_stubs.get(item.qname)
                if st is not None:
                    return st(self, args, fn, expr)
                if item.qname in self.no_inline:
                    self.emit("call", item.qname, [summary(a) for a in args])
                    return Sym("ret:%s" % item.qname, expr["ty"] if expr else None)
                if item.expn and fn["path"] in self.models and item.name != "default":
                    return self.models[fn["path"]](self, args, fn, expr)
                return self.call_item(item, args, inst=cid)
            if which == "mono_via" and not ci["local"]:
                continue
        # library callee: remember what rustc resolved (models use it where the generic type is not enough)
        ci = F.instances[fn["mono"]]
        fn["mono_path"] = ci["path"]
        fn["mono_args"] = ci["args"]
        return NotImplemented

    def local_callee_via(self, fn, names, depth=4):
        """For a call to a library generic (cmp::min, Iterator::max, ...) made in instance mode: the local
        trait-method instance (named in `names`) that the library code reaches, found in the monomorphic
        call graph.  -> (item, instance id) or None."""
        start = fn.get("mono") if fn else None
        if start is None:
            return None
        F = self.F
        seen = {start}
        frontier = [start]
        for _ in range(depth):
            nxt = []
            for i in frontier:
                for j in sorted(F.inst_edges.get(i, ())):
                    if j in seen:
                        continue
                    seen.add(j)
                    inst = F.instances[j]
                    if inst["local"] and inst["def"] in F.items and inst["kind"] == "item":
                        it = F.items[inst["def"]]
                        if it.name in names and it.kind != "Closure":
                            return it, j
                        continue
                    nxt.append(j)
            frontier = nxt
        return None

    def _has_self(self, item):
        th = self.F.bodies.get(item.key, {}).get("thir")
        return bool(th and th["params"] and th["params"][0].get("self"))

    def dispatch_local_trait(self, trait, name, args):
        recv = strip(args[0]) if args else None
        if isinstance(recv, Adt):
            sel = [c for c in self._trait_impls().get((trait, name), []) if c.impl_adt == recv.path and self._has_self(c)]
            if len(sel) == 1:
                return sel[0]
        return None

    def call_fn(self, fn, args, expr, frame=None):
        path = fn["path"]
        rpath = fn.get("resolved") or path
        for p in (rpath, path):
            st = self.rule_stubs.get(p)
            if st is not None:
                r = st(self, args, fn, expr)
                if r is not NotImplemented:     # a stub may decline (a generic path such as Iterator::next on another type)
                    return r
        if fn.get("ctor"):
            c = fn["ctor"]
            return Adt(c["adt"], c["variant"], {str(i): a for i, a in enumerate(args)})
        if fn.get("mono") is not None:
            r = self.call_mono(fn, args, expr)
            if r is not NotImplemented:
                return r
        vk = fn.get("via_from_key")
        if vk and vk in self.F.bodies:
            item = self.F.items[vk]
            st = self.rule_stubs.get(item.qname)
            if st is not None:
                return st(self, args, fn, expr)
            return self.call_item(item, args)
        item = self.dispatch(fn, args)
        if item is not None:
            st = self.rule_stubs.get(item.qname)
            if st is not None:
                return st(self, args, fn, expr)
            if item.qname in self.no_inline:
                self.emit("call", item.qname, [summary(a) for a in args])
                return Sym("ret:%s" % item.qname, expr["ty"] if expr else None)
            if item.expn and path in self.models and item.name != "default":
                # derived impl (Clone, PartialEq, ...): the library model has the same meaning
                return self.models[path](self, args, fn, expr)
            return self.call_item(item, args)
        for p in (rpath, path):
            st = self.models.get(p)
            if st is not None:
                return st(self, args, fn, expr)
        st = self.name_models.get((fn.get("trait"), fn["name"]))
        if st is not None:
            return st(self, args, fn, expr)
        # unknown callee: opaque result, logged
        self.emit("ext", path, [summary(a) for a in args])
        return Sym("ret:%s#%d" % (path, len(self.log)), expr["ty"] if expr else None)


class PyFn:
    """A Python function usable as a callable value inside the evaluator."""

    def __init__(self, fn, desc="pyfn"):
        self.fn = fn
        self.desc = desc

    def __repr__(self):
        return "<%s>" % self.desc


def summary(v, depth=0):
    v0 = v
    v = strip(v)
    if depth > 6:
        return "..."
    if isinstance(v, Adt):
        if not v.fields:
            return repr(v)
        return repr(v)
    return repr(v)


def fresh_for_type(interp, name, tyix):
    return Sym(name, tyix)


class Frame:
    def __init__(self, interp, key, thir, env, inst=None):
        self.I = interp
        self.inst = inst
        self.key = key
        self.thir = thir
        self.exprs = thir["exprs"]
        self.env = env
        if not thir.get("_indexed"):
            for i, x in enumerate(self.exprs):
                x["_ix"] = i
            thir["_indexed"] = True

    # ---- helpers ------------------------------------------------------------------------------
    def where(self, e):
        it = self.I.F.items.get(self.key)
        f = it.file if it else "?"
        return "%s:%s" % (f.replace("/repo/", ""), e.get("ln", "?"))

    def tick(self):
        self.I.fuel -= 1
        if self.I.fuel <= 0:
            raise Abort("fuel exhausted in %s" % self.key)

    def mono_fn(self, e):
        """The expression's function reference, annotated with the callee instance that rustc resolved
        for the current monomorphic instance (if any)."""
        fn = e.get("fn")
        if fn is None or self.inst is None:
            return fn
        per = self.I.F.inst_calls.get(self.inst)
        if not per:
            return fn
        ent = per.get(self.key, {}).get(e["_ix"])
        if ent is None:
            return fn
        fn2 = dict(fn)
        fn2["mono"] = ent[0]
        fn2["mono_via"] = ent[1]
        return fn2

    # ---- places -------------------------------------------------------------------------------
    def place(self, eid):
        """Evaluate an expression as a place; temporaries get a fresh cell."""
        e = self.exprs[eid]
        k = e["k"]
        if k == "Scope":
            return self.place(e["value"])
        if k == "Use" or k == "NeverToAny":
            return self.place(e["source"])
        if k == "VarRef" or k == "UpvarRef":
            c = self.env.get(e["var"])
            if c is None:
                c = Cell(self.I.top("unbound variable %s in %s" % (e.get("name"), self.key)))
                self.env[e["var"]] = c
            return Place(c)
        if k == "Deref":
            v = self.eval(e["arg"])
            v2 = v
            while isinstance(v2, Sym) and v2.resolved is not None:
                v2 = v2.resolved
            if isinstance(v2, Ref):
                return v2.place
            # transparent smart pointers (Box, Cow, String->str...): the value itself
            return Place(Cell(v2))
        if k == "Field":
            base = self.place(e["lhs"])
            bv = base.get()
            bv = self.resolve_struct(bv, e)
            if isinstance(bv, Adt):
                name = e["name"]
                if name not in bv.fields:
                    bv.fields[name] = Sym("%s.%s" % (getattr(bv, "sym_origin", bv.variant), name), e["ty"])
                return Place(bv, name)
            if isinstance(bv, Tup):
                return Place(bv, e["fidx"])
            if isinstance(bv, Top):
                return Place(Cell(bv))
            return Place(Cell(self.I.top("field %s of %r at %s" % (e["name"], bv, self.where(e)))))
        if k == "Index":
            base = self.place(e["lhs"])
            bv = strip(base.get())
            ix = strip(self.eval(e["index"]))
            if isinstance(bv, RList) and isinstance(ix, int) and not isinstance(ix, bool):
                if 0 <= ix < len(bv.items):
                    return Place(bv, ix)
                raise PanicEx("index out of bounds")
            if isinstance(bv, (bytes, bytearray)) and isinstance(ix, int) and not isinstance(ix, bool):
                if 0 <= ix < len(bv):
                    return Place(Cell(bv[ix]))
                raise PanicEx("index out of bounds")
            return Place(Cell(self.I.top("index of %r[%r] at %s" % (bv, ix, self.where(e)))))
        return Place(Cell(self.eval(eid)))

    def resolve_struct(self, v, e):
        """Look through refs; refine an unknown struct-typed Sym into a struct with symbolic fields."""
        while True:
            if isinstance(v, Ref):
                v = v.place.get()
            elif isinstance(v, Sym):
                if v.resolved is not None:
                    v = v.resolved
                    continue
                # refine using the static type of the lhs expression
                lty = self.exprs[e["lhs"]]["ty"]
                t = self.I.F.types[lty]
                while t.get("k") == "ref":
                    t = self.I.F.types[t["to"]]
                if t.get("k") == "adt":
                    a = self.I.F.adts.get(t["adt"])
                    if a and a["kind"] == "struct":
                        v.resolved = Adt(t["adt"], a["variants"][0]["name"], {})
                        v.resolved.sym_origin = v.name
                        v = v.resolved
                        continue
                if t.get("k") == "tuple":
                    v.resolved = Tup([Sym("%s.%d" % (v.name, i), ti) for i, ti in enumerate(t["elems"])])
                    v = v.resolved
                    continue
                return v
            else:
                return v

    # ---- patterns -----------------------------------------------------------------------------
    def bind(self, pat, place):
        """Match `pat` against the value stored at `place`; bind variables.  Unknown values are
        refined by decisions.  Returns True / False."""
        k = pat["k"]
        if k == "Wild" or k == "Missing":
            return True
        if k == "Binding":
            if pat["sub"] is not None:
                if not self.bind(pat["sub"], place):
                    return False
            if pat["mode"] == "move":
                self.env[pat["var"]] = Cell(place.get())
            else:
                self.env[pat["var"]] = Cell(Ref(place))
            return True
        if k == "Deref":
            v = place.get()
            while isinstance(v, Sym) and v.resolved is not None:
                v = v.resolved
            if isinstance(v, Ref):
                return self.bind(pat["sub"], v.place)
            return self.bind(pat["sub"], place)
        if k == "Or":
            # first alternative that matches (alternatives bind the same variables)
            for p in pat["pats"]:
                if self.bind(p, place):
                    return True
            return False
        if k == "Variant":
            if pat["adt"] == "std::borrow::Cow":
                # Cow is transparent in the evaluator (a borrowed or owned view of the same text): a value that
                # is not an explicit Cow matches the Borrowed arm
                raw = place.get()
                while isinstance(raw, (Ref, Sym)) and not (isinstance(raw, Sym) and raw.resolved is None):
                    raw = raw.place.get() if isinstance(raw, Ref) else raw.resolved
                if not (isinstance(raw, Adt) and raw.path == "std::borrow::Cow"):
                    if pat["variant"] != "Borrowed":
                        return False
                    return all(self.bind(sp["p"], place) for sp in pat["subs"])
            v = self.force_enum(place, pat)
            if isinstance(v, Top):
                raise Abort("match on unanalysable value: %s" % v.reason)
            if not isinstance(v, Adt):
                raise Abort("variant pattern %s::%s against %r in %s" % (pat["adt"], pat["variant"], v, self.key))
            if v.variant != pat["variant"]:
                return False
            for sp in pat["subs"]:
                name = sp["name"]
                if name not in v.fields:
                    v.fields[name] = Sym("%s.%s" % (getattr(v, "sym_origin", v.variant), name), sp["p"]["ty"])
                if not self.bind(sp["p"], Place(v, name)):
                    return False
            return True
        if k == "Leaf":
            v = place.get()
            while True:
                if isinstance(v, Ref):
                    v = v.place.get()
                elif isinstance(v, Sym) and v.resolved is not None:
                    v = v.resolved
                else:
                    break
            if isinstance(v, Sym):
                t = self.I.F.types[pat["ty"]]
                if t.get("k") == "tuple":
                    v.resolved = Tup([Sym("%s.%d" % (v.name, i), ti) for i, ti in enumerate(t["elems"])])
                    v = v.resolved
                elif t.get("k") == "adt":
                    a = self.I.F.adts.get(t["adt"])
                    v.resolved = Adt(t["adt"], a["variants"][0]["name"] if a else "?", {})
                    v.resolved.sym_origin = v.name
                    v = v.resolved
            if isinstance(v, Tup):
                for sp in pat["subs"]:
                    if not self.bind(sp["p"], Place(v, sp["f"])):
                        return False
                return True
            if isinstance(v, Adt):
                for sp in pat["subs"]:
                    name = sp["name"]
                    if name not in v.fields:
                        v.fields[name] = Sym("%s.%s" % (getattr(v, "sym_origin", v.variant), name), sp["p"]["ty"])
                    if not self.bind(sp["p"], Place(v, name)):
                        return False
                return True
            if isinstance(v, Top):
                raise Abort("destructuring unanalysable value: %s" % v.reason)
            raise Abort("leaf pattern against %r in %s" % (v, self.key))
        if k == "Constant":
            return self.match_const(place, pat["value"])
        if k == "Range":
            v = strip(place.get())
            lo, hi = pat["lo"], pat["hi"]
            if isinstance(v, (Char, int)) and isinstance(lo, dict) and isinstance(hi, dict):
                x = v.c if isinstance(v, Char) else v
                a, b = lo["v"], hi["v"]
                return (a <= x <= b) if pat["inclusive"] else (a <= x < b)
            if isinstance(v, Sym):
                c = self.I.decide("%s in %s..%s" % (v.name, _cv(lo), _cv(hi)), ["true", "false"])
                return c == 0
            raise Abort("range pattern against %r" % (v,))
        if k == "Slice":
            v = strip(place.get())
            if isinstance(v, RList):
                n = len(v.items)
                pre, suf = pat["prefix"], pat["suffix"]
                if pat["slice"] is None:
                    if n != len(pre) + len(suf):
                        return False
                elif n < len(pre) + len(suf):
                    return False
                for i, p in enumerate(pre):
                    if not self.bind(p, Place(v, i)):
                        return False
                for j, p in enumerate(suf):
                    if not self.bind(p, Place(v, n - len(suf) + j)):
                        return False
                if pat["slice"] is not None:
                    mid = RList(v.items[len(pre):n - len(suf)])
                    if not self.bind(pat["slice"], Place(Cell(mid))):
                        return False
                return True
            raise Abort("slice pattern against %r" % (v,))
        if k == "Never":
            return False
        raise Abort("unsupported pattern kind %s in %s" % (k, self.key))

    def force_enum(self, place, pat):
        """Value at place as an enum value; an unknown is split over the variants of pat's ADT."""
        v = place.get()
        while True:
            if isinstance(v, Ref):
                v = v.place.get()
            elif isinstance(v, Sym) and v.resolved is not None:
                v = v.resolved
            else:
                break
        if isinstance(v, Sym):
            variants = self.I.F.variants(pat["adt"])
            c = self.I.decide("variant(%s)" % v.name, variants)
            v.resolved = Adt(pat["adt"], variants[c], {})
            v.resolved.sym_origin = "%s.%s" % (v.name, variants[c])
            return v.resolved
        return v

    def match_const(self, place, cv):
        v = strip(place.get())
        if cv["t"] == "other":
            raise Abort("constant pattern of unsupported type: %s" % cv.get("debug"))
        c = cv["v"]
        if cv["t"] == "char":
            c = Char(c)
        if isinstance(v, Sym):
            for n in v.neq:
                if n == c:
                    return False
            d = self.I.decide("%s == %r" % (v.name, c), ["true", "false"])
            if d == 0:
                v.resolved = c
                return True
            v.exclude(c)
            return False
        if isinstance(v, StrB):
            if v.is_concrete():
                return v.text() == c
            d = self.I.decide("%s == %r" % (v.text(), c), ["true", "false"])
            return d == 0
        if isinstance(v, Top):
            raise Abort("constant pattern against unanalysable value: %s" % v.reason)
        if isinstance(v, bool) or isinstance(c, bool):
            return v is c or v == c
        return v == c

    # ---- expressions --------------------------------------------------------------------------
    def eval(self, eid, loop_label=None):
        self.tick()
        e = self.exprs[eid]
        k = e["k"]
        m = getattr(self, "e_" + k, None)
        if m is None:
            return self.I.top("unsupported expression kind %s at %s" % (k, self.where(e)))
        if k == "Scope":
            return self.e_Scope(e, loop_label)
        return m(e)

    def e_Scope(self, e, _outer=None):
        inner = self.exprs[e["value"]]
        while inner["k"] in ("NeverToAny", "Use"):
            inner = self.exprs[inner["source"]]
        if inner["k"] == "Loop":
            return self.e_Loop(inner, e["scope"])
        return self.eval(e["value"])

    def e_Use(self, e):
        return self.eval(e["source"])

    def e_NeverToAny(self, e):
        return self.eval(e["source"])

    def e_PointerCoercion(self, e):
        return self.eval(e["source"])

    def e_Cast(self, e):
        v = self.eval(e["source"])
        x = strip(v)
        t = self.I.F.types[e["ty"]]
        tname = t.get("s", "")
        widths = {"u8": 8, "u16": 16, "u32": 32, "u64": 64, "usize": 64, "u128": 128}
        if isinstance(x, Char) and tname in widths:
            return ord(x.c) & ((1 << widths[tname]) - 1)
        if isinstance(x, Char) and tname == "char":
            return x
        if isinstance(x, bool) and tname in widths:
            return int(x)
        if isinstance(x, int) and not isinstance(x, bool):
            if tname in widths:
                return x & ((1 << widths[tname]) - 1)
            if tname == "char" and 0 <= x < 0x110000:
                return Char(chr(x))
        if isinstance(x, Sym) and t.get("k") in ("uint", "int", "char") and tname != self.I.F.types[self.exprs[e["source"]]["ty"]].get("s"):
            # a numeric conversion of an unknown value is a different value (truncation / extension)
            return Sym("(%s as %s)" % (x.name, tname), e["ty"])
        return v

    def e_Literal(self, e):
        lit = e["lit"]
        if lit is None:
            return self.I.top("bad literal")
        t, v = lit["t"], lit["v"]
        if t == "char":
            return Char(v)
        if t == "int":
            return -v if e.get("neg") else v
        if t == "bytes":
            return RList(v)
        if t == "float":
            return self.I.top("float literal")
        return v

    def e_ZstLiteral(self, e):
        if "fn" in e:
            return FnRef(self.mono_fn(e))
        t = self.I.F.types[e["ty"]]
        if t.get("k") == "adt":
            a = self.I.F.adts.get(t["adt"])
            return Adt(t["adt"], a["variants"][0]["name"] if a else "?", {})
        if t.get("k") == "closure":
            return Closure(t["fnkey"], self.env, self.inst)
        return Sym("zst:%s" % t.get("s"), e["ty"])

    def e_NamedConst(self, e):
        val = e.get("val")
        if val is None:
            return Sym("const:%s" % e["const"], e["ty"])
        return const_value(val, e)

    def e_VarRef(self, e):
        return self.place(e["_ix"]).get()

    e_UpvarRef = e_VarRef

    def e_Field(self, e):
        return self.place(e["_ix"]).get()

    def e_Index(self, e):
        return self.place(e["_ix"]).get()

    def e_Deref(self, e):
        return self.place(e["_ix"]).get()

    def e_Borrow(self, e):
        return Ref(self.place(e["arg"]))

    e_RawBorrow = e_Borrow

    def e_Tuple(self, e):
        return Tup([self.eval(f) for f in e["fields"]])

    def e_Array(self, e):
        return RList([self.eval(f) for f in e["fields"]])

    def e_Adt(self, e):
        fields = {}
        if e.get("base") not in (None, "default"):
            b = strip(self.eval(e["base"]))
            if isinstance(b, Adt):
                fields.update(b.fields)
        for f in e["fields"]:
            fields[f["name"]] = self.eval(f["e"])
        return Adt(e["adt"], e["variant"], fields)

    def e_Closure(self, e):
        return Closure(e["closure"], self.env, self.inst)

    def e_Block(self, e):
        b = self.thir["blocks"][e["block"]]
        try:
            for sid in b["stmts"]:
                s = self.thir["stmts"][sid]
                if s["k"] == "Expr":
                    self.eval(s["expr"])
                else:
                    if s["init"] is None:
                        # declaration without initializer: bind variables to uninitialised cells
                        self.declare(s["pat"])
                        continue
                    pl = self.place_or_temp(s["init"])
                    if not self.bind(s["pat"], pl):
                        if s["else"] is not None:
                            self.eval_block(s["else"])
                            raise Abort("let-else block fell through")
                        raise Abort("irrefutable let pattern refuted at %s:%s" % (self.key, s.get("ln")))
            if b["expr"] is not None:
                return self.eval(b["expr"])
            return UNIT
        except BreakEx as ex:
            if b.get("targeted") and ex.label == b["scope"]:
                return ex.value
            raise

    def eval_block(self, bid):
        return self.e_Block({"block": bid})

    def declare(self, pat):
        if pat["k"] == "Binding":
            self.env[pat["var"]] = Cell(Top("uninitialised"))
            if pat["sub"]:
                self.declare(pat["sub"])
        for key in ("subs",):
            for sp in pat.get(key, []) or []:
                self.declare(sp["p"])

    def place_or_temp(self, eid):
        e = self.exprs[eid]
        while e["k"] in ("Scope", "Use"):
            eid = e["value"] if e["k"] == "Scope" else e["source"]
            e = self.exprs[eid]
        if e["k"] in ("VarRef", "UpvarRef", "Field", "Deref", "Index"):
            return self.place(eid)
        return Place(Cell(self.eval(eid)))

    def truth(self, v, what, e):
        v = strip(v)
        if isinstance(v, bool):
            return v
        if isinstance(v, Sym):
            c = self.I.decide(v.name if v.name else what, ["true", "false"])
            v.resolved = (c == 0)
            return c == 0
        if isinstance(v, Top):
            raise Abort("branch on unanalysable value (%s) at %s" % (v.reason, self.where(e)))
        raise Abort("branch on non-boolean %r at %s" % (v, self.where(e)))

    def e_If(self, e):
        c = self.eval(e["cond"])
        if self.truth(c, "if@%s" % self.where(e), e):
            return self.eval(e["then"])
        if e["else"] is not None:
            return self.eval(e["else"])
        return UNIT

    def e_Let(self, e):
        pl = self.place_or_temp(e["expr"])
        return self.bind(e["pat"], pl)

    def e_LogicalOp(self, e):
        l = self.truth(self.eval(e["lhs"]), "lhs@%s" % self.where(e), e)
        if e["op"] == "And":
            if not l:
                return False
            return self.truth(self.eval(e["rhs"]), "rhs@%s" % self.where(e), e)
        if l:
            return True
        return self.truth(self.eval(e["rhs"]), "rhs@%s" % self.where(e), e)

    def e_Unary(self, e):
        v = strip(self.eval(e["arg"]))
        if e["op"] == "Not":
            if isinstance(v, bool):
                return not v
            if isinstance(v, Sym):
                return not self.truth(v, "not", e)
        if e["op"] == "Neg" and isinstance(v, int):
            return -v
        return self.I.top("unary %s on %r" % (e["op"], v))

    def e_Binary(self, e):
        from . import models
        l = self.eval(e["lhs"])
        r = self.eval(e["rhs"])
        return models.binop(self.I, e["op"], l, r, e)

    def e_Match(self, e):
        pl = self.place_or_temp(e["scrutinee"])
        for aid in e["arms"]:
            arm = self.thir["arms"][aid]
            saved = dict(self.env)
            if self.bind(arm["pat"], pl):
                if arm["guard"] is not None:
                    g = self.eval(arm["guard"])
                    if not self.truth(g, "guard@%s:%s" % (self.key.rsplit("::", 1)[-1], arm["ln"]), e):
                        self.env.clear()
                        self.env.update(saved)
                        continue
                return self.eval(arm["body"])
            self.env.clear()
            self.env.update(saved)
        raise Abort("no match arm applies at %s (value %r)" % (self.where(e), pl.get()))

    def e_Loop(self, e, label=None):
        n = 0
        while True:
            n += 1
            if n > self.I.max_loop:
                raise Abort("loop bound exceeded at %s" % self.where(e))
            try:
                self.eval(e["body"])
            except BreakEx as ex:
                if ex.label is None or ex.label == label:
                    return ex.value if ex.value is not None else UNIT
                raise
            except ContinueEx as ex:
                if ex.label is None or ex.label == label:
                    continue
                raise

    def e_Break(self, e):
        v = self.eval(e["value"]) if e["value"] is not None else None
        raise BreakEx(e["label"], v)

    def e_Continue(self, e):
        raise ContinueEx(e["label"])

    def e_Return(self, e):
        v = self.eval(e["value"]) if e["value"] is not None else UNIT
        raise ReturnEx(v)

    def e_Assign(self, e):
        v = self.eval(e["rhs"])
        pl = self.place(e["lhs"])
        pl.set(v)
        self.I.emit("assign", self.describe_place(e["lhs"]), summary(v))
        return UNIT

    def e_AssignOp(self, e):
        from . import models
        pl = self.place(e["lhs"])
        r = self.eval(e["rhs"])
        op = e["op"].replace("Assign", "")
        pl.set(models.binop(self.I, op, pl.get(), r, e))
        return UNIT

    def describe_place(self, eid):
        e = self.exprs[eid]
        k = e["k"]
        if k in ("Scope",):
            return self.describe_place(e["value"])
        if k in ("VarRef", "UpvarRef"):
            return e.get("name", "?")
        if k == "Field":
            return "%s.%s" % (self.describe_place(e["lhs"]), e["name"])
        if k == "Deref":
            return self.describe_place(e["arg"])
        if k == "Borrow":
            return self.describe_place(e["arg"])
        return k

    def e_Call(self, e):
        fn = self.mono_fn(e)
        args = [self.eval(a) for a in e["args"]]
        if fn is None:
            f = self.eval(e["fun"])
            return self.I.call_value(f, args)
        return self.I.call_fn(fn, args, e, self)

    def e_Repeat(self, e):
        return self.I.top("array repeat expression")

    def e_Other(self, e):
        return self.I.top("unserialised expression kind: %s" % e.get("debug", "")[:80])

    def e_ConstParam(self, e):
        return Sym("constparam:%s" % e["name"], e["ty"])

    def e_StaticRef(self, e):
        return Sym("static:%s" % e["static"], e["ty"])


def const_value(val, e=None):
    """Evaluator value of a constant evaluated by the driver."""
    if val is None:
        return Sym("const:%s" % (e["const"] if e else "?"), e["ty"] if e else None)
    t = val["t"]
    if t == "char":
        return Char(val["v"])
    if t == "adt":
        return Adt(val["adt"], val["variant"], {f["name"]: const_value(f["val"], e) for f in val["fields"]})
    if t == "tuple":
        return Tup([const_value(f, e) for f in val["fields"]])
    if t == "bytes":
        return RList(list(val["v"]))
    return val["v"]


def _cv(c):
    if isinstance(c, dict):
        return repr(c.get("v"))
    return str(c)
