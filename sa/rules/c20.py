"""C20 — I/O faults during a walk are reported, isolated and never swallowed."""
import os

from ..teval import Adt, Tup, Ref, Place, Cell, Sym, PyFn, Top, Panicked, Closure, strip, some, none, ok, err, UNIT
from ..facts import AnchorMissing, Facts
from .. import build
from . import walkfam as W
from . import c13

EXPLANATION = (
    "Static decision that an error item cannot disappear or be altered on its way through wax: (nodrop) after drop "
    "elaboration no wax function drops a value whose type mentions WalkError / walkdir::Error outside unwinding, except "
    "the audited conversion, and (sink) no such value is moved into a library function outside an audited list of "
    "value-preserving ones (swallowing an error item - `Err(_) => continue`, `.ok()`, `flatten` - necessarily "
    "introduces one of the two); (forward) WalkTree::next, FilterEntry::feed, Not::feed and the glob walker closure "
    "turn an error item into the same error as filtrate with no verdict and no cancellation; (map) the conversion from "
    "walkdir's error keeps depth and path and distinguishes I/O errors from link cycles.  A positive-control fixture "
    "containing the forbidden constructs is analysed on every run and must be reported.  "
    "(source) both public walk routes - PathExt::walk_with_behavior on an unknown directory, Glob::new + Glob::walk_with_behavior for nine glob / base pairs - are evaluated end to end with the walkdir model; a call without a model (a probe of the file system) answers an unknown and both outcomes are explored: in every case the first next() asks walkdir, built on the walk root, so a fault at the root is reported by walkdir and cannot be pre-empted.")
RULES = "C20.nodrop (WHO), C20.sink (WHO), C20.forward (EFFECT+SIBLING), C20.map (TABLE+PROV), C20.source (EFFECT: every walk consults walkdir on its root, whatever unmodelled calls answer), C13.skip"

ERR_TYPES = ("walk::WalkError", "walkdir::Error")
ALLOWED_DROPS = {("<walk::WalkError as std::convert::From>::from", "walkdir::Error"):
                 "the conversion has copied depth, path and loop ancestor out of the borrowed error before it is dropped in the link-cycle arm"}
ALLOWED_SINKS = {
    "std::convert::Into::into": "conversion keeps the value",
    "std::convert::From::from": "conversion keeps the value",
    "std::result::Result::<T, E>::map_err": "maps the error, result still carries it",
    "std::result::Result::<T, E>::map": "maps the success value, an error is carried through",
    "std::option::Option::<T>::map": "maps the payload",
    "std::ops::Try::branch": "`?`: the value is returned as ControlFlow::Continue / Break, nothing is dropped",
    "std::ops::FromResidual::from_residual": "`?`: the residual (the error, converted with From) becomes the function's result",
    "std::result::Result::<T, E>::and_then": "the success value goes to a local closure (whose body is subject to nodrop), an error is carried through",
    "std::result::Result::<T, E>::or_else": "the error goes to a local closure (whose body is subject to nodrop)",
    "std::result::Result::<T, E>::map_or_else": "both sides go to local closures (whose bodies are subject to nodrop)",
    "std::result::Result::<T, E>::unwrap_or_else": "the error goes to a local closure (whose body is subject to nodrop)",
    "std::option::Option::<T>::and_then": "the payload goes to a local closure (whose body is subject to nodrop)",
    "std::option::Option::<T>::map_or_else": "the payload goes to a local closure (whose body is subject to nodrop)",
    "std::option::Option::<T>::ok_or": "the payload is carried into Ok",
    "std::option::Option::<T>::ok_or_else": "the payload is carried into Ok",
    "std::option::Option::<std::result::Result<T, E>>::transpose": "Option<Result> -> Result<Option>: nothing is dropped",
    "std::result::Result::<std::option::Option<T>, E>::transpose": "Result<Option> -> Option<Result>: nothing is dropped",
    "std::mem::replace": "the value is stored, the previous one returned",
    "std::mem::swap": "values are exchanged",
    "std::vec::Vec::<T, A>::push": "the value is stored",
    "std::collections::VecDeque::<T, A>::push_back": "the value is stored",
    "std::boxed::Box::<T>::new": "the value is boxed",
    "std::iter::once": "the value becomes the iterator's only item",
    "walkdir::Error::into_io_error": "moves the io::Error out of a walkdir error known to be an I/O error",
    "std::io::Error::new": "wraps the WalkError as the source of an io::Error",
}


def error_drops(F):
    out = []
    for it in F.items.values():
        m = F.mir(it)
        if not m:
            continue
        for b in m["blocks"]:
            if b["t"] == "Drop" and not b["cleanup"] and b.get("needs_drop", True) and any(t in b["pty"] for t in ERR_TYPES):
                out.append((it, b))
    return out


def error_sinks(F):
    out = []
    for it in F.items.values():
        for _i, b in F.mir_calls(it):
            if b["cleanup"]:
                continue
            fn = b.get("fn")
            for a, t in zip(b["args"], b.get("argtys", [])):
                if t.startswith("&") or t.startswith("fn(") or not any(x in t for x in ERR_TYPES):
                    continue
                if not a.startswith("move ") and not a.startswith("const "):
                    continue
                out.append((it, b, fn, t))
    return out


def run(ctx):
    R = ctx.report
    R.assume("walkdir reports each fault as one Err item naming the path and continues with the remaining entries")
    R.assume("Unix configuration")
    R.undecided("which entries survive a fault at a given position in a concrete tree (walkdir behaviour + pruning); "
                "decided: wax neither drops nor rewrites nor reorders an error item")
    for cfg in ctx.configs():
        if cfg == "none":
            continue  # the walk module is compiled out without the `walk` feature
        F = ctx.facts(cfg)
        rule_nodrop(F, R, cfg)
        rule_sink(F, R, cfg)
    F = ctx.facts()
    positive_control(R)
    c13.rule_feeds(F, R, "C20")
    c13.rule_skip(F, R)      # only a verdict on the entry just yielded may skip a directory (C13.skip)
    rule_next(F, R)
    rule_walker_err(F, R)
    rule_map(F, R)
    rule_source(F, R)


def find_walk_tree(v, depth=0):
    """The WalkTree value inside an iterator value (through adaptor structs, references and tuples)."""
    v = strip(v)
    if isinstance(v, Ref):
        return find_walk_tree(v.place.get(), depth + 1)
    if isinstance(v, Adt):
        if v.path == "walk::WalkTree":
            return v
        if depth < 8:
            for f in v.fields.values():
                r = find_walk_tree(f, depth + 1)
                if r is not None:
                    return r
    if isinstance(v, Tup) and depth < 8:
        for f in v.items:
            r = find_walk_tree(f, depth + 1)
            if r is not None:
                return r
    return None


def rule_source(F, R):
    """C20.source (EFFECT): every walk consults walkdir on its root.  A fault at the root of a walk (a dangling or
    re-entrant link, a path through a file, an unreadable directory) is reported by walkdir as the first item; a walk
    that decides by itself - in particular by probing the file system - not to consult walkdir swallows that item and,
    on a readable tree, yields nothing.  Both public routes are evaluated from their THIR with the walkdir model and
    an unbounded depth behaviour: PathExt::walk_with_behavior on an unknown directory, and Glob::new +
    Glob::walk_with_behavior for glob texts with a prefix of 0..2 components, rooted and with `..` (parser with the
    nom model, rule checker, invariant prefix, join, WalkTree construction).  Every call that has no model (a probe of
    the file system, say) answers an unknown and both outcomes are explored: in every explored case the first next()
    of the WalkTree inside the returned iterator must ask walkdir, built on the walk's root."""
    from ..teval import Interp, RList
    from .. import nommodel as N
    from . import pathmodel as PM
    nxt = F.find("<walk::WalkTree as std::iter::Iterator>::next")
    new = F.find("Glob::new", optional=True)
    gwalk = F.find("Glob::walk_with_behavior", optional=True)
    pw = F.find("<std::path::Path as walk::PathExt>::walk_with_behavior", optional=True)
    if new is None or gwalk is None or pw is None:
        R.anchor_missing("C20.source", "Glob::new / Glob::walk_with_behavior / PathExt::walk_with_behavior")
        return
    beh = Adt("walk::behavior::WalkBehavior", "WalkBehavior", {"link": Adt("walk::behavior::LinkBehavior", "ReadFile", {}),
                                                               "depth": Adt("walk::behavior::DepthBehavior", "Unbounded", {})})
    n = 0
    scenarios = [("path walk", None, None)] + [("glob walk of `%s` from `%s`" % (t, b), t, b) for t, b in (
        ("*", "base"), ("**", ""), ("a/*", "base"), ("a/b/**", "base"), ("a/b", "base"), ("/a/*", "base"), ("../a/*", "base"), ("a/*", "/abs"), ("{a,b}/*", "base"))]
    for name, text, base in scenarios:
        stubs = dict(N.stubs())
        stubs.update(PM.stubs())
        stubs.update(W.walkdir_stubs())
        stubs["rule::size"] = lambda I, a, fn, e: ok(UNIT)
        stubs["walk::glob::WalkProgram::compile"] = lambda I, a, fn, e: ok(RList([]))
        stubs["encode::compile"] = lambda I, a, fn, e: ok(Sym("program"))
        stubs["Glob::compile"] = lambda I, a, fn, e: ok(Sym("program"))
        I = Interp(F, stubs, fuel=3000000)
        where = (pw if text is None else gwalk).where()

        def run():
            if text is None:
                it_ = I.call_item(pw, [Ref(Place(Cell(Sym("root")))), beh], inst=False)
            else:
                g = strip(I.call_item(new, [text]))
                if not (isinstance(g, Adt) and g.variant == "Ok"):
                    I.emit("no-walk-tree", "Glob::new(%r) = %r" % (text, g))
                    return g
                it_ = I.call_item(gwalk, [Ref(Place(Cell(g.fields["0"]))), PM.from_text(base), beh], inst=False)
            wt = find_walk_tree(it_)
            if wt is None:
                I.emit("no-walk-tree", repr(strip(it_))[:200])
                return it_
            return I.call_item(nxt, [Ref(Place(Cell(wt)))])
        cases = I.explore(run)
        for c in cases:
            n += 1
            inst = "%s/%s" % (name, ",".join("%s=%s" % (d[0], d[3]) if len(d) > 3 else str(d) for d in c.decisions) or "always")
            if isinstance(c.result, (Top, Panicked)) or I.tops:
                R.fail("C20.source", inst, "constructing the walk is unanalysable / panics: %r %s" % (c.result, I.tops[:1]), where)
                continue
            news = [ev for ev in c.log if ev[0] == "walkdir.new"]
            asked = [ev for ev in c.log if ev[0] == "walkdir.next"]
            missing = [ev for ev in c.log if ev[0] == "no-walk-tree"]
            good = len(news) == 1 and len(asked) == 1 and not missing
            if good and text is None:
                good = "root" in news[0][1]
            R.check(good, "C20.source", inst, "the walk asks walkdir, built on its root, for its first item", where,
                    fail_msg="in the case [%s] the %s %s: a fault at the root of the walk is never reported (and a readable tree is not walked); "
                             "walkdir constructions %s, next() calls %d" % (
                                 "; ".join(str(d) for d in c.decisions) or "no condition", name,
                                 "returns an iterator without a WalkTree (%s)" % missing[0][1] if missing else "does not consult walkdir",
                                 [ev[1] for ev in news], len(asked)))
    R.floor("C20.source", "walk constructions explored", n, 10)



def rule_nodrop(F, R, cfg):
    drops = error_drops(F)
    R.count("mir_bodies_scanned", len(F.items))
    R.count("error_typed_drops", len(drops))
    for it, b in drops:
        ty = [t for t in ERR_TYPES if t in b["pty"]][0]
        key = (it.qname, ty)
        R.check(key in ALLOWED_DROPS and b["pty"] == ty, "C20.nodrop", "%s:%s" % (it.qname, b["pty"][:80]),
                "audited: " + ALLOWED_DROPS.get(key, ""), "%s:%s" % (it.where(), b["ln"]),
                fail_msg="%s drops a value of type %s (place %s) on a normal path: an error item is discarded instead of "
                         "being yielded" % (it.qname, b["pty"], b["place"]))
    if cfg == "default":
        R.floor("C20.nodrop", "audited conversion drop present", len(drops), 1)


def rule_sink(F, R, cfg):
    sinks = error_sinks(F)
    R.count("error_typed_moves_into_calls", len(sinks))
    n_ext = 0
    for it, b, fn, t in sinks:
        if fn is None:
            R.fail("C20.sink", "%s:indirect" % it.qname, "error-typed value moved into an indirect call", "%s:%s" % (it.where(), b["ln"]))
            continue
        if fn["local"]:
            # local callee: its own body is subject to nodrop / sink (monomorphic) or to C20.forward (generic filter code)
            continue
        n_ext += 1
        R.check(fn["path"] in ALLOWED_SINKS, "C20.sink", "%s -> %s" % (it.qname, fn["path"]),
                "audited: " + ALLOWED_SINKS.get(fn["path"], ""), "%s:%s" % (it.where(), b["ln"]),
                fail_msg="%s moves a value of type %s into %s, which is not in the audited list of value-preserving "
                         "functions: the error can be discarded there" % (it.qname, t[:100], fn["path"]))
    if cfg == "default":
        R.floor("C20.sink", "external moves of error-typed values", n_ext, 10)


def positive_control(R):
    fx = os.path.join(build.VERIF, "selftest", "fixtures", "walkerrors")
    try:
        path, _info = build.extract("default", repo=fx, tag="fixture-walkerrors")
    except RuntimeError as e:
        R.fail("C20.control", "fixture", "positive-control fixture does not build: %s" % str(e)[-300:])
        return
    FX = Facts(path)
    d = [(it.qname, b["pty"]) for it, b in error_drops(FX)]
    R.check(any(q == "walk::swallow" for q, _t in d), "C20.control", "nodrop fires on fixture walk::swallow",
            "the rule reports `Err(_) => continue` in the fixture", "selftest/fixtures/walkerrors/src/lib.rs",
            fail_msg="positive control failed: the drop rule did not report the fixture's swallowed error (found %r)" % d)
    s = [(it.qname, fn["path"] if fn else None) for it, _b, fn, _t in error_sinks(FX)]
    R.check(("walk::sink", "std::result::Result::<T, E>::ok") in s, "C20.control", "sink fires on fixture walk::sink",
            "the rule reports `.ok()` in the fixture", "selftest/fixtures/walkerrors/src/lib.rs",
            fail_msg="positive control failed: the sink rule did not report the fixture's `.ok()` (found %r)" % s)


def rule_next(F, R):
    item = F.find("<walk::WalkTree as std::iter::Iterator>::next")
    stubs = W.walkdir_stubs(on_next=lambda I, f: some(err(Sym("error"))))
    stubs["<walk::WalkError as std::convert::From>::from"] = lambda I, a, fn, e: Sym("WalkError::from(%s)" % c13._n(a[0]))
    I = W.new_interp(F, stubs)

    def run():
        me = W.walk_tree(F, I, is_dir=True)
        return I.call_item(item, [Ref(Place(Cell(me)))])
    cases = I.explore(run)
    for c in cases:
        inner = c13._unwrap(c.result, ["Some", "Err"])
        R.check(isinstance(inner, Sym) and inner.name == "WalkError::from(error)", "C20.forward", "WalkTree::next/err",
                "an Err from walkdir is yielded as Err(WalkError::from(error))", item.where(),
                fail_msg="WalkTree::next turns a walkdir error into %r" % (c.result,))
    # a fault is isolated: reporting it skips nothing (walkdir goes on with the remaining entries by itself)
    skips = [c for c in cases if any(ev[0] == "ext" and ev[1] == c13.SKIP for ev in c.log)]
    R.check(not skips, "C20.forward", "WalkTree::next/err/no-skip", "an error item does not make the walk skip a directory", item.where(),
            fail_msg="WalkTree::next calls walkdir's skip_current_dir when it reports an error (%s): the rest of the directory that was being read - "
                     "later siblings of a dangling link, and the faults inside them - is lost" % ", ".join(
                         "%s=%s" % (d[0], d[3]) for d in (skips[0].decisions if skips else [])))


def upvars(F, item):
    out = {}
    for e in F.thir(item)["exprs"]:
        if e["k"] == "UpvarRef":
            out[e["name"]] = e["var"]
    return out


def walker_closure(F):
    parent = F.find("walk::glob::GlobWalker::walk_with_behavior")
    cl = [c for c in F.children.get(parent.key, []) if c.kind == "Closure"]
    if len(cl) != 1:
        raise AnchorMissing("the filter_map_tree closure of GlobWalker::walk_with_behavior (%d closures)" % len(cl))
    return cl[0]


def rule_walker_err(F, R):
    cl = walker_closure(F)
    uv = upvars(F, cl)
    I = W.new_interp(F)

    def run():
        env = {}
        for name, var in uv.items():
            env[var] = Cell(Sym(name))
        clo = Closure(cl.key, env)
        sep = W.separation("filtrate", err(Sym("error")))
        return I.call_closure(clo, [c13.cancellation(), sep])
    for c in I.explore(run):
        state, payload = W.classify(c.result)
        e = strip(payload.fields.get("0")) if isinstance(payload, Adt) and payload.variant == "Err" else None
        cancels = W.cancel_events(c)
        rx = [ev for ev in c.log if ev[0].startswith("regex.")]
        good = state == "filtrate" and isinstance(e, Sym) and e.name == "error" and not cancels and not rx
        R.check(good, "C20.forward", "GlobWalker closure/err",
                "an error item passes the glob walker as the same error, as filtrate, unmatched and uncancelled", cl.where(),
                fail_msg="the glob walker turns an error item into %r (cancellations %r, regex calls %r)" % (c.result, cancels, rx))


def rule_map(F, R):
    item = F.find("<walk::WalkError as std::convert::From>::from")
    for has_io in (True, False):
        stubs = {
            "walkdir::Error::depth": lambda I, a, fn, e: Sym("depth(error)"),
            "walkdir::Error::path": lambda I, a, fn, e: some(Sym("path(error)")),
            "walkdir::Error::io_error": lambda I, a, fn, e, has_io=has_io: some(Sym("io")) if has_io else none(),
            "walkdir::Error::into_io_error": lambda I, a, fn, e: some(Sym("into_io_error(error)")),
            "walkdir::Error::loop_ancestor": lambda I, a, fn, e: some(Sym("loop_ancestor(error)")),
        }
        I = W.new_interp(F, stubs)
        for c in I.explore(lambda: I.call_item(item, [Sym("error")])):
            res = strip(c.result)
            inst = "io_error=%s" % ("some" if has_io else "none")
            if not isinstance(res, Adt) or isinstance(c.result, (Top, Panicked)):
                R.fail("C20.map", inst, "unanalysable conversion: %r" % (c.result,), item.where())
                continue
            depth = strip(res.fields.get("depth"))
            kind = strip(res.fields.get("kind"))
            okd = isinstance(depth, Sym) and depth.name == "depth(error)"
            if has_io:
                p = strip(kind.fields.get("path")) if isinstance(kind, Adt) else None
                pv = strip(p.fields.get("0")) if isinstance(p, Adt) and p.variant == "Some" else None
                ev = strip(kind.fields.get("error")) if isinstance(kind, Adt) else None
                good = okd and isinstance(kind, Adt) and kind.variant == "Io" and isinstance(pv, Sym) and pv.name == "path(error)" \
                    and isinstance(ev, Sym) and ev.name == "into_io_error(error)"
                want = "WalkError{depth, Io{path: error.path(), error: error.into_io_error()}}"
            else:
                root = strip(kind.fields.get("root")) if isinstance(kind, Adt) else None
                leaf = strip(kind.fields.get("leaf")) if isinstance(kind, Adt) else None
                good = okd and isinstance(kind, Adt) and kind.variant == "LinkCycle" and isinstance(root, Sym) and \
                    root.name == "loop_ancestor(error)" and isinstance(leaf, Sym) and leaf.name == "path(error)"
                want = "WalkError{depth, LinkCycle{root: error.loop_ancestor(), leaf: error.path()}}"
            R.check(good, "C20.map", inst, want, item.where(),
                    fail_msg="conversion of a walkdir error with io_error()=%s gives %r, expected %s" % (
                        "Some" if has_io else "None", res, want))
