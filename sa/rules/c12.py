"""C12 — Root and semantic-literal queries agree with what the pattern matches."""
import itertools

from ..teval import Adt, Tup, Ref, Place, Cell, Sym, PyFn, RList, Top, Panicked, strip, some, none, UNIT, Interp
from ..facts import AnchorMissing
from .. import tabulate, models
from . import tokens as T
from . import c09

EXPLANATION = (
    "(sound) on the expression catalogue (sa/rules/exhaust.py: every top-level sequence of up to two / three segments around one alternation or repetition whose sub-expressions have up to two segments, two branch tokens in one sequence, a branch nested in a repetition; built as the parser builds them, kept when the rule checker accepts them) and on the same expressions behind a leading separator (a rooted tree wildcard when they begin with `**`), a verdict has_root = always implies that every path the emitted program matches begins with a separator, and no buildable expression reports `sometimes`; for the shapes of the catalogue.  For all inputs, the pieces the queries are made of: "
    "Static decision of the pieces the root and semantic-literal queries are made of: (rooting) the set of rooting "
    "leaves is exactly {separator, rooted tree wildcard}; the fold combines the terms of a concatenation with `or` over "
    "its first token only, of an alternation with `certainty` over all branches, and weakens an optional repetition to "
    "`sometimes`; (begin) every rooting leaf emitted by the encoder at an initial position has a language inside "
    "SEP.Sigma* (shared with the C01 emission table); (semantic) a literal sequence is semantic iff its text is `.` or "
    "`..`, and Glob::has_semantic_literals is `any` over Token::literals.  That a built glob never reports `sometimes` "
    "follows from the rule checker (C06) and is reported there.")
RULES = "C12.sound (TABLE on a catalogue: verdict vs. language), C12.rooting (TABLE), C12.begin (EMIT), C12.semantic (TABLE+EFFECT)"

WHEN = "query::When"


def run(ctx):
    F = ctx.facts()
    R = ctx.report
    R.assume("regex semantics; the parser delivers the tokens the expression denotes")
    R.undecided("`Token::literals` / `components` (iterator pipelines over the concatenation: batching, peeking_take_while) "
                "are not tabulated; that a built glob is never `sometimes` rooted is C06's clause")
    rule_rooting(F, R)
    rule_starting(F, R, "C12.rooting")
    rule_semantic(F, R)
    from . import encoder
    encoder.rule_begin(F, R)
    from . import exhaust
    exhaust.report_query(F, R, "C12.sound", ctx.tier, "root", 10000, 1500)


def rule_rooting(F, R):
    I = Interp(F)
    it = F.find("token::LeafKind::is_rooting")
    want = {"sep": True, "tree-rooted": True}
    for s in T.LEAF_SHAPES + ["lit-ci", "class-neg"]:
        res = strip(tabulate.single(I.explore(lambda: I.call_item(it, [Ref(Place(Cell(T.leaf_kind(s))))]))))
        w = want.get(s, False)
        R.check(res is w, "C12.rooting", "is_rooting/" + s, str(w), it.where(),
                fail_msg="LeafKind::is_rooting(%s) = %r, expected %s (only `/` and a rooted `**` begin at the root)" % (s, res, w))
    term = F.find("<token::Token<'t, A>::has_root::IsRooting as token::walk::Fold>::term")
    for s, w in (("sep", "Always"), ("tree-rooted", "Always"), ("tree", "Never"), ("lit", "Never"), ("zom", "Never")):
        res = strip(tabulate.single(I.explore(lambda: I.call_item(term, [Ref(Place(Cell(Sym("self")))), Ref(Place(Cell(T.leaf_kind(s))))]))))
        R.check(isinstance(res, Adt) and res.variant == w, "C12.rooting", "term/" + s, w, term.where(),
                fail_msg="the rooting term of %s is %r, expected %s" % (s, res, w))
    fold = F.find("<token::Token<'t, A>::has_root::IsRooting as token::walk::Fold>::fold")
    insts = F.instances_of(fold)
    R.floor("C12.rooting", "IsRooting::fold instances", len(insts), 1)
    inst = insts[0]
    W = ["Always", "Sometimes", "Never"]
    child = lambda i: T.leaf("lit", "c%d" % i)
    branches = {
        "alternation": (T.branch("alt", [child(0), child(1)]), c09.REF_CERTAINTY, False),
        "concatenation": (T.branch("cat", [child(0), child(1)]), c09.REF_OR, False),
        "repetition(1,)": (T.branch("rep", [child(0)], lower=1, upper=None), c09.REF_OR, False),
        "repetition(2,3)": (T.branch("rep", [child(0)], lower=2, upper=3), c09.REF_OR, False),
        "repetition(0,)": (T.branch("rep", [child(0)], lower=0, upper=None), c09.REF_OR, True),
        "repetition(0,3)": (T.branch("rep", [child(0)], lower=0, upper=3), c09.REF_OR, True),
    }
    n = 0
    for bname, (tok, op, optional) in branches.items():
        bk = strip(strip(tok.fields["topology"]).fields["0"])
        for terms in list(itertools.product(W, repeat=1)) + list(itertools.product(W, repeat=2)):
            if bname.startswith("repetition") and len(terms) != 1:
                continue
            res = strip(tabulate.single(I.explore(lambda: I.call_item(
                fold, [Ref(Place(Cell(Sym("self")))), Ref(Place(Cell(bk))), RList([Adt(WHEN, t, {}) for t in terms])], inst=inst))))
            acc = terms[0]
            for t in terms[1:]:
                acc = op(acc, t)
            if optional:
                acc = c09.REF_AND(acc, "Sometimes")
            v = strip(res.fields.get("0")) if isinstance(res, Adt) and res.variant == "Some" else None
            n += 1
            R.check(isinstance(v, Adt) and v.variant == acc, "C12.rooting", "fold/%s/%s" % (bname, ",".join(terms)), acc, fold.where(),
                    fail_msg="has_root fold of %s over %s gives %r, expected %s (`always` must mean every branch / every "
                             "repetition count is rooted)" % (bname, list(terms), res, acc))
    R.floor("C12.rooting", "fold cells", n, 30)


def select(F, it, inst, toks, kind):
    """Children selected by a sequencer for a branch of `kind` with the given child tokens: list of tags."""
    I = Interp(F)
    tok = T.branch(kind, toks) if kind != "rep" else T.branch("rep", toks)
    bk = strip(strip(tok.fields["topology"]).fields["0"])
    parent = Adt("token::walk::Parent", "Parent", {"0": Ref(Place(Cell(bk)))})

    def run():
        res = I.call_item(it, [Ref(Place(Cell(Sym("self")))), parent], inst=inst)
        return RList(models.drain(I, models._as_iter(I, res)))
    res = tabulate.single(I.explore(run))
    if not isinstance(res, RList):
        return None
    out = []
    for ch in res.items:
        c = strip(ch)
        out.append(getattr(strip(c.fields.get("0")), "tag", "?") if isinstance(c, Adt) else "?")
    return out


def rule_starting(F, R, rule):
    """Starting selects the first child of conjunctive branches and every child of disjunctive ones;
    Ending the last / every child (shared with C06.reach)."""
    for seq, pick in (("Starting", lambda tags: tags[:1]), ("Ending", lambda tags: tags[-1:])):
        it = F.find("<token::walk::%s as token::walk::Sequencer>::enqueue" % seq)
        insts = F.instances_of(it)
        R.floor(rule, "%s::enqueue instances" % seq, len(insts), 1)
        inst = insts[0]
        for n in (1, 2, 3):
            toks = [T.leaf("lit", "c%d" % i) for i in range(n)]
            tags = [t.tag for t in toks]
            got = select(F, it, inst, toks, "cat")
            R.check(got == pick(tags), rule, "%s/concatenation/%d" % (seq, n), "selects %s" % pick(tags), it.where(),
                    fail_msg="%s over a concatenation of %d tokens selects %r, expected %r" % (seq, n, got, pick(tags)))
            got = select(F, it, inst, toks, "alt")
            R.check(got is not None and sorted(got) == sorted(tags), rule, "%s/alternation/%d" % (seq, n), "selects every branch", it.where(),
                    fail_msg="%s over an alternation of %d branches selects %r, expected all of %r (a branch that is not "
                             "inspected can root the expression or put a boundary next to a neighbour unnoticed)" % (seq, n, got, tags))
        got = select(F, it, inst, [T.leaf("lit", "c0")], "rep")
        R.check(got == ["lit:c0"], rule, "%s/repetition" % seq, "selects the body", it.where(),
                fail_msg="%s over a repetition selects %r" % (seq, got))


def rule_semantic(F, R):
    I = Interp(F)
    it = F.find("token::LiteralSequence::is_semantic_literal")
    lit = lambda s: Ref(Place(Cell(Adt("token::Literal", "Literal", {"text": s, "is_case_insensitive": False}))))
    cases = {".": True, "..": True, "...": False, "a": False, "": False, ".a": False, "a.": False}
    for text, want in cases.items():
        seq = Adt("token::LiteralSequence", "LiteralSequence", {"0": RList([lit(text)])})
        res = strip(tabulate.single(I.explore(lambda: I.call_item(it, [Ref(Place(Cell(seq)))]))))
        R.check(res is want, "C12.semantic", "is_semantic_literal(%r)" % text, str(want), it.where(),
                fail_msg="a component spelled %r is judged semantic=%r, expected %s" % (text, res, want))
    for parts, want in ((["." , "."], True), ([".", "a"], False), (["", "."], True)):
        seq = Adt("token::LiteralSequence", "LiteralSequence", {"0": RList([lit(p) for p in parts])})
        res = strip(tabulate.single(I.explore(lambda: I.call_item(it, [Ref(Place(Cell(seq)))]))))
        R.check(res is want, "C12.semantic", "is_semantic_literal(%r)" % (parts,), str(want), it.where(),
                fail_msg="a component made of literals %r is judged semantic=%r, expected %s" % (parts, res, want))
    # Glob::has_semantic_literals = any over Token::literals
    g = F.find("Glob::has_semantic_literals")
    for flags, want in (([], False), ([False], False), ([False, True], True), ([True], True)):
        stubs = {"token::Token::literals": lambda I2, a, fn, e, flags=flags: models.iter_of(
            I2, RList([Tup([Sym("component%d" % i), Adt("LS", "LS", {"flag": f})]) for i, f in enumerate(flags)]), by_ref=False),
                 "token::LiteralSequence::is_semantic_literal": lambda I2, a, fn, e: strip(strip(a[0]).fields["flag"])}
        I2 = Interp(F, stubs)
        me = Adt("Glob", "Glob", {"tree": Sym("tree"), "program": Sym("program")})
        res = strip(tabulate.single(I2.explore(lambda: I2.call_item(g, [Ref(Place(Cell(me)))]))))
        R.check(res is want, "C12.semantic", "has_semantic_literals%r" % (flags,), str(want), g.where(),
                fail_msg="with literal sequences flagged %r Glob::has_semantic_literals = %r, expected %s" % (flags, res, want))
