"""C12 — Root and semantic-literal queries agree with what the pattern matches."""
import itertools

from ..teval import Adt, Tup, Ref, Place, Cell, Sym, PyFn, RList, Top, Panicked, strip, some, none, UNIT, Interp
from ..facts import AnchorMissing
from .. import tabulate, models
from . import tokens as T
from . import c09

EXPLANATION = (
    "(sound) on the expression catalogue (sa/rules/exhaust.py: every top-level sequence of up to two / three segments around one alternation or repetition whose sub-expressions have up to two segments, two branch tokens in one sequence, a branch nested in a repetition; built as the parser builds them, kept when the rule checker accepts them) and on the same expressions behind a leading separator (a rooted tree wildcard when they begin with `**`), a verdict has_root = always implies that every path the emitted program matches begins with a separator, and no buildable expression reports `sometimes`; for the shapes of the catalogue.  For all inputs, the pieces the queries are made of: "
    "Static decision of the pieces the root and semantic-literal queries are made of: (rooting) the set of rooting "
    "leaves is exactly {separator, rooted tree wildcard}; the fold combines the terms of a concatenation with `or` over "
    "its first token only, of an alternation with `certainty` over all branches, and weakens an optional repetition to "
    "`sometimes`; (begin) every rooting leaf emitted by the encoder at an initial position has a language inside "
    "SEP.Sigma* (shared with the C01 emission table); (semantic) a literal sequence is semantic iff its text is `.` or "
    "`..`, and (dots) on a catalogue of buildable expressions with `.` / `..` at every position (after / before a separator or tree wildcard, at either end, inside alternations and repetitions two levels deep) the public query Glob::has_semantic_literals, evaluated on a glob holding the tree (std::path calls through the abstract path model), answers true whenever a component delimited on both sides is spelled `.` or `..`.  That a built glob never reports `sometimes` "
    "follows from the rule checker (C06) and is reported there.  "
    "(text) on the ~3 700 buildable texts of the C06.text catalogue Token::has_root never answers `sometimes` (one known family: rooting through a nested group).")
RULES = "C12.sound (TABLE on a catalogue: verdict vs. language), C12.rooting (TABLE), C12.begin (EMIT), C12.semantic (TABLE), C12.dots (TABLE on a catalogue: the public query Glob::has_semantic_literals vs. delimited dot components), C12.text (TABLE on a text catalogue: no buildable text reports `sometimes`)"

WHEN = "query::When"


def run(ctx):
    F = ctx.facts()
    R = ctx.report
    R.assume("regex semantics; the parser delivers the tokens the expression denotes (decided on the text catalogue of C01.parse)")
    R.undecided("`Token::literals` / `components` beyond the shapes of the dot catalogue (C12.dots); that a built glob is never "
                "`sometimes` rooted is C06's clause")
    rule_rooting(F, R)
    rule_starting(F, R, "C12.rooting")
    rule_semantic(F, R)
    rule_dots(F, R, ctx.tier)
    from . import encoder
    encoder.rule_begin(F, R)
    from . import exhaust
    exhaust.report_query(F, R, "C12.sound", ctx.tier, "root", 10000, 1500)
    from . import parsecat
    parsecat.report_sometimes(F, R, "C12.text")


def rule_rooting(F, R):
    I = Interp(F)
    it = F.find("token::LeafKind::is_rooting")
    want = {"sep": True, "tree-rooted": True}
    for s in T.LEAF_SHAPES + ["lit-ci", "class-neg"]:
        res = strip(tabulate.single(I.explore(lambda: I.call_item(it, [Ref(Place(Cell(T.leaf_kind(s))))]))))
        w = want.get(s, False)
        R.check(res is w, "C12.rooting", "is_rooting/" + s, str(w), it.where(),
                fail_msg="LeafKind::is_rooting(%s) = %r, expected %s (only `/` and a rooted `**` begin at the root)" % (s, res, w))
    term = F.find("<token::Token<'t, A>::has_root::IsRooting as token::walk::Fold>::term")
    for s, w in (("sep", "Always"), ("tree-rooted", "Always"), ("tree", "Never"), ("lit", "Never"), ("zom", "Never")):
        res = strip(tabulate.single(I.explore(lambda: I.call_item(term, [Ref(Place(Cell(Sym("self")))), Ref(Place(Cell(T.leaf_kind(s))))]))))
        R.check(isinstance(res, Adt) and res.variant == w, "C12.rooting", "term/" + s, w, term.where(),
                fail_msg="the rooting term of %s is %r, expected %s" % (s, res, w))
    fold = F.find("<token::Token<'t, A>::has_root::IsRooting as token::walk::Fold>::fold")
    insts = F.instances_of(fold)
    R.floor("C12.rooting", "IsRooting::fold instances", len(insts), 1)
    inst = insts[0]
    W = ["Always", "Sometimes", "Never"]
    child = lambda i: T.leaf("lit", "c%d" % i)
    branches = {
        "alternation": (T.branch("alt", [child(0), child(1)]), c09.REF_CERTAINTY, False),
        "concatenation": (T.branch("cat", [child(0), child(1)]), c09.REF_OR, False),
        "repetition(1,)": (T.branch("rep", [child(0)], lower=1, upper=None), c09.REF_OR, False),
        "repetition(2,3)": (T.branch("rep", [child(0)], lower=2, upper=3), c09.REF_OR, False),
        "repetition(0,)": (T.branch("rep", [child(0)], lower=0, upper=None), c09.REF_OR, True),
        "repetition(0,3)": (T.branch("rep", [child(0)], lower=0, upper=3), c09.REF_OR, True),
    }
    n = 0
    for bname, (tok, op, optional) in branches.items():
        bk = strip(strip(tok.fields["topology"]).fields["0"])
        for terms in list(itertools.product(W, repeat=1)) + list(itertools.product(W, repeat=2)):
            if bname.startswith("repetition") and len(terms) != 1:
                continue
            res = strip(tabulate.single(I.explore(lambda: I.call_item(
                fold, [Ref(Place(Cell(Sym("self")))), Ref(Place(Cell(bk))), RList([Adt(WHEN, t, {}) for t in terms])], inst=inst))))
            acc = terms[0]
            for t in terms[1:]:
                acc = op(acc, t)
            if optional:
                acc = c09.REF_AND(acc, "Sometimes")
            v = strip(res.fields.get("0")) if isinstance(res, Adt) and res.variant == "Some" else None
            n += 1
            R.check(isinstance(v, Adt) and v.variant == acc, "C12.rooting", "fold/%s/%s" % (bname, ",".join(terms)), acc, fold.where(),
                    fail_msg="has_root fold of %s over %s gives %r, expected %s (`always` must mean every branch / every "
                             "repetition count is rooted)" % (bname, list(terms), res, acc))
    R.floor("C12.rooting", "fold cells", n, 30)


def select(F, it, inst, toks, kind):
    """Children selected by a sequencer for a branch of `kind` with the given child tokens: list of tags."""
    I = Interp(F)
    tok = T.branch(kind, toks) if kind != "rep" else T.branch("rep", toks)
    bk = strip(strip(tok.fields["topology"]).fields["0"])
    parent = Adt("token::walk::Parent", "Parent", {"0": Ref(Place(Cell(bk)))})

    def run():
        res = I.call_item(it, [Ref(Place(Cell(Sym("self")))), parent], inst=inst)
        return RList(models.drain(I, models._as_iter(I, res)))
    res = tabulate.single(I.explore(run))
    if not isinstance(res, RList):
        return None
    out = []
    for ch in res.items:
        c = strip(ch)
        out.append(getattr(strip(c.fields.get("0")), "tag", "?") if isinstance(c, Adt) else "?")
    return out


def rule_starting(F, R, rule):
    """Starting selects the first child of conjunctive branches and every child of disjunctive ones;
    Ending the last / every child (shared with C06.reach)."""
    for seq, pick in (("Starting", lambda tags: tags[:1]), ("Ending", lambda tags: tags[-1:])):
        it = F.find("<token::walk::%s as token::walk::Sequencer>::enqueue" % seq)
        insts = F.instances_of(it)
        R.floor(rule, "%s::enqueue instances" % seq, len(insts), 1)
        inst = insts[0]
        for n in (1, 2, 3):
            toks = [T.leaf("lit", "c%d" % i) for i in range(n)]
            tags = [t.tag for t in toks]
            got = select(F, it, inst, toks, "cat")
            R.check(got == pick(tags), rule, "%s/concatenation/%d" % (seq, n), "selects %s" % pick(tags), it.where(),
                    fail_msg="%s over a concatenation of %d tokens selects %r, expected %r" % (seq, n, got, pick(tags)))
            got = select(F, it, inst, toks, "alt")
            R.check(got is not None and sorted(got) == sorted(tags), rule, "%s/alternation/%d" % (seq, n), "selects every branch", it.where(),
                    fail_msg="%s over an alternation of %d branches selects %r, expected all of %r (a branch that is not "
                             "inspected can root the expression or put a boundary next to a neighbour unnoticed)" % (seq, n, got, tags))
        got = select(F, it, inst, [T.leaf("lit", "c0")], "rep")
        R.check(got == ["lit:c0"], rule, "%s/repetition" % seq, "selects the body", it.where(),
                fail_msg="%s over a repetition selects %r" % (seq, got))


def rule_semantic(F, R):
    I = Interp(F)
    it = F.find("token::LiteralSequence::is_semantic_literal")
    lit = lambda s: Ref(Place(Cell(Adt("token::Literal", "Literal", {"text": s, "is_case_insensitive": False}))))
    cases = {".": True, "..": True, "...": False, "a": False, "": False, ".a": False, "a.": False}
    for text, want in cases.items():
        seq = Adt("token::LiteralSequence", "LiteralSequence", {"0": RList([lit(text)])})
        res = strip(tabulate.single(I.explore(lambda: I.call_item(it, [Ref(Place(Cell(seq)))]))))
        R.check(res is want, "C12.semantic", "is_semantic_literal(%r)" % text, str(want), it.where(),
                fail_msg="a component spelled %r is judged semantic=%r, expected %s" % (text, res, want))
    for parts, want in ((["." , "."], True), ([".", "a"], False), (["", "."], True)):
        seq = Adt("token::LiteralSequence", "LiteralSequence", {"0": RList([lit(p) for p in parts])})
        res = strip(tabulate.single(I.explore(lambda: I.call_item(it, [Ref(Place(Cell(seq)))]))))
        R.check(res is want, "C12.semantic", "is_semantic_literal(%r)" % (parts,), str(want), it.where(),
                fail_msg="a component made of literals %r is judged semantic=%r, expected %s" % (parts, res, want))
    # (that Glob::has_semantic_literals reports them is decided on the public query itself by C12.dots; a rule that
    # pinned it to `any` over Token::literals was removed: it alarmed on any other correct route to the answer)


# ---- C12.dots: `.` / `..` components anywhere in a buildable expression are reported ---------------------------------

def _dot_pieces():
    """Sub-expressions (token recipes) for branch bodies: 'a', '..', '.', '*' are atoms, '/' a separator, '**' a tree
    wildcard (which stands for the separators around it, as the parser builds it)."""
    return [["a"], [".."], ["."], ["*"], ["a", "/", ".."], ["..", "/", "a"], ["a", "**", ".."], ["**", ".."], ["..", "**"],
            ["a", "."], [".", "*"], ["a", "/", ".", "/", "a"], ["a", "**", ".", "/", "*"]]


def _dot_catalogue(tier):
    """(text, recipe) pairs; a recipe is a nested list: atoms as above, ("alt", [recipes]), ("rep", recipe, lower, upper)."""
    S = _dot_pieces()
    plain = [["a"], [".."], ["."], ["*"], [".", "."], ["a", "."]]
    branches = []
    for i, s1 in enumerate(S):
        for s2 in S[:4] if tier != "thorough" else S:
            if s1 != s2:
                branches.append([("alt", [s1, s2])])
    for s in S:
        branches.append([("rep", s, 1, None)])
        branches.append([("rep", s + ["/"], 1, None)])
        branches.append([("rep", s + ["/"], 2, 3)])
        branches.append([("rep", ["/"] + s, 1, None)])
        branches.append([("rep", [("alt", [s, ["a"]])], 1, 2)])           # an alternation inside a repetition
        branches.append([("alt", [[("rep", s + ["/"], 1, None), "a"], ["a"]])])   # a repetition inside an alternation
        branches.append([("alt", [[("alt", [s, ["a"]])], ["*"]])])          # an alternation inside an alternation
    comps = plain + branches
    out = []
    seen = set()

    def emit(seq):
        key = repr(seq)
        if key not in seen:
            seen.add(key)
            out.append(seq)
    joiners = ["/", "**"]
    leads = [[], ["/"], ["**"]]
    trails = [[], ["/"], ["**"]]
    for c in comps:
        for l in leads:
            for t in trails:
                emit(l + c + t)
    small = plain[:4]
    for c in comps:
        for p in small:
            for j in joiners:
                for l in leads:
                    for t in (trails if (tier == "thorough" or c in plain) else [[]]):
                        emit(l + c + [j] + p + t)
                        emit(l + p + [j] + c + t)
    if True:
        for c in (comps if tier == "thorough" else plain + branches[::7]):
            for p, q in itertools.product(small[:3], repeat=2):
                for j1, j2 in itertools.product(joiners, repeat=2):
                    emit(p + [j1] + c + [j2] + q)
    return out


def _dot_text(recipe):
    out = ""
    for x in recipe:
        if isinstance(x, tuple) and x[0] == "alt":
            out += "{" + ",".join(_dot_text(b) for b in x[1]) + "}"
        elif isinstance(x, tuple) and x[0] == "rep":
            out += "<" + _dot_text(x[1]) + ":%d,%s>" % (x[2], "" if x[3] is None else x[3])
        elif x == "**":
            out += "/**/"
        else:
            out += x
    return out


def _dot_tokens(recipe, top=True):
    from . import exhaust
    toks = []
    for i, x in enumerate(recipe):
        if isinstance(x, tuple) and x[0] == "alt":
            toks.append(T.branch("alt", [T.branch("cat", _dot_tokens(b, False)) for b in x[1]]))
        elif isinstance(x, tuple) and x[0] == "rep":
            toks.append(T.branch("rep", [T.branch("cat", _dot_tokens(x[1], False))], "r", x[2], x[3]))
        elif x == "/":
            toks.append(T.leaf("sep", "s"))
        elif x == "**":
            toks.append(T.leaf("tree-rooted" if (top and i == 0 and False) else "tree", "t"))
        elif x == "*":
            toks.append(T.leaf("zom", "z"))
        else:
            toks.append(exhaust.lit(x))
    return toks


def _dot_reference(recipe, lb=True, rb=True):
    """True when some component of the expression that is delimited by separators, tree wildcards or the ends of the
    expression on both sides (through the branch tokens it is nested in) is spelled only with literals whose text is
    `.` or `..`.  An under-approximation of the property's clause (components glued to other tokens are left out), so a
    `True` here must be reported."""
    n = len(recipe)
    i = 0
    while i < n:
        if recipe[i] in ("/", "**"):
            i += 1
            continue
        s = i
        while i < n and recipe[i] not in ("/", "**"):
            i += 1
        e = i - 1
        run = recipe[s:e + 1]
        left = lb if s == 0 else True
        right = rb if e == n - 1 else True
        if all(isinstance(x, str) for x in run):
            if "".join(run) in (".", "..") and left and right:
                return True
            continue
        for j, x in enumerate(run):
            if not isinstance(x, tuple):
                continue
            cl = left if j == 0 else False
            cr = right if j == len(run) - 1 else False
            if x[0] == "alt":
                if any(_dot_reference(b, cl, cr) for b in x[1]):
                    return True
            else:
                body = x[1]
                # the first copy is delimited on the left by the context, the last on the right; one copy is both when
                # a single repetition is allowed, otherwise the neighbouring copy must supply the delimiter
                single = x[2] <= 1
                bl = cl and (single or (body and body[-1] in ("/", "**")))
                br = cr and (single or (body and body[0] in ("/", "**")))
                if _dot_reference(body, bool(bl), bool(br)):
                    return True
    return False


def _dot_job(args):
    J, lits, sem, recipe = _DOT_STATE["J"], _DOT_STATE["lits"], _DOT_STATE["sem"], args
    from . import exhaust
    F = J.F
    tree = J.tree(_dot_tokens(recipe))
    try:
        acc = J.accepted(tree)
    except Exception as ex:          # noqa
        acc = None
    if acc is not True:
        return (_dot_text(recipe), "rejected" if acc is False else "undecided", None, None)
    # the public query itself, on a glob holding this tree (whatever route it takes to its answer: Token::literals, the
    # invariant text, std::path components - the latter through the abstract path model)
    from . import pathmodel as PM
    pub = _DOT_STATE["pub"]
    ck = F.adt("rule::Checked")
    inner = ck["variants"][0]["fields"][0]["name"] if ck and len(ck["variants"][0]["fields"]) == 1 else "inner"
    me = Adt("Glob", "Glob", {"tree": Adt("rule::Checked", "Checked", {inner: Adt("token::Tokenized", "Tokenized", {
        "expression": _dot_text(recipe), "token": tree})}), "program": Sym("program")})
    I = Interp(F, PM.stubs())
    cases = I.explore(lambda: I.call_item(pub, [Ref(Place(Cell(me)))]))
    got = None
    if len(cases) == 1 and not I.tops and isinstance(strip(cases[0].result), bool):
        got = strip(cases[0].result)
    return (_dot_text(recipe), "accepted", got, _dot_reference(recipe))


_DOT_STATE = {}


def rule_dots(F, R, tier):
    """C12.dots: on a catalogue of buildable expressions with `.` / `..` at every position (first, middle, last; next to
    a separator, a tree wildcard or an end; in an alternation, a repetition, two levels deep), the public query
    `Glob::has_semantic_literals`, evaluated on a glob holding the tree (through Token::literals and
    is_semantic_literal today; std::path calls go to the abstract path model), answers true whenever the reference
    finds a delimited component spelled `.` or `..`."""
    import multiprocessing, os
    from . import exhaust
    lits = F.find("token::Token::literals")
    sem = F.find("token::LiteralSequence::is_semantic_literal")
    pub = F.find("Glob::has_semantic_literals")
    _DOT_STATE.update(J=exhaust.Judge(F), lits=lits, sem=sem, pub=pub)
    cat = _dot_catalogue(tier)
    # one computation per tree state (facts file) and state of the machinery; shared by repeated runs
    import fcntl, hashlib, json
    from .. import build
    h = hashlib.sha256()
    h.update(os.path.basename(F.path).encode())
    for mod in ("rules/c12.py", "rules/exhaust.py", "rules/tokens.py", "rules/pathmodel.py", "teval.py", "models.py"):
        with open(os.path.join(build.VERIF, "sa", mod), "rb") as f:
            h.update(f.read())
    os.makedirs(os.path.join(build.CACHE, "exhaust"), exist_ok=True)
    path = os.path.join(build.CACHE, "exhaust", "dots-%s-%s.json" % (tier, h.hexdigest()[:20]))
    with open(os.path.join(build.CACHE, "lock-exhaust-dots-%s" % tier), "w") as lock:
        fcntl.flock(lock, fcntl.LOCK_EX)
        if os.path.exists(path) and os.environ.get("VERIF_NO_CACHE") != "1":
            with open(path) as f:
                results = json.load(f)
        else:
            jobs = min(16, os.cpu_count() or 1)
            ctx = multiprocessing.get_context("fork")
            with ctx.Pool(jobs) as pool:
                results = pool.map(_dot_job, cat, chunksize=16)
            with open(path + ".new", "w") as f:
                json.dump(results, f)
            os.replace(path + ".new", path)
    n = pos = 0
    for text, status, got, want in results:
        if status != "accepted":
            continue
        n += 1
        if want:
            pos += 1
        if got is None:
            R.check(False, "C12.dots", text, "the literal components of the expression are decidable", lits.where(),
                    fail_msg="Glob::has_semantic_literals could not be evaluated on `%s` (fail closed)" % text)
        elif want:
            R.check(got is True, "C12.dots", text, "a component spelled `.` or `..` is reported", lits.where(),
                    fail_msg="`%s` has a component spelled entirely as `.` or `..` (delimited by separators, tree wildcards or the "
                             "ends of the expression), yet Glob::has_semantic_literals answers false" % text)
        else:
            R.check(True, "C12.dots", text, "no delimited dot component (nothing demanded)", lits.where())
    R.floor("C12.dots", "buildable expressions examined", n, 6000 if tier != "thorough" else 30000)
    R.floor("C12.dots", "expressions with a delimited `.` / `..` component", pos, 5000 if tier != "thorough" else 27000)
