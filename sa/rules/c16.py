"""C16 — Walk filters compose monotonically and independently of order."""
from ..teval import Adt, Tup, Ref, Place, Cell, Sym, PyFn, Top, Panicked, strip, some, none, ok, err, UNIT
from ..facts import AnchorMissing, fn_refs
from . import walkfam as W
from . import c13

EXPLANATION = (
    "Static decision of the residue lattice every stack of `not` / `filter_entry` is built from: (lattice) each "
    "state-changing function maps (state, verdict) to max(state, verdict) in filtrate < node < tree, with one "
    "cancellation exactly when a non-tree entry becomes tree residue; (noreturn) filtrate products are constructed only "
    "from iterator items or from another filtrate, and the state-preserving helpers preserve the state in all three "
    "states; (apply) FilterEntry::feed and Not::feed call input.feed() exactly once, apply their verdict to filtrate and "
    "residue alike, map File to Node and Tree to Tree, and the substituent handed to the verdict is the entry in every "
    "state; (drain) filtrate() returns the first filtrate and consumes exactly the residue before it.  Decided by "
    "evaluating the THIR of each function on every cell of the finite domains; stacks on real trees are not executed.  "
    "(next) Iterator::next of the four separating filters returns filter::filtrate(self), asked once.")
RULES = "C16.lattice (EFFECT), C16.noreturn (WHO+TABLE), C16.apply (EFFECT+SIBLING), C16.drain (EFFECT), C16.next (SIBLING: next() = filtrate of the combinator\'s own feed)"


def run(ctx):
    F = ctx.facts()
    R = ctx.report
    R.assume("each layer's verdict function is a function of the entry only (user closures are opaque)")
    R.assume("Unix configuration; default features (walk)")
    R.undecided("equality of the yielded sets of permuted stacks on concrete trees; decided: every layer is monotone "
                "in the lattice and sees every non-pruned entry exactly once, from which order-independence follows")
    c13.rule_pair(F, R, "C16.lattice")
    c13.rule_feeds(F, R, "C16")
    rule_noreturn(F, R)
    rule_preserve(F, R)
    rule_mapping(F, R)
    rule_substituent(F, R)
    rule_drain(F, R)
    rule_next(F, R)


def rule_noreturn(F, R):
    allowed_new = {"filter::Separation::from_inner_filtrate", "filter::Separation::as_ref",
                   "filter::Separation::transpose_filtrate"}
    refs = fn_refs(F, lambda fn: fn["path"].startswith("filter::Product::<K, T>::new"))
    n = 0
    for it, e in refs:
        k = F.ty_str(e["fn"]["args"][0]) if e["fn"].get("args") else "?"
        if k != "filter::kind::FiltrateKind":
            continue
        n += 1
        owner = F.owner_fn(it)
        R.check(owner.qname in allowed_new, "C16.noreturn", "Filtrate::new in " + owner.qname,
                "explicit filtrate construction only in state-preserving helpers", "%s:%s" % (it.where(), e["ln"]),
                fail_msg="%s constructs a Filtrate product explicitly; only %s may (each is checked to produce filtrate "
                         "only from filtrate): a residue could be returned to the filtrate" % (owner.qname, sorted(allowed_new)))
    R.floor("C16.noreturn", "explicit Filtrate::new references", n, 4)
    refs = fn_refs(F, lambda fn: fn["path"].startswith("filter::Separation::<S>::from_inner_filtrate"))
    R.floor("C16.noreturn", "references to from_inner_filtrate", len(refs), 1)
    for it, e in refs:
        owner = F.owner_fn(it)
        R.check(owner.qname == "<I as filter::SeparatingFilter>::feed", "C16.noreturn",
                "from_inner_filtrate in " + owner.qname,
                "iterator items enter as filtrate only in the blanket SeparatingFilter impl", "%s:%s" % (it.where(), e["ln"]),
                fail_msg="%s turns a value into filtrate with from_inner_filtrate; only the blanket feed() over "
                         "SeparatingFilterInput may" % owner.qname)
    # direct constructions of the Filtrate variant
    allowed_agg = {"<filter::Separation as std::clone::Clone>::clone", "filter::Separation::from_inner_filtrate",
                   "filter::Separation::as_ref", "<filter::Separation as std::convert::From>::from"}
    n = 0
    for it in F.items.values():
        m = F.mir(it)
        for b in m["blocks"]:
            for a in b["aggs"]:
                if a["adt"] == W.SEP and a["variant"] == "Filtrate":
                    n += 1
                    owner = F.owner_fn(it)
                    R.check(owner.qname in allowed_agg, "C16.noreturn", "Separation::Filtrate in " + owner.qname,
                            "variant constructed only by the audited helpers", "%s:%s" % (it.where(), a["ln"]),
                            fail_msg="%s constructs Separation::Filtrate directly" % owner.qname)
    R.floor("C16.noreturn", "Separation::Filtrate constructions", n, 4)


def rule_preserve(F, R):
    """Helpers that must keep the state: as_ref, map_filtrate, map_residue, transpose_filtrate (Option and
    Result flavours), From<Filtrate>/From<Residue>."""
    ident = PyFn(lambda I, a: a[0], "id")
    specs = []
    specs.append(("filter::Separation::as_ref", None, lambda st: [Ref(Place(Cell(W.separation(st, Sym("entry")))))], False))
    specs.append(("filter::Separation::map_filtrate", None, lambda st: [W.separation(st, Sym("entry")), ident], False))
    specs.append(("filter::Separation::map_residue", None, lambda st: [W.separation(st, Sym("entry")), ident], False))
    for it in F.find("filter::Separation::transpose_filtrate", many=True):
        is_result = "Result" in (it.impl_self or "")
        specs.append((it, None, (lambda st, is_result=is_result: [W.separation(
            st, (ok(Sym("entry")) if is_result else some(Sym("entry"))) if st == "filtrate" else Sym("entry"))]), True))
    n = 0
    for q, _x, mk, wrapped in specs:
        it = q if not isinstance(q, str) else F.find(q)
        for st in W.STATES:
            I = W.new_interp(F)
            for c in I.explore(lambda: I.call_item(it, mk(st))):
                n += 1
                inst = "%s/%s" % (it.qname + ("<Result>" if wrapped and "Result" in (it.impl_self or "") else ""), st)
                res = c.result
                if wrapped:
                    res = strip(res)
                    res = strip(res.fields.get("0")) if isinstance(res, Adt) and res.variant in ("Ok", "Some") else res
                got, payload = W.classify(res)
                if isinstance(payload, Ref) or isinstance(strip(payload), Sym):
                    payload = strip(payload)
                good = got == st and isinstance(payload, Sym) and payload.name == "entry"
                R.check(good, "C16.noreturn", "preserve:" + inst, "%s stays %s" % (st, st), it.where(),
                        fail_msg="%s maps a %s item to %r (%s): helpers must not move an item between filtrate and residue" % (
                            it.qname, st, c.result, got))
    R.floor("C16.noreturn", "state-preservation cells", n, 15)


def rule_mapping(F, R):
    it = F.find("<filter::TreeResidue as std::convert::From>::from")
    I = W.new_interp(F)
    for v, want in (("File", "Node"), ("Tree", "Tree")):
        for c in I.explore(lambda v=v: I.call_item(it, [Adt(W.ERES, v, {})])):
            res = strip(c.result)
            R.check(isinstance(res, Adt) and res.path == W.TRES and res.variant == want, "C16.apply",
                    "EntryResidue::%s" % v, "EntryResidue::%s -> TreeResidue::%s" % (v, want), it.where(),
                    fail_msg="EntryResidue::%s is converted to %r, expected TreeResidue::%s" % (v, res, want))


def rule_substituent(F, R):
    cands = [it for it in F.items.values() if it.impl_trait == "filter::Isomeric" and it.name == "substituent"]
    R.floor("C16.apply", "Isomeric impls", len(cands), 1)
    for it in cands:
        for st in W.STATES:
            I = W.new_interp(F)
            for c in I.explore(lambda st=st: I.call_item(it, [Ref(Place(Cell(W.separation(st, Sym("entry")))))])):
                res = strip(c.result)
                R.check(isinstance(res, Sym) and res.name == "entry", "C16.apply", "substituent/%s" % st,
                        "the verdict function is shown the entry itself in state %s" % st, it.where(),
                        fail_msg="substituent of a %s item is %r, not the entry" % (st, c.result))


def rule_drain(F, R):
    it = F.find("filter::filtrate")
    scripts = {
        "node,tree,filtrate": (["node", "tree", "filtrate:A", "filtrate:B"], "A", 3),
        "filtrate-first": (["filtrate:A", "filtrate:B"], "A", 1),
        "only-residue": (["node", "tree"], None, 3),
        "empty": ([], None, 1),
    }
    for name, (seq, want, nfeeds) in scripts.items():
        state = {"i": 0}

        def feed(I, a, fn, e, seq=seq):
            i = state["i"]
            state["i"] += 1
            I.emit("ext", W.FEED, [])
            if i >= len(seq):
                return none()
            s = seq[i]
            if s.startswith("filtrate:"):
                return some(W.separation("filtrate", Sym(s.split(":")[1])))
            return some(W.separation(s, Sym("r%d" % i)))
        I = W.new_interp(F, {W.FEED: feed})

        def run():
            state["i"] = 0
            return I.call_item(it, [Ref(Place(Cell(Sym("filter"))))])
        for c in I.explore(run):
            res = strip(c.result)
            feeds = len([e for e in c.log if e[0] == "ext" and e[1] == W.FEED])
            if want is None:
                good = isinstance(res, Adt) and res.variant == "None"
            else:
                v = strip(res.fields.get("0")) if isinstance(res, Adt) and res.variant == "Some" else None
                good = isinstance(v, Sym) and v.name == want
            good = good and feeds == nfeeds
            R.check(good, "C16.drain", name, "returns %s after %d feed() call(s)" % (want, nfeeds), it.where(),
                    fail_msg="filtrate() on feed sequence %s returns %r after %d feed() calls; expected %s after %d: the "
                             "iterator must yield the first filtrate and skip exactly the residue before it" % (
                                 seq, c.result, feeds, want, nfeeds))


def rule_next(F, R):
    """C16.next (SIBLING): the item a combinator yields is the next filtrate of its own feed: `Iterator::next` of every
    separating filter (the two generic adaptors of the filter module, `filter_entry` and `not`) returns what
    filter::filtrate gives for that same combinator, asked exactly once (C16.drain decides filtrate itself).  A `next`
    that reads its input's items directly would bypass the layer's verdict."""
    its = [it for it in F.items.values() if it.name == "next" and it.impl_trait == "std::iter::Iterator" and
           it.impl_adt in ("filter::FilterTreeBySubstituent", "filter::FilterMapTree", "walk::FilterEntry", "walk::Not")]
    R.floor("C16.next", "Iterator::next impls of separating filters", len(its), 4)
    for it in sorted(its, key=lambda i: i.key):
        calls = []

        def filtrate(I, a, fn, e):
            calls.append(repr(strip(a[0])))
            return Sym("the-next-filtrate")
        I = W.new_interp(F, {"filter::filtrate": filtrate})
        me = Sym("self-combinator")
        cases = I.explore(lambda: (calls.clear(), I.call_item(it, [Ref(Place(Cell(me)))], inst=False))[1])
        good = len(cases) == 1 and isinstance(strip(cases[0].result), Sym) and strip(cases[0].result).name == "the-next-filtrate" and \
            len(calls) == 1 and "self-combinator" in calls[0]
        R.check(good, "C16.next", it.impl_adt.split("::")[-1], "next() = filter::filtrate(self), once", it.where(),
                fail_msg="%s::next returns %r after %d call(s) of filter::filtrate (%s): the items of the combinator are not the filtrate of its own feed" % (
                    it.impl_adt, [strip(c.result) for c in cases][:2], len(calls), calls[:2]))
