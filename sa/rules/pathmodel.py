"""Abstract std::path values for the walk rules: a path is its component sequence (lead, normals), lead being
"" (relative), "/" (RootDir) or "." (a leading CurDir).  std::path compares, joins, strips and enumerates ancestors
component-wise, so textual variants (trailing separator, trailing or inner `.`) are the same abstract value."""
from ..teval import Adt, RList, Sym, strip, ok, err, Top
from .. import models

COMPONENT = "std::path::Component"


def P(lead, comps):
    return Adt("Path", "Path", {"lead": lead, "c": tuple(comps)})


def is_path(v):
    v = strip(v)
    return isinstance(v, Adt) and v.path == "Path"


def from_text(s):
    """The abstract path std::path reads from a Unix path text: a leading `/` is the root, empty components and `.`
    components other than a leading one are not components."""
    if s.startswith("/"):
        return P("/", tuple(x for x in s.split("/") if x and x != "."))
    parts = s.split("/")
    ld = ""
    if parts and parts[0] == ".":
        ld = "."
        parts = parts[1:]
    return P(ld, tuple(x for x in parts if x and x != "."))


def coerce(v):
    """A concrete string used as a path (String -> PathBuf, AsRef<Path> for str) becomes the abstract path it denotes."""
    from ..teval import StrB
    w = strip(v)
    if isinstance(w, StrB) and w.is_concrete():
        w = w.concrete()
    if isinstance(w, str):
        return from_text(w)
    return v


def lead(v):
    return strip(v).fields["lead"]


def comps(v):
    return strip(v).fields["c"]


def show(v):
    v = strip(v)
    if not is_path(v):
        return repr(v)
    l, c = lead(v), comps(v)
    if l == "/":
        return "/" + "/".join(c)
    if l == ".":
        return "/".join((".",) + tuple(c))
    return "/".join(c) if c else '""'


def components(v):
    out = []
    if lead(v) == "/":
        out.append(Adt(COMPONENT, "RootDir", {}))
    elif lead(v) == ".":
        out.append(Adt(COMPONENT, "CurDir", {}))
    out.extend(Adt(COMPONENT, "ParentDir", {}) if c == ".." else Adt(COMPONENT, "Normal", {"0": c}) for c in comps(v))
    return out


def n_components(v):
    return len(components(v))


def join(a, b):
    if lead(b) == "/":
        return P("/", comps(b))
    if lead(a) == "" and not comps(a):
        return P(lead(b), comps(b))          # "".join("./x") keeps the leading `.`
    return P(lead(a), comps(a) + comps(b))   # a non-leading `.` is not a component


def ancestors(v):
    l, c = lead(v), comps(v)
    out = [P(l, c[:n]) for n in range(len(c), -1, -1)]
    if l == ".":
        out.append(P("", ()))               # `.` has the parent ""
    if l == "" and not c:
        out = [P("", ())]                  # "" has no parent
    return out


def strip_prefix(v, base):
    a, b = components_key(v), components_key(base)
    if a[:len(b)] != b:
        return None
    rest = a[len(b):]
    return P("", tuple(x[1] for x in rest)) if all(x[0] == "n" for x in rest) else P(rest[0][0], tuple(x[1] for x in rest[1:]))


def components_key(v):
    out = []
    if lead(v) in ("/", "."):
        out.append((lead(v), None))
    out.extend(("n", c) for c in comps(v))
    return out


def same(a, b):
    return components_key(a) == components_key(b)


def stubs():
    def need(I, v, what):
        if not is_path(coerce(v)):
            return I.top("%s of a value that is not an abstract path: %r" % (what, strip(v)))
        return None
    table = {
        "std::path::Path::ancestors": lambda I, a, fn, e: need(I, a[0], "ancestors") or models.iter_of(I, RList(ancestors(a[0])), by_ref=False),
        "std::path::Path::new": lambda I, a, fn, e: P("", ()) if strip(a[0]) == "" else (strip(a[0]) if is_path(a[0]) else I.top("Path::new(%r)" % (strip(a[0]),))),
        "std::path::Path::strip_prefix": lambda I, a, fn, e: need(I, a[0], "strip_prefix") or need(I, a[1], "strip_prefix") or (
            (lambda r: ok(r) if r is not None else err(Sym("StripPrefixError")))(strip_prefix(a[0], a[1]))),
        "std::path::Path::join": lambda I, a, fn, e: need(I, a[0], "join") or need(I, a[1], "join") or join(a[0], a[1]),
        "std::path::Path::components": lambda I, a, fn, e: need(I, a[0], "components") or models.iter_of(I, RList(components(a[0])), by_ref=False),
        "std::path::Path::is_absolute": lambda I, a, fn, e: need(I, a[0], "is_absolute") or (lead(a[0]) == "/"),
        "std::path::Path::has_root": lambda I, a, fn, e: need(I, a[0], "has_root") or (lead(a[0]) == "/"),
        "std::path::Path::is_relative": lambda I, a, fn, e: need(I, a[0], "is_relative") or (lead(a[0]) != "/"),
        "std::path::Path::to_path_buf": lambda I, a, fn, e: strip(a[0]),
        "std::path::PathBuf::as_path": lambda I, a, fn, e: strip(a[0]),
    }

    def wrap(f):
        return lambda I, a, fn, e: f(I, [coerce(x) for x in a], fn, e)
    return {k: wrap(f) for k, f in table.items()}
