"""Abstract std::path values for the walk rules: a path is its component sequence (lead, normals), lead being
"" (relative), "/" (RootDir) or "." (a leading CurDir).  std::path compares, joins, strips and enumerates ancestors
component-wise, so textual variants (trailing separator, trailing or inner `.`) are the same abstract value."""
from ..teval import Adt, RList, Sym, strip, ok, err, Top
from .. import models

COMPONENT = "std::path::Component"


def P(lead, comps):
    return Adt("Path", "Path", {"lead": lead, "c": tuple(comps)})


def is_path(v):
    v = strip(v)
    return isinstance(v, Adt) and v.path == "Path"


def lead(v):
    return strip(v).fields["lead"]


def comps(v):
    return strip(v).fields["c"]


def show(v):
    v = strip(v)
    if not is_path(v):
        return repr(v)
    l, c = lead(v), comps(v)
    if l == "/":
        return "/" + "/".join(c)
    if l == ".":
        return "/".join((".",) + tuple(c))
    return "/".join(c) if c else '""'


def components(v):
    out = []
    if lead(v) == "/":
        out.append(Adt(COMPONENT, "RootDir", {}))
    elif lead(v) == ".":
        out.append(Adt(COMPONENT, "CurDir", {}))
    out.extend(Adt(COMPONENT, "ParentDir", {}) if c == ".." else Adt(COMPONENT, "Normal", {"0": c}) for c in comps(v))
    return out


def n_components(v):
    return len(components(v))


def join(a, b):
    if lead(b) == "/":
        return P("/", comps(b))
    if lead(a) == "" and not comps(a):
        return P(lead(b), comps(b))          # "".join("./x") keeps the leading `.`
    return P(lead(a), comps(a) + comps(b))   # a non-leading `.` is not a component


def ancestors(v):
    l, c = lead(v), comps(v)
    out = [P(l, c[:n]) for n in range(len(c), -1, -1)]
    if l == ".":
        out.append(P("", ()))               # `.` has the parent ""
    if l == "" and not c:
        out = [P("", ())]                  # "" has no parent
    return out


def strip_prefix(v, base):
    a, b = components_key(v), components_key(base)
    if a[:len(b)] != b:
        return None
    rest = a[len(b):]
    return P("", tuple(x[1] for x in rest)) if all(x[0] == "n" for x in rest) else P(rest[0][0], tuple(x[1] for x in rest[1:]))


def components_key(v):
    out = []
    if lead(v) in ("/", "."):
        out.append((lead(v), None))
    out.extend(("n", c) for c in comps(v))
    return out


def same(a, b):
    return components_key(a) == components_key(b)


def stubs():
    def need(I, v, what):
        if not is_path(v):
            return I.top("%s of a value that is not an abstract path: %r" % (what, strip(v)))
        return None
    return {
        "std::path::Path::ancestors": lambda I, a, fn, e: need(I, a[0], "ancestors") or models.iter_of(I, RList(ancestors(a[0])), by_ref=False),
        "std::path::Path::new": lambda I, a, fn, e: P("", ()) if strip(a[0]) == "" else (strip(a[0]) if is_path(a[0]) else I.top("Path::new(%r)" % (strip(a[0]),))),
        "std::path::Path::strip_prefix": lambda I, a, fn, e: need(I, a[0], "strip_prefix") or need(I, a[1], "strip_prefix") or (
            (lambda r: ok(r) if r is not None else err(Sym("StripPrefixError")))(strip_prefix(a[0], a[1]))),
        "std::path::Path::join": lambda I, a, fn, e: need(I, a[0], "join") or need(I, a[1], "join") or join(a[0], a[1]),
        "std::path::Path::components": lambda I, a, fn, e: need(I, a[0], "components") or models.iter_of(I, RList(components(a[0])), by_ref=False),
        "std::path::Path::is_absolute": lambda I, a, fn, e: need(I, a[0], "is_absolute") or (lead(a[0]) == "/"),
        "std::path::Path::has_root": lambda I, a, fn, e: need(I, a[0], "has_root") or (lead(a[0]) == "/"),
        "std::path::Path::is_relative": lambda I, a, fn, e: need(I, a[0], "is_relative") or (lead(a[0]) != "/"),
        "std::path::Path::to_path_buf": lambda I, a, fn, e: strip(a[0]),
        "std::path::PathBuf::as_path": lambda I, a, fn, e: strip(a[0]),
    }
