"""C03 — Negated walks discard exactly the entries that match the negation (verdict plumbing)."""
import itertools

from ..teval import (Adt, Tup, Ref, Place, Cell, Sym, RList, PyFn, Closure, Top, Panicked, strip, some, none, ok, err, UNIT, Interp)
from ..facts import AnchorMissing
from .. import tabulate, models
from . import walkfam as W
from . import c13, tokens as T

EXPLANATION = (
    "Discarding a tree equals discarding each entry beneath it iff the verdict `always exhaustive` is sound: (sound) that is "
    "decided on the expression catalogue of C09.sound (verdict of the whole fold vs. the language of the emitted program, "
    "for ~6 500 / ~30 000 small expressions; same computation, shared through a cache), not for all expressions.  The "
    "plumbing of the verdict is decided for all inputs: (partition) the negation's alternatives go to the exhaustive side "
    "only when is_exhaustive() is `always`, and the two sides reach FilterAnyProgram::try_from_partitions and its fields "
    "unswapped; (verdict) FilterAnyProgram::residue over all four program variants x match outcomes answers Tree only "
    "when the exhaustive program matches, File only when the non-exhaustive one matches, None otherwise; (candidate) the "
    "text matched is the entry's root-relative path; (apply) Not::feed applies the verdict to filtrate and residue alike, "
    "once, cancelling its own input (shared with C13 / C16); (collapse) into_non_trivial / into_alternatives only collapse "
    "branches without semantic effect and keep every alternative.  "
    "Also run here: C09.text (nested alternations) and C13.skip / C13.isdir (discarding an entry that is not a directory walkdir descended into - a link read as a file that matches an exhaustive negation - must not leave its parent).")
RULES = "C03.sound (= C09.sound), C03.partition (TABLE+PROV), C03.verdict (TABLE), C03.candidate (PROV), C03.apply (= C16.apply for Not), C03.collapse (TABLE), C09.text, C13.skip, C13.isdir"

FAP = "walk::glob::FilterAnyProgram"
WHEN = "query::When"


def run(ctx):
    F = ctx.facts()
    R = ctx.report
    R.assume("regex crate semantics; walkdir semantics (C13)")
    R.undecided("soundness of the exhaustiveness verdict outside the catalogue (C09); known and recorded: optional repetitions")
    rule_partition(F, R)
    rule_programs(F, R)
    rule_verdict(F, R)
    rule_candidate(F, R)
    c13.rule_feeds(F, R, "C03")
    # discarding an entry that is not a directory walkdir descended into must not leave its parent (a link read as a
    # file matching an exhaustive negation): the flag a cancellation consults is the entry's own file type
    c13.rule_skip(F, R)
    c13.rule_isdir(F, R)
    rule_collapse(F, R)
    # discarding a tree equals discarding each entry beneath it iff the verdict `always` is sound (shared with C09)
    from . import exhaust
    exhaust.report(F, R, "C03.sound", ctx.tier)
    from . import parsecat
    parsecat.report_exhaustive(F, R, "C09.text")     # the same for alternations of alternations


def rule_partition(F, R):
    it = F.find("walk::glob::FilterAny::any")
    verdicts = ["Always", "Sometimes", "Never"]
    for combo in [("Always",), ("Sometimes",), ("Never",), ("Always", "Never"), ("Never", "Always", "Sometimes"), ("Always", "Always"), ()]:
        seen = {}

        def origin(x):
            x = strip(x)
            return x.name if isinstance(x, Sym) else getattr(x, "sym_origin", repr(x))

        def tfp(I, a, fn, e):
            seen["ex"] = [origin(x) for x in strip(a[0]).items]
            seen["non"] = [origin(x) for x in strip(a[1]).items]
            return ok(Sym("program"))
        stubs = {
            "walk::glob::FilterAnyProgram::try_from_partitions": tfp,
            "token::Token::is_exhaustive": lambda I, a, fn, e: Adt(WHEN, combo[int(c13._n(a[0]).split("tree")[1].split(".")[0])], {}),
            "std::convert::TryInto::try_into": lambda I, a, fn, e: ok(a[0]),
            "token::TokenTree::as_token": lambda I, a, fn, e: a[0],
        }
        I = Interp(F, stubs)
        patterns = RList([Sym("tree%d" % i) for i in range(len(combo))])
        cases = I.explore(lambda: I.call_item(it, [patterns], inst=False))
        res = strip(tabulate.single(cases))
        want_ex = ["tree%d" % i for i, v in enumerate(combo) if v == "Always"]
        want_non = ["tree%d" % i for i, v in enumerate(combo) if v != "Always"]
        norm = lambda names: [n.split(".")[0] for n in names]
        good = isinstance(res, Adt) and res.variant == "Ok" and norm(seen.get("ex", ["?"])) == want_ex and norm(seen.get("non", ["?"])) == want_non
        R.check(good, "C03.partition", "any/" + (",".join(combo) or "empty"), "exhaustive side = %s, non-exhaustive side = %s" % (want_ex, want_non), it.where(),
                fail_msg="for alternatives with is_exhaustive = %s FilterAny::any passes (%s, %s) to try_from_partitions, expected (%s, %s): "
                         "only `always` exhaustive alternatives may discard whole trees (result %r)" % (
                             list(combo), seen.get("ex"), seen.get("non"), want_ex, want_non, res))


def rule_programs(F, R):
    it = F.find("walk::glob::FilterAnyProgram::try_from_partitions")
    for ne, nn in itertools.product((0, 1, 2), repeat=2):
        def compile_stub(I, a, fn, e):
            lst = strip(a[0])
            names = [c13._n(x) for x in lst.items]
            return ok(some(Sym("re(%s)" % "+".join(names))) if names else none())
        I = Interp(F, {"walk::glob::FilterAnyProgram::compile": compile_stub})
        ex = RList([Sym("e%d" % i) for i in range(ne)])
        non = RList([Sym("n%d" % i) for i in range(nn)])
        res = strip(tabulate.single(I.explore(lambda: I.call_item(it, [ex, non], inst=False))))
        v = strip(res.fields.get("0")) if isinstance(res, Adt) and res.variant == "Ok" else None
        got = None
        if isinstance(v, Adt) and v.path == FAP:
            got = (v.variant, {k: c13._n(x) for k, x in v.fields.items()})
        e_re = "re(%s)" % "+".join("e%d" % i for i in range(ne))
        n_re = "re(%s)" % "+".join("n%d" % i for i in range(nn))
        if ne and nn:
            want = ("Partitioned", {"exhaustive": e_re, "nonexhaustive": n_re})
        elif ne:
            want = ("Exhaustive", {"0": e_re})
        elif nn:
            want = ("Nonexhaustive", {"0": n_re})
        else:
            want = ("Empty", {})
        R.check(got == want, "C03.partition", "try_from_partitions/%d,%d" % (ne, nn), str(want), it.where(),
                fail_msg="try_from_partitions with %d exhaustive and %d non-exhaustive alternatives builds %r, expected %s: the "
                         "program compiled from the exhaustive alternatives must end up in the exhaustive slot" % (ne, nn, got, want))


def rule_verdict(F, R):
    it = F.find("walk::glob::FilterAnyProgram::residue")
    variants = {
        "Empty": lambda: Adt(FAP, "Empty", {}),
        "Exhaustive": lambda: Adt(FAP, "Exhaustive", {"0": Sym("EX")}),
        "Nonexhaustive": lambda: Adt(FAP, "Nonexhaustive", {"0": Sym("NON")}),
        "Partitioned": lambda: Adt(FAP, "Partitioned", {"exhaustive": Sym("EX"), "nonexhaustive": Sym("NON")}),
    }
    R.check(sorted(F.variants(FAP)) == sorted(variants), "C03.verdict", "variants", "FilterAnyProgram = {Empty, Exhaustive, Nonexhaustive, Partitioned}", it.where(),
            fail_msg="FilterAnyProgram has variants %s" % F.variants(FAP))
    for vname, mk in variants.items():
        for em, nm in itertools.product((True, False), repeat=2):
            stubs = {"regex::Regex::is_match": lambda I, a, fn, e, em=em, nm=nm: em if c13._n(a[0]) == "EX" else nm,
                     "<CandidatePath as std::convert::AsRef>::as_ref": lambda I, a, fn, e: strip(a[0])}
            I = Interp(F, stubs)
            res = strip(tabulate.single(I.explore(lambda: I.call_item(it, [Ref(Place(Cell(mk()))), Sym("candidate")]))))
            has_ex = vname in ("Exhaustive", "Partitioned")
            has_non = vname in ("Nonexhaustive", "Partitioned")
            want = "Tree" if (has_ex and em) else ("File" if (has_non and nm) else None)
            if want is None:
                good = isinstance(res, Adt) and res.variant == "None"
            else:
                x = strip(res.fields.get("0")) if isinstance(res, Adt) and res.variant == "Some" else None
                good = isinstance(x, Adt) and x.variant == want
            R.check(good, "C03.verdict", "%s/exhaustive-match=%s/nonexhaustive-match=%s" % (vname, em, nm), str(want), it.where(),
                    fail_msg="FilterAnyProgram::%s with exhaustive match %s and non-exhaustive match %s answers %r, expected %s: a tree "
                             "may only be discarded on a match of the exhaustive program" % (vname, em, nm, res, want))


def rule_candidate(F, R):
    it = F.find("walk::glob::FilterAny::residue")
    seen = {}
    stubs = {
        "walk::Entry::root_relative_paths": lambda I, a, fn, e: Tup([Sym("root"), Sym("relative")]),
        "<CandidatePath as std::convert::From>::from": lambda I, a, fn, e: Sym("cand(%s)" % c13._n(a[0])),
        "walk::glob::FilterAnyProgram::residue": lambda I, a, fn, e: (seen.update(prog=c13._n(a[0]), cand=c13._n(a[1])), Sym("verdict"))[1],
    }
    I = Interp(F, stubs)
    me = Adt("walk::glob::FilterAny", "FilterAny", {"program": Sym("program")})
    res = strip(tabulate.single(I.explore(lambda: I.call_item(it, [Ref(Place(Cell(me))), Ref(Place(Cell(Sym("entry"))))]))))
    good = isinstance(res, Sym) and res.name == "verdict" and seen.get("cand") == "cand(relative)" and seen.get("prog") == "program"
    R.check(good, "C03.candidate", "FilterAny::residue", "the negation is matched against the entry's root-relative path", it.where(),
            fail_msg="FilterAny::residue matches %r with program %r (result %r); expected the relative segment of root_relative_paths()" % (
                seen.get("cand"), seen.get("prog"), res))


def shape(tok):
    """Canonical nested description of a token tree: leaves by tag-less content."""
    tok = strip(tok)
    topo = strip(tok.fields["topology"])
    v = strip(topo.fields["0"])
    if topo.variant == "Leaf":
        inner = strip(v.fields["0"])
        if v.variant == "Literal":
            return "lit:" + c13._n(inner.fields["text"]).replace("text_", "")
        return v.variant.lower()
    inner = strip(v.fields["0"])
    if v.variant == "Repetition":
        up = strip(inner.fields["upper"])
        return ("rep", strip(inner.fields["lower"]), strip(up.fields["0"]) if up.variant == "Some" else None, shape(inner.fields["token"]))
    return (v.variant[:3].lower(),) + tuple(shape(x) for x in strip(inner.fields["0"]).items)


def rule_collapse(F, R):
    L = lambda n: T.leaf("lit", n)
    nt = F.find("token::Token::into_non_trivial")
    inst = (F.instances_of(nt) or [None])[0]
    I = Interp(F)
    cases = {
        "alt[x]": (T.branch("alt", [L("x")]), "lit:x"),
        "cat[x]": (T.branch("cat", [L("x")]), "lit:x"),
        "rep[x]{1,1}": (T.branch("rep", [L("x")], lower=1, upper=1), "lit:x"),
        "alt[alt[cat[x]]]": (T.branch("alt", [T.branch("alt", [T.branch("cat", [L("x")])])]), "lit:x"),
        "alt[x,y]": (T.branch("alt", [L("x"), L("y")]), ("alt", "lit:x", "lit:y")),
        "cat[x,y]": (T.branch("cat", [L("x"), L("y")]), ("con", "lit:x", "lit:y")),
        "rep[x]{1,2}": (T.branch("rep", [L("x")], lower=1, upper=2), ("rep", 1, 2, "lit:x")),
        "rep[x]{0,1}": (T.branch("rep", [L("x")], lower=0, upper=1), ("rep", 0, 1, "lit:x")),
        "rep[x]{2,2}": (T.branch("rep", [L("x")], lower=2, upper=2), ("rep", 2, 2, "lit:x")),
        "rep[x]{1,}": (T.branch("rep", [L("x")], lower=1, upper=None), ("rep", 1, None, "lit:x")),
        "leaf": (L("x"), "lit:x"),
    }
    for name, (tok, want) in cases.items():
        res = tabulate.single(I.explore(lambda: I.call_item(nt, [tok], inst=inst)))
        got = shape(res) if isinstance(strip(res), Adt) else repr(res)
        R.check(got == want, "C03.collapse", "into_non_trivial/" + name, str(want), nt.where(),
                fail_msg="into_non_trivial(%s) = %s, expected %s: only single-branch alternations / concatenations and once-only "
                         "repetitions have no semantic effect" % (name, got, want))
    ia = F.find("token::Token::into_alternatives")
    inst2 = (F.instances_of(ia) or [None])[0]
    cases2 = {
        "x": (L("x"), {"lit:x"}),
        "alt[x,y,z]": (T.branch("alt", [L("x"), L("y"), L("z")]), {"lit:x", "lit:y", "lit:z"}),
        "alt[x,alt[y,z]]": (T.branch("alt", [L("x"), T.branch("alt", [L("y"), L("z")])]), {"lit:x", "lit:y", "lit:z"}),
        "alt[cat[x,y],z]": (T.branch("alt", [T.branch("cat", [L("x"), L("y")]), L("z")]), {("con", "lit:x", "lit:y"), "lit:z"}),
        "cat[x,alt[y,z]]": (T.branch("cat", [L("x"), T.branch("alt", [L("y"), L("z")])]), {("con", "lit:x", ("alt", "lit:y", "lit:z"))}),
        "alt[alt[x]]": (T.branch("alt", [T.branch("alt", [L("x")])]), {"lit:x"}),
        "rep[alt[x,y]]{1,1}": (T.branch("rep", [T.branch("alt", [L("x"), L("y")])], lower=1, upper=1), {"lit:x", "lit:y"}),
    }
    for name, (tok, want) in cases2.items():
        res = strip(tabulate.single(I.explore(lambda: I.call_item(ia, [tok], inst=inst2))))
        got = set(shape(x) for x in res.items) if hasattr(res, "items") and not isinstance(res, Tup) else repr(res)
        n = len(res.items) if hasattr(res, "items") else -1
        R.check(got == want and n == len(want), "C03.collapse", "into_alternatives/" + name, str(sorted(map(str, want))), ia.where(),
                fail_msg="into_alternatives(%s) = %s, expected exactly the alternatives %s: a lost alternative is never negated, a "
                         "duplicated or merged one changes which side of the partition it lands on" % (name, got, want))
