"""Abstract token values (inputs for the token-tree rules)."""
from ..teval import Adt, Sym, RList, strip

TOKEN = "token::Token"
TOPO = "token::Topology"
LEAF = "token::LeafKind"
BRANCH = "token::BranchKind"
WILD = "token::Wildcard"
EVAL = "token::Evaluation"

LEAF_SHAPES = ["sep", "lit", "class", "one", "zom", "zom-lazy", "tree", "tree-rooted"]


def leaf_kind(shape, name="x"):
    if shape == "sep":
        return Adt(LEAF, "Separator", {"0": Adt("token::Separator", "Separator", {})})
    if shape == "lit":
        return Adt(LEAF, "Literal", {"0": Adt("token::Literal", "Literal", {"text": Sym("text_" + name), "is_case_insensitive": False})})
    if shape == "lit-ci":
        return Adt(LEAF, "Literal", {"0": Adt("token::Literal", "Literal", {"text": Sym("text_" + name), "is_case_insensitive": True})})
    if shape == "class":
        return Adt(LEAF, "Class", {"0": Adt("token::Class", "Class", {"is_negated": False, "archetypes": RList([Adt("token::Archetype", "Character", {"0": Sym("c_" + name)})])})})
    if shape == "class-neg":
        return Adt(LEAF, "Class", {"0": Adt("token::Class", "Class", {"is_negated": True, "archetypes": RList([Adt("token::Archetype", "Character", {"0": Sym("c_" + name)})])})})
    if shape == "class-range":
        return Adt(LEAF, "Class", {"0": Adt("token::Class", "Class", {"is_negated": False, "archetypes": RList([Adt("token::Archetype", "Range", {"0": Sym("lo_" + name), "1": Sym("hi_" + name)})])})})
    if shape == "class-multi":
        return Adt(LEAF, "Class", {"0": Adt("token::Class", "Class", {"is_negated": True, "archetypes": RList([
            Adt("token::Archetype", "Character", {"0": Sym("c_" + name)}),
            Adt("token::Archetype", "Range", {"0": Sym("lo_" + name), "1": Sym("hi_" + name)})])})})
    if shape == "one":
        return Adt(LEAF, "Wildcard", {"0": Adt(WILD, "One", {})})
    if shape == "zom":
        return Adt(LEAF, "Wildcard", {"0": Adt(WILD, "ZeroOrMore", {"0": Adt(EVAL, "Eager", {})})})
    if shape == "zom-lazy":
        return Adt(LEAF, "Wildcard", {"0": Adt(WILD, "ZeroOrMore", {"0": Adt(EVAL, "Lazy", {})})})
    if shape == "tree":
        return Adt(LEAF, "Wildcard", {"0": Adt(WILD, "Tree", {"has_root": False})})
    if shape == "tree-rooted":
        return Adt(LEAF, "Wildcard", {"0": Adt(WILD, "Tree", {"has_root": True})})
    raise ValueError(shape)


def leaf(shape, name="x"):
    t = Adt(TOKEN, "Token", {"topology": Adt(TOPO, "Leaf", {"0": leaf_kind(shape, name)}), "annotation": Sym("ann_" + name)})
    t.tag = "%s:%s" % (shape, name)
    return t


def branch(kind, children, name="b", lower=1, upper=None):
    """kind: alt | cat | rep"""
    if kind == "alt":
        b = Adt(BRANCH, "Alternation", {"0": Adt("token::Alternation", "Alternation", {"0": RList(children)})})
    elif kind == "cat":
        b = Adt(BRANCH, "Concatenation", {"0": Adt("token::Concatenation", "Concatenation", {"0": RList(children)})})
    elif kind == "rep":
        from ..teval import some, none
        b = Adt(BRANCH, "Repetition", {"0": Adt("token::Repetition", "Repetition", {
            "token": children[0], "lower": lower, "upper": (some(upper) if upper is not None else none())})})
    else:
        raise ValueError(kind)
    t = Adt(TOKEN, "Token", {"topology": Adt(TOPO, "Branch", {"0": b}), "annotation": Sym("ann_" + name)})
    t.tag = "%s:%s" % (kind, name)
    return t


def tag_of(v):
    v = strip(v)
    return getattr(v, "tag", repr(v))
