"""C09 — An 'always exhaustive' verdict is sound (finite parts only)."""
import itertools

from ..teval import Adt, Tup, Ref, Place, Cell, Sym, PyFn, RList, Top, Panicked, strip, some, none, UNIT, Interp
from ..facts import AnchorMissing
from .. import tabulate
from . import tokens as T
from . import c10

EXPLANATION = (
    "(sound) On a catalogue of small expressions - every top-level sequence of up to two (thorough: three) segments around "
    "one alternation (one or two branches) or repetition (bounds 0.., 1.., thorough also 2..2 and 1..2) whose sub-expressions "
    "have up to two segments of literals, `*`, (thorough: `?`,) `**` with optional leading / trailing separators, ~6 500 "
    "(thorough ~30 000) expressions, of which the rule checker's verdict keeps those that can be built - the verdict "
    "Token::is_exhaustive (the whole fold evaluated from its THIR: sequencer, terms, fold, finalize) is compared with the "
    "language of the program text encode::compile emits for the same tree (an automaton over a concrete alphabet, "
    "sa/rxc.py): `always` requires that every canonical path beneath a matched canonical path is matched (the empty path "
    "is canonical and every relative path is beneath it).  Two artefacts computed from the source are compared; nothing "
    "is run.  This decides soundness for the shapes of the catalogue, which is where a flaw of the fold's finite case "
    "structure shows; soundness for all expressions (an abstract interpretation over unbounded depth) is not decided.  "
    "Also decided, as necessary conditions: the trivalent truth tables (27 cells), the verdict functions (a depth "
    "variance is exhaustive iff it has no upper bound; a disjunctive term folds its branches with `certainty`, an empty "
    "one is never), the sequencer's admission predicate over all leaf shapes and that it selects a suffix free of "
    "bounded leaves on every child list up to the bound, the repetition guard in finalize, the discarded-terms branch "
    "of fold, the identical delegation of Glob and Any, and (upper) that no range operation loses an upper bound the "
    "true interval has (same grid as C10.range).  "
    "(text) ~2 800 alternations whose alternatives are alternations themselves (exhaustive, non-exhaustive and mixed inner branches in every arrangement, bare and behind a prefix), taken through the parser: a verdict `always` is compared with the language of the emitted program as in (sound).")
RULES = ("C09.sound (TABLE on a catalogue: verdict vs. language), C09.verdict (TABLE), C09.admit + C09.suffix (EFFECT), "
         "C09.repeat (TABLE), C09.fold (TABLE), C09.sibling (SIBLING), C09.upper (TABLE on a grid), C09.text (TABLE on a text catalogue: nested alternations, verdict vs. language)")

WHEN = "query::When"
DT = "token::variance::invariant::term::DisjunctiveTerm"
REF_AND = lambda a, b: "Never" if "Never" in (a, b) else ("Sometimes" if "Sometimes" in (a, b) else "Always")
REF_OR = lambda a, b: "Always" if "Always" in (a, b) else ("Sometimes" if "Sometimes" in (a, b) else "Never")
REF_CERTAINTY = lambda a, b: a if a == b and a != "Sometimes" else "Sometimes"

ADMITTED = {"sep", "zom", "zom-lazy", "tree", "tree-rooted", "branch"}


def run(ctx):
    F = ctx.facts()
    R = ctx.report
    R.undecided("soundness of the verdict for expressions outside the catalogue (deeper nesting, more than one branch token "
                "per level, classes); known and recorded: optional repetitions (`<*/>` matches the empty path only)")
    R.assume("regex crate semantics for the program text; the rule checker's size rule does not affect the catalogue")
    R.assume("depth terms of leaves and the termination algebra are as decided by C10")
    rule_when(F, R)
    rule_verdict(F, R)
    rule_suffix(F, R, 3 if ctx.tier == "quick" else 4)
    rule_repeat(F, R)
    rule_fold(F, R)
    rule_sibling(F, R)
    rule_upper_bound(F, R)
    from . import exhaust
    exhaust.report(F, R, "C09.sound", ctx.tier)
    from . import parsecat
    parsecat.report_exhaustive(F, R, "C09.text")


def rule_when(F, R):
    I = Interp(F)
    vals = tabulate.enum_values(F, WHEN)
    R.check(sorted(v.variant for v in vals) == ["Always", "Never", "Sometimes"], "C09.verdict", "When variants",
            "When = {Always, Sometimes, Never}", "src/query.rs")
    for name, ref in (("and", REF_AND), ("or", REF_OR), ("certainty", REF_CERTAINTY)):
        it = F.find("query::When::" + name)
        for (a, b), cases in tabulate.table(I, it, [vals, vals]):
            res = strip(tabulate.single(cases))
            want = ref(a.variant, b.variant)
            R.check(isinstance(res, Adt) and res.variant == want, "C09.verdict", "When::%s(%s,%s)" % (name, a.variant, b.variant),
                    want, it.where(), fail_msg="When::%s(%s, %s) = %r, truth table says %s" % (name, a.variant, b.variant, res, want))
    it = F.find("<query::When as std::convert::From>::from", trait_ref="From<bool>")
    for b, want in ((True, "Always"), (False, "Never")):
        res = strip(tabulate.single(I.explore(lambda: I.call_item(it, [b]))))
        R.check(isinstance(res, Adt) and res.variant == want, "C09.verdict", "When::from(%s)" % b, want, it.where())
    for name, ref in (("is_always", lambda v: v == "Always"), ("is_never", lambda v: v == "Never"),
                      ("is_sometimes", lambda v: v == "Sometimes"), ("is_maybe_true", lambda v: v != "Never"),
                      ("is_maybe_false", lambda v: v != "Always")):
        it = F.find("query::When::" + name)
        for v in vals:
            res = strip(tabulate.single(I.explore(lambda: I.call_item(it, [Ref(Place(Cell(v)))]))))
            R.check(res is ref(v.variant), "C09.verdict", "When::%s(%s)" % (name, v.variant), str(ref(v.variant)), it.where(),
                    fail_msg="When::%s(%s) = %r" % (name, v.variant, res))


def variance_shapes():
    return {
        "inv0": (c10.inv(0), False), "inv2": (c10.inv(2), False), "unbounded": (c10.unbounded(), True),
        "lower2": (c10.bounded(Adt(c10.BVR, "Lower", {"0": 2})), True),
        "upper2": (c10.bounded(Adt(c10.BVR, "Upper", {"0": 2})), False),
        "both1+2": (c10.bounded(Adt(c10.BVR, "Both", {"lower": 1, "extent": 2})), False),
    }


def rule_verdict(F, R):
    I = Interp(F)
    it = F.find("token::variance::Variance::is_exhaustive")
    for name, (v, want) in variance_shapes().items():
        res = strip(tabulate.single(I.explore(lambda: I.call_item(it, [Ref(Place(Cell(v)))]))))
        R.check(res is want, "C09.verdict", "TokenVariance<Depth>::is_exhaustive/" + name,
                "exhaustive iff no upper bound: %s" % want, it.where(),
                fail_msg="depth variance %s is judged exhaustive=%r, expected %s (only a range without upper bound reaches "
                         "every depth)" % (name, res, want))
    bt = F.find("token::Composition::is_exhaustive")
    sep = lambda v: Adt(c10.SEPT, "SeparatedTerm", {"0": Adt(c10.TERM, "Open", {}), "1": v})
    shapes = variance_shapes()
    for name, (v, exh) in shapes.items():
        term = Adt(c10.COMP, "Conjunctive", {"0": sep(v)})
        res = strip(tabulate.single(I.explore(lambda: I.call_item(bt, [Ref(Place(Cell(term)))]))))
        want = "Always" if exh else "Never"
        R.check(isinstance(res, Adt) and res.variant == want, "C09.verdict", "BoundaryTerm::is_exhaustive/conjunctive/" + name, want,
                bt.where(), fail_msg="conjunctive term %s gives %r, expected %s" % (name, res, want))
    combos = {"[]": [], "[exh]": ["unbounded"], "[non]": ["inv2"], "[exh,exh]": ["unbounded", "lower2"],
              "[exh,non]": ["unbounded", "upper2"], "[non,exh]": ["inv0", "lower2"], "[non,non]": ["inv0", "both1+2"],
              "[exh,exh,non]": ["unbounded", "lower2", "inv2"]}
    for name, members in combos.items():
        flags = [shapes[m][1] for m in members]
        want = "Never" if not members else ("Always" if all(flags) else ("Never" if not any(flags) else "Sometimes"))
        term = Adt(c10.COMP, "Disjunctive", {"0": Adt(DT, "DisjunctiveTerm", {"0": RList([sep(shapes[m][0]) for m in members])})})
        res = strip(tabulate.single(I.explore(lambda: I.call_item(bt, [Ref(Place(Cell(term)))]))))
        R.check(isinstance(res, Adt) and res.variant == want, "C09.verdict", "BoundaryTerm::is_exhaustive/disjunctive/" + name, want,
                bt.where(), fail_msg="disjunctive term with branches %s gives %r, expected %s (always only if every branch "
                                     "is exhaustive; `or` instead of `certainty` would turn one exhaustive branch into always)" % (
                                         members, res, want))


def rule_suffix(F, R, maxlen):
    it = F.find("<token::variance::TreeExhaustiveness as token::walk::Sequencer>::enqueue")
    insts = F.instances_of(it)
    R.floor("C09.suffix", "enqueue instances", len(insts), 1)
    inst = insts[0]
    alphabet = ["sep", "lit", "class", "one", "zom", "tree", "branch"]
    # admission of every single leaf shape (C09.admit)
    singles = T.LEAF_SHAPES + ["lit-ci", "class-neg", "branch"]
    n = 0

    def mk(shape, i):
        if shape == "branch":
            return T.branch("alt", [T.leaf("lit", "inner%d" % i)], "b%d" % i)
        return T.leaf(shape, str(i))

    def evaluate(shapes):
        I = Interp(F, {"<str as StrExt>::has_casing": lambda I, a, fn, e: Sym("has_casing(%s)" % _n(a[0]))})
        toks = [mk(s, i) for i, s in enumerate(shapes)]
        parent = Adt("token::walk::Parent", "Parent", {"0": Ref(Place(Cell(
            Adt(T.BRANCH, "Concatenation", {"0": Adt("token::Concatenation", "Concatenation", {"0": RList(toks)})}))))})

        def run():
            from .. import models
            res = I.call_item(it, [Ref(Place(Cell(Sym("self")))), parent], inst=inst)
            items = models.drain(I, models._as_iter(I, res))
            return RList(items)
        cases = I.explore(run)
        # the verdict must not depend on undetermined facts about the text (e.g. whether it has casing)
        outs = []
        for c in cases:
            if not isinstance(c.result, RList):
                return None, cases
            outs.append([getattr(strip(strip(ch).fields.get("0")), "tag", "?") if isinstance(strip(ch), Adt) else "?" for ch in c.result.items])
        if any(o != outs[0] for o in outs):
            return None, cases
        res = cases[0].result
        out = []
        for child in res.items:
            c = strip(child)
            tok = strip(c.fields.get("0")) if isinstance(c, Adt) else None
            out.append(getattr(tok, "tag", "?"))
        return out, cases
    for s in singles:
        got, cases = evaluate([s])
        want = [mk(s, 0).tag] if (s in ADMITTED or s == "branch") else []
        n += 1
        R.check(got == want, "C09.admit", s, "admitted" if want else "stops the scan", it.where(),
                fail_msg="a trailing %s token is %s by the exhaustiveness sequencer (got %r, cases %r); admitted must be exactly "
                         "separators, `*`, `$`, `**` and branches: admitting a literal, class or `?` lets a bounded last "
                         "component be judged exhaustive" % (s, "admitted" if got else "rejected", got, cases[:1]))
    for length in range(2, maxlen + 1):
        for shapes in itertools.product(alphabet, repeat=length):
            got, cases = evaluate(list(shapes))
            # Necessary for soundness (not the algorithm itself): what is selected is a contiguous suffix of the children,
            # taken from the end, that contains no bounded leaf - a token in front of a bounded token must never
            # contribute.  How far the suffix reaches beyond that (past branches) is judged by C09.sound.
            k = 0
            while k < length and (shapes[length - 1 - k] in ADMITTED or shapes[length - 1 - k] == "branch"):
                k += 1
            longest = [mk(shapes[i], i).tag for i in range(length - 1, length - 1 - k, -1)]
            n += 1
            if got is not None and got == longest[:len(got)]:
                R.ok("C09.suffix", "/".join(shapes), "selects a suffix without bounded leaves (%d of %d)" % (len(got), length), it.where(), sample=(n % 97 == 0))
            else:
                R.fail("C09.suffix", "/".join(shapes), "children %s: selected %r, which is not a suffix (taken from the end) free of bounded "
                       "leaves (the longest such suffix is %r): scanning from the front, or past a bounded token, judges a bounded "
                       "tail exhaustive" % (list(shapes), got, longest), it.where())
    R.floor("C09.suffix", "child lists", n, 300)


def rule_repeat(F, R):
    """Necessary for soundness: a term that adds two or more components per iteration is not multiplied by the range of
    a repetition (`<*/*/>` only reaches even depths), whether it is conjunctive or a branch of a disjunctive term.
    Whether other terms are multiplied or kept only affects precision (a kept term is `never`) and is a don't-care."""
    it = F.find("<token::variance::TreeExhaustiveness as token::walk::Fold>::finalize")
    insts = F.instances_of(it)
    R.floor("C09.repeat", "finalize instances", len(insts), 1)
    inst = insts[0]
    sep = lambda v: Adt(c10.SEPT, "SeparatedTerm", {"0": Adt(c10.TERM, "Last", {}), "1": v})
    disj = lambda vs: Adt(c10.COMP, "Disjunctive", {"0": Adt(DT, "DisjunctiveTerm", {"0": RList([sep(v) for v in vs])})})
    terms = {
        # name -> (term, must be kept in a repetition?)   None = don't-care
        "inv0": (Adt(c10.COMP, "Conjunctive", {"0": sep(c10.inv(0))}), None),
        "inv1": (Adt(c10.COMP, "Conjunctive", {"0": sep(c10.inv(1))}), None),
        "inv2": (Adt(c10.COMP, "Conjunctive", {"0": sep(c10.inv(2))}), True),
        "inv5": (Adt(c10.COMP, "Conjunctive", {"0": sep(c10.inv(5))}), True),
        "unbounded": (Adt(c10.COMP, "Conjunctive", {"0": sep(c10.unbounded())}), None),
        "lower2": (Adt(c10.COMP, "Conjunctive", {"0": sep(c10.bounded(Adt(c10.BVR, "Lower", {"0": 2})))}), None),
        "disj[1,unbounded]": (disj([c10.inv(1), c10.unbounded()]), None),
        "disj[2,2]": (disj([c10.inv(2), c10.inv(2)]), True),
        "disj[1,3]": (disj([c10.inv(1), c10.inv(3)]), None),
        # sums of a range that begins at two or more and has an upper bound have gaps (3..4 never reaches 5)
        "both3+1": (Adt(c10.COMP, "Conjunctive", {"0": sep(c10.bounded(Adt(c10.BVR, "Both", {"lower": 3, "extent": 1})))}), True),
        "both1+1": (Adt(c10.COMP, "Conjunctive", {"0": sep(c10.bounded(Adt(c10.BVR, "Both", {"lower": 1, "extent": 1})))}), None),
        "disj[1,both3+1]": (disj([c10.inv(1), c10.bounded(Adt(c10.BVR, "Both", {"lower": 3, "extent": 1}))]), True),
    }
    stubs = {"token::variance::finalize": lambda I, a, fn, e: Sym("finalized")}
    n = 0
    for name, (term, must_keep) in terms.items():
        I = Interp(F, stubs)
        br = Adt(T.BRANCH, "Repetition", {"0": Sym("branch")})
        res = strip(tabulate.single(I.explore(lambda: I.call_item(it, [Ref(Place(Cell(Sym("self")))), Ref(Place(Cell(br))), term], inst=inst))))
        finalized = isinstance(res, Sym) and res.name == "finalized"
        n += 1
        if must_keep is None:
            R.ok("C09.repeat", "Repetition/" + name, "don't-care (multiplied: %s)" % finalized, it.where(), sample=False)
            continue
        R.check(not finalized and not isinstance(res, (Top, Panicked)), "C09.repeat", "Repetition/" + name,
                "kept as is (two or more components per iteration reach only some depths, `<*/*/>`)", it.where(),
                fail_msg="finalize(Repetition, %s) %s (result %r); a term that adds two or more components per iteration must not be "
                         "multiplied by the repetition's range: an open range would make it unbounded and the verdict `always`" % (
                             name, "multiplies the term" if finalized else "is unanalysable", res))
    R.floor("C09.repeat", "finalize cells", n, 12)


def rule_fold(F, R):
    it = F.find("<token::variance::TreeExhaustiveness as token::walk::Fold>::fold")
    insts = F.instances_of(it)
    R.floor("C09.fold", "fold instances", len(insts), 1)
    inst = insts[0]
    for nchildren, nterms in ((2, 2), (3, 1), (1, 1), (3, 2)):
        for verdict in ("Always", "Sometimes", "Never"):
            stubs = {"token::variance::fold": lambda I, a, fn, e: some(Sym("sum")),
                     "token::Composition::is_exhaustive": lambda I, a, fn, e, verdict=verdict: Adt(WHEN, verdict, {})}
            I = Interp(F, stubs)
            toks = [T.leaf("zom", str(i)) for i in range(nchildren)]
            br = Adt(T.BRANCH, "Concatenation", {"0": Adt("token::Concatenation", "Concatenation", {"0": RList(toks)})})
            terms = RList([Sym("t%d" % i) for i in range(nterms)])
            res = strip(tabulate.single(I.explore(lambda: I.call_item(it, [Ref(Place(Cell(Sym("self")))), Ref(Place(Cell(br))), terms], inst=inst))))
            v = strip(res.fields.get("0")) if isinstance(res, Adt) and res.variant == "Some" else None
            is_sum = isinstance(v, Sym) and v.name == "sum"
            want_sum = nchildren == nterms or verdict != "Never"
            inst_name = "%d children/%d terms/%s" % (nchildren, nterms, verdict)
            R.check(is_sum == want_sum and v is not None, "C09.fold", inst_name,
                    "the sum" if want_sum else "the zero term (some bounded token was skipped and the rest is not exhaustive)",
                    it.where(), fail_msg="fold with %s yields %r" % (inst_name, res))


def rule_sibling(F, R):
    for method, callee in (("is_exhaustive", "token::Token::is_exhaustive"), ("has_root", "token::Token::has_root")):
        seen = {}
        for owner in ("Glob", "Any"):
            it = F.find("<%s as Program>::%s" % (owner, method))
            stubs = {callee: lambda I, a, fn, e: Sym("%s(%s)" % (method, _n(a[0])))}
            I = Interp(F, stubs)
            me = Adt(owner, owner, {"tree": Sym("tree"), "program": Sym("program")})
            res = strip(tabulate.single(I.explore(lambda: I.call_item(it, [Ref(Place(Cell(me)))]))))
            seen[owner] = res
            good = isinstance(res, Sym) and res.name.startswith(method + "(tree.")
            R.check(good, "C09.sibling", "%s::%s" % (owner, method), "delegates to the token of its own tree", it.where(),
                    fail_msg="%s::%s returns %r instead of %s of its own token tree" % (owner, method, res, callee))


def _n(v):
    v = strip(v)
    return v.name if isinstance(v, Sym) else repr(v)


def rule_upper_bound(F, R):
    """A depth variance is exhaustive iff it has no upper bound, so a range operation that loses an upper bound the
    true interval has produces a false `always`.  Same grid and argument as C10.range (each bound is one of finitely
    many low-degree polynomial expressions chosen by the operands' shapes)."""
    import itertools
    I = Interp(F)
    grid = c10.range_grid()
    BVR = c10.BVR
    add = lambda x, y: None if x is None or y is None else x + y
    mul = lambda x, y: None if x is None or y is None else x * y
    ops = {
        "conjunction": (F.find("<%s as token::variance::ops::Conjunction>::conjunction" % BVR, trait_ref="Conjunction>"), add),
        "product": (F.find("<%s as token::variance::ops::Product>::product" % BVR, trait_ref="Product>"), mul),
    }
    n = 0
    for opname, (it, f) in ops.items():
        for (an, (a, ar)), (bn, (b, br)) in itertools.product(grid.items(), repeat=2):
            got = c10.decode_range(tabulate.single(I.explore(lambda: I.call_item(it, [a, b]))))
            want_hi = f(ar[1], br[1])
            n += 1
            good = got is not None and (got[1] is not None or want_hi is None)
            if good:
                R.ok("C09.upper", "%s/%s,%s" % (opname, an, bn), "upper bound kept" if want_hi is not None else "unbounded", it.where(), sample=(n % 131 == 0))
            else:
                R.fail("C09.upper", "%s/%s,%s" % (opname, an, bn), "%s of the ranges %s and %s is reported as %s: the upper bound %s is lost, "
                       "so a pattern of bounded depth would be judged `always` exhaustive (`<<*/:1,2>:0,2>*`)" % (opname, ar, br, got, want_hi), it.where())
    pn = F.find("<%s as token::variance::ops::Product>::product" % BVR, trait_ref="Product<std::num::NonZero")
    for (an, (a, ar)), k in itertools.product(grid.items(), (1, 2, 3)):
        got = c10.decode_range(tabulate.single(I.explore(lambda: I.call_item(pn, [a, k]))))
        n += 1
        R.check(got is not None and (got[1] is not None or ar[1] is None), "C09.upper", "product-n/%s x %d" % (an, k), "upper bound kept", pn.where(),
                fail_msg="the range %s repeated %d times is reported as %s: its upper bound is lost" % (ar, k, got))
    R.floor("C09.upper", "range cells", n, 300)
