"""C11 — Invariant text is the one and only path the pattern matches (finite parts)."""
import itertools

from ..teval import Adt, Tup, Ref, Place, Cell, Sym, RList, Char, StrB, Top, Panicked, strip, some, none, Interp
from ..facts import AnchorMissing
from .. import tabulate
from . import tokens as T
from . import c10

EXPLANATION = (
    "(sound) on the expression catalogue (sa/rules/exhaust.py: every top-level sequence of up to two / three segments around one alternation or repetition whose sub-expressions have up to two segments, two branch tokens in one sequence, a branch nested in a repetition; built as the parser builds them, kept when the rule checker accepts them) and on a catalogue of literal shapes (literals, alternations of equal and different literal branches, exactly and loosely bounded repetitions of literals, with and without a root), invariant text reported by Token::variance::<Text> is exactly the language of the emitted program ({text}); for the shapes of the catalogue, not for all expressions.  For all inputs, the finite parts: "
    "Static decision of the finite parts of the text variance: (leaf) the text term of every leaf kind - a literal is "
    "invariant unless its case flag differs from the platform's and it has casing, a negated class is variant, a class is "
    "the disjunction of its archetypes (single character / degenerate range invariant), a separator is the invariant "
    "structural `/`, every wildcard is unbounded; (order) Text and Fragment conjunction concatenate left-then-right, "
    "repeated(n) yields n copies; (disj) a disjunction of invariants is invariant only when the operands are equal; the "
    "fold operators are those of C10.ops; TextVariance::from maps an invariant to its text.  That the invariant text of a "
    "built glob is matched by it follows from C01.leaf (a literal matches exactly its escaped text) and is not decided.  "
    "(kinds, shared with C19) an owned glob keeps its compiled program and rebuilds its tree, so the text it reports is that of the rebuilt tree: the conversion keeps every leaf, the case flag of a literal included.")
RULES = "C11.sound (TABLE on a catalogue: verdict vs. language), C11.leaf (TABLE), C11.order (EFFECT), C11.disj (TABLE), C11.convert (TABLE), C19.kinds (TABLE: an owned glob keeps the leaves of its tree, case flags included)"

VAR = "token::variance::Variance"
BND = "token::variance::Boundedness"
TEXT = "token::variance::invariant::text::Text"
FRAG = "token::variance::invariant::text::Fragment"


def text_of(v):
    """(string, [kinds]) of a Text value, or None."""
    v = strip(v)
    if not isinstance(v, Adt) or v.path != TEXT:
        return None
    frs = strip(v.fields.get("fragments"))
    if not isinstance(frs, RList):
        return None
    s, kinds = "", []
    for f in frs.items:
        f = strip(f)
        if not isinstance(f, Adt) or f.path != FRAG:
            return None
        t = strip(f.fields.get("0"))
        if isinstance(t, StrB):
            t = t.text()
        if isinstance(t, Char):
            t = t.c
        if isinstance(t, Sym):
            t = "<%s>" % t.name
        if not isinstance(t, str):
            return None
        s += t
        kinds.append(f.variant[0] + ":" + t)
    return s, kinds


def shape_of(v):
    """'inv:<text>' | 'bounded' | 'unbounded' | '?'"""
    v = strip(v)
    if not isinstance(v, Adt) or v.path != VAR:
        return "?"
    x = strip(v.fields.get("0"))
    if v.variant == "Invariant":
        t = text_of(x)
        return "inv:" + (t[0] if t else "?")
    if isinstance(x, Adt) and x.path == BND:
        return "unbounded" if x.variant == "Unbounded" else "bounded"
    return "?"


def mk_text(frags):
    return Adt(TEXT, "Text", {"fragments": RList([Adt(FRAG, k, {"0": s}) for k, s in frags])})


def run(ctx):
    F = ctx.facts()
    R = ctx.report
    R.assume("Unix configuration: PATHS_ARE_CASE_INSENSITIVE = false")
    R.undecided("fragment equality under case folding (Windows only); that the invariant text of a built glob is matched "
                "by it (C01.leaf + regex semantics); classes listing a separator")
    rule_leaf(F, R)
    rule_order(F, R)
    rule_disj(F, R)
    rule_convert(F, R)
    from . import exhaust
    exhaust.report_query(F, R, "C11.sound", ctx.tier, "text", 5000, 200)
    # an owned glob (into_owned, FromStr) keeps the compiled program and rebuilds its tree: the text it reports is that
    # of the rebuilt tree, so the conversion must keep every leaf as it is (case flag included) - C19.kinds
    from . import c19
    c19.rule_kinds(F, R)


def rule_leaf(F, R):
    n = 0
    lit = F.find("<token::Literal as token::variance::VarianceTerm>::term", trait_ref="text::Text")
    for ci, casing in itertools.product((False, True), repeat=2):
        I = Interp(F, {"<str as StrExt>::has_casing": lambda I2, a, fn, e, casing=casing: casing})
        l = Adt("token::Literal", "Literal", {"text": "abc", "is_case_insensitive": ci})
        got = shape_of(tabulate.single(I.explore(lambda: I.call_item(lit, [Ref(Place(Cell(l)))]))))
        want = "bounded" if (ci and casing) else "inv:abc"
        n += 1
        R.check(got == want, "C11.leaf", "literal/ci=%s/casing=%s" % (ci, casing), want, lit.where(),
                fail_msg="a literal with case-insensitive=%s and cased characters=%s has text variance %s, expected %s (on a "
                         "case-sensitive platform a case-insensitive literal with casing matches several paths)" % (ci, casing, got, want))
    cls = F.find("<token::Class as token::variance::VarianceTerm>::term", trait_ref="text::Text")
    A = "token::Archetype"
    classes = {
        "[a]": (False, [Adt(A, "Character", {"0": Char("a")})], "inv:a"),
        "[!a]": (True, [Adt(A, "Character", {"0": Char("a")})], "bounded"),
        "[a-a]": (False, [Adt(A, "Range", {"0": Char("a"), "1": Char("a")})], "inv:a"),
        "[a-c]": (False, [Adt(A, "Range", {"0": Char("a"), "1": Char("c")})], "bounded"),
        "[ab]": (False, [Adt(A, "Character", {"0": Char("a")}), Adt(A, "Character", {"0": Char("b")})], "bounded"),
        "[aa]": (False, [Adt(A, "Character", {"0": Char("a")}), Adt(A, "Character", {"0": Char("a")})], "inv:a"),
        "[aa-c]": (False, [Adt(A, "Character", {"0": Char("a")}), Adt(A, "Range", {"0": Char("a"), "1": Char("c")})], "bounded"),
        "[!a-c]": (True, [Adt(A, "Range", {"0": Char("a"), "1": Char("c")})], "bounded"),
    }
    I = Interp(F)
    for name, (neg, arch, want) in classes.items():
        c = Adt("token::Class", "Class", {"is_negated": neg, "archetypes": RList(arch)})
        got = shape_of(tabulate.single(I.explore(lambda: I.call_item(cls, [Ref(Place(Cell(c)))]))))
        n += 1
        R.check(got == want, "C11.leaf", "class/" + name, want, cls.where(),
                fail_msg="the class %s has text variance %s, expected %s (a class is invariant only if it can match a single "
                         "character)" % (name, got, want))
    sep = F.find("<token::Separator as token::variance::VarianceTerm>::term", trait_ref="text::Text")
    res = tabulate.single(I.explore(lambda: I.call_item(sep, [Ref(Place(Cell(Adt("token::Separator", "Separator", {}))))])))
    t = text_of(strip(res).fields.get("0")) if isinstance(strip(res), Adt) and strip(res).variant == "Invariant" else None
    n += 1
    R.check(t is not None and t[0] == "/" and t[1] == ["S:/"], "C11.leaf", "separator", "invariant structural `/`", sep.where(),
            fail_msg="the text term of a separator is %r" % (res,))
    wc = F.find("<token::Wildcard as token::variance::VarianceTerm>::term", trait_ref="text::Text")
    for shape in ("one", "zom", "zom-lazy", "tree", "tree-rooted"):
        w = strip(T.leaf_kind(shape).fields["0"])
        got = shape_of(tabulate.single(I.explore(lambda: I.call_item(wc, [Ref(Place(Cell(w)))]))))
        n += 1
        R.check(got == "unbounded", "C11.leaf", "wildcard/" + shape, "unbounded", wc.where(),
                fail_msg="the text variance of wildcard %s is %s, expected unbounded" % (shape, got))
    R.floor("C11.leaf", "leaf cells", n, 18)


def rule_order(F, R):
    I = Interp(F)
    conj = F.find("<%s as token::variance::ops::Conjunction>::conjunction" % TEXT, trait_ref="Conjunction>")
    N, S = "Nominal", "Structural"
    cases = {
        "a+b": ([(N, "a")], [(N, "b")]),
        "a+/": ([(N, "a")], [(S, "/")]),
        "/+a": ([(S, "/")], [(N, "a")]),
        "a/+/b": ([(N, "a"), (S, "/")], [(S, "/"), (N, "b")]),
        "a/b+c/d": ([(N, "a"), (S, "/"), (N, "b")], [(N, "c"), (S, "/"), (N, "d")]),
        "empty+a": ([], [(N, "a")]),
        "a+empty": ([(N, "a")], []),
        "empty+empty": ([], []),
    }
    for name, (l, r) in cases.items():
        res = tabulate.single(I.explore(lambda: I.call_item(conj, [mk_text(l), mk_text(r)])))
        got = text_of(res)
        want = "".join(s for _k, s in l) + "".join(s for _k, s in r)
        # fragment kinds in order, adjacent like kinds merged
        kinds = []
        for k, s in l + r:
            if kinds and kinds[-1][0] == k[0]:
                kinds[-1] = (k[0], kinds[-1][1] + s)
            else:
                kinds.append((k[0], s))
        wantk = ["%s:%s" % ks for ks in kinds]
        R.check(got is not None and got[0] == want and got[1] == wantk, "C11.order", "conjunction/" + name, "%r %s" % (want, wantk), conj.where(),
                fail_msg="Text conjunction of %s and %s gives %r, expected text %r with fragments %s (left then right)" % (l, r, got, want, wantk))
    prod = F.find("<%s as token::variance::ops::Product>::product" % TEXT, trait_ref="Product<usize>")
    for n in (0, 1, 2, 3):
        res = tabulate.single(I.explore(lambda: I.call_item(prod, [mk_text([(N, "a"), (S, "/")]), n])))
        got = text_of(res)
        want = "a/" * n
        R.check(got is not None and got[0] == want, "C11.order", "repeated/%d" % n, repr(want), prod.where(),
                fail_msg="the invariant text `a/` repeated %d times is %r, expected %r" % (n, got, want))


def rule_disj(F, R):
    disj = F.find("<token::variance::Variance as token::variance::ops::Disjunction>::disjunction", self_ty="Boundedness<<T as")
    insts = F.instances_of(disj, "text::Text")
    R.floor("C11.disj", "disjunction instances for Text", len(insts), 1)
    inst = insts[0]
    I = Interp(F)
    N, S = "Nominal", "Structural"
    invt = lambda fr: Adt(VAR, "Invariant", {"0": mk_text(fr)})
    bounded = lambda: Adt(VAR, "Variant", {"0": Adt(BND, "Bounded", {"0": Adt("token::variance::invariant::UnitBound", "UnitBound", {})})})
    unb = lambda: Adt(VAR, "Variant", {"0": Adt(BND, "Unbounded", {})})
    cases = {
        "a|a": (invt([(N, "a")]), invt([(N, "a")]), "inv:a"),
        "a|b": (invt([(N, "a")]), invt([(N, "b")]), "bounded"),
        "a|A": (invt([(N, "a")]), invt([(N, "A")]), "bounded"),
        "a/|a/": (invt([(N, "a"), (S, "/")]), invt([(N, "a"), (S, "/")]), "inv:a/"),
        "a|a/": (invt([(N, "a")]), invt([(N, "a"), (S, "/")]), "bounded"),
        "a|bounded": (invt([(N, "a")]), bounded(), "bounded"),
        "bounded|a": (bounded(), invt([(N, "a")]), "bounded"),
        "a|unbounded": (invt([(N, "a")]), unb(), "unbounded"),
        "bounded|unbounded": (bounded(), unb(), "unbounded"),
        "bounded|bounded": (bounded(), bounded(), "bounded"),
    }
    for name, (l, r, want) in cases.items():
        got = shape_of(tabulate.single(I.explore(lambda: I.call_item(disj, [l, r], inst=inst))))
        ok_ = got == want or (want == "bounded" and got == "unbounded")
        R.check(ok_, "C11.disj", name, want, disj.where(),
                fail_msg="the text variance of the alternation %s is %s, expected %s: a pattern that can match two different "
                         "texts must report variant text" % (name, got, want))


def rule_convert(F, R):
    conv = F.find("<query::Variance as std::convert::From>::from", trait_ref="text::Text")
    I = Interp(F)
    N, S = "Nominal", "Structural"
    v = Adt(VAR, "Invariant", {"0": mk_text([(N, "a"), (S, "/"), (N, "b")])})
    res = strip(tabulate.single(I.explore(lambda: I.call_item(conv, [v]))))
    t = strip(res.fields.get("0")) if isinstance(res, Adt) and res.variant == "Invariant" else None
    if isinstance(t, StrB):
        t = t.text()
    R.check(t == "a/b", "C11.convert", "invariant", "Program::text() is the fragments joined in order", conv.where(),
            fail_msg="TextVariance::from(Invariant(a,/,b)) = %r" % (res,))
    v2 = Adt(VAR, "Variant", {"0": Adt(BND, "Unbounded", {})})
    res = strip(tabulate.single(I.explore(lambda: I.call_item(conv, [v2]))))
    R.check(isinstance(res, Adt) and res.variant == "Variant", "C11.convert", "variant", "variant stays variant", conv.where(),
            fail_msg="TextVariance::from(Variant) = %r" % (res,))
