"""C10 — Reported depth bounds contain the depth of every match (finite algebra only)."""
from ..teval import Adt, Tup, Ref, Place, Cell, Sym, PyFn, RList, Top, Panicked, strip, some, none, UNIT
from ..facts import AnchorMissing
from .. import tabulate

EXPLANATION = (
    "(sound) on the expression catalogue (sa/rules/exhaust.py: every top-level sequence of up to two / three segments around one alternation or repetition whose sub-expressions have up to two segments, two branch tokens in one sequence, a branch nested in a repetition; built as the parser builds them, kept when the rule checker accepts them) the depth variance Token::variance::<Depth> reports (the whole fold evaluated from its THIR) is compared with the number of components of the canonical paths the emitted program matches - minimum and maximum computed on its automaton, relative paths for an unrooted pattern, rooted ones for a rooted pattern, the empty path left out: invariant n means exactly n, a range must contain them.  This decides the property for the shapes of the catalogue, not for all expressions.  For all inputs, the finite algebra: "
    "Static decision of the finite algebra the depth analysis is built from: the 25-cell termination conjunction table "
    "against a reference computed from a model (edges are separators or not; a tree wildcard owns the edge it touches), "
    "the finalisation of separated terms (+1 for an open term on every bound, -1 for a closed invariant, others "
    "unchanged), the depth terms of all leaf kinds, the fold operators of the nine VarianceFold impls (alternation = "
    "disjunction, concatenation and repetition = conjunction, repetition finalised by a product with its own range), and "
    "the result shapes of Variance conjunction / disjunction / product (anything combined with an unbounded term is "
    "never invariant and never regains an upper bound).  (range) the arithmetic of the natural ranges: conjunction, disjunction, product (range x range and range x factor) and translation of BoundedVariantRange, evaluated on a grid of all operand shapes (Lower / Upper / Both) x three magnitudes each, contain the result of interval arithmetic - each bound is one of finitely many polynomials of degree <= 2 chosen by the operand shapes, so the grid decides which one is used.  "
    "(public) Program::depth of Glob and Any, evaluated with the tree query replaced by each of 20 internal variances (invariant 0..3, unbounded, every shape of bounded range x three magnitudes), returns a public value that - read through its own accessors invariant / variant / lower / upper - denotes the same interval: the conversion into the public types neither swaps nor drops a bound.")
RULES = "C10.sound (TABLE on a catalogue: verdict vs. language), C10.term (TABLE), C10.final (TABLE), C10.leaf (TABLE), C10.ops (SIBLING), C10.shape (TABLE), C10.range (TABLE on a grid), C10.public (TABLE on a grid + SIBLING: Program::depth hands out the interval the analysis computed)"

TERM = "token::variance::invariant::term::Termination"
COAL = "token::variance::invariant::term::Coalescence"
SEPT = "token::variance::invariant::term::SeparatedTerm"
VAR = "token::variance::Variance"
BND = "token::variance::Boundedness"
BVR = "token::variance::natural::BoundedVariantRange"
DEPTH = "token::variance::invariant::Depth"
COMP = "token::Composition"

EDGES = {"Open": (False, False), "First": (True, False), "Last": (False, True), "Closed": (True, True)}
NAMES = {v: k for k, v in EDGES.items()}


def ref_termination(a, b):
    """Model: a term is (left edge is a separator, right edge is a separator); conjunction keeps the
    outer edges; a coalescent (tree wildcard) neighbour owns the shared edge, closes that side and
    requires the other operand to be finalised before summing."""
    if a == "Coalescent" and b == "Coalescent":
        return ("Neither", "Coalescent")
    if a == "Coalescent":
        return ("Right", NAMES[(True, EDGES[b][1])])
    if b == "Coalescent":
        return ("Left", NAMES[(EDGES[a][0], True)])
    return ("Neither", NAMES[(EDGES[a][0], EDGES[b][1])])


def run(ctx):
    F = ctx.facts()
    R = ctx.report
    R.assume("the leaf/branch structure handed to the fold is the token tree of the expression (parser, C01)")
    R.undecided("arithmetic over the natural ranges (by_bound_with, union, translation, products) and therefore the "
                "containment law itself; decided: the finite tables every depth computation is composed from")
    rule_term(F, R)
    rule_final(F, R)
    rule_leaf(F, R)
    rule_ops(F, R)
    rule_shape(F, R)
    rule_range(F, R)
    from . import exhaust
    exhaust.report_query(F, R, "C10.sound", ctx.tier, "depth", 5000, 1500)
    rule_public(F, R)


def new_interp(F, stubs=None):
    from ..teval import Interp
    return Interp(F, stubs=stubs)


def rule_term(F, R):
    it = F.find("<%s as token::variance::ops::Conjunction>::conjunction" % TERM)
    I = new_interp(F)
    vals = tabulate.enum_values(F, TERM)
    R.check(sorted(v.variant for v in vals) == sorted(list(EDGES) + ["Coalescent"]), "C10.term", "variants",
            "Termination = {Open, First, Last, Closed, Coalescent}", it.where(),
            fail_msg="Termination has variants %s; the model knows Open/First/Last/Closed/Coalescent" % [v.variant for v in vals])
    n = 0
    for (a, b), cases in tabulate.table(I, it, [vals, vals]):
        n += 1
        res = tabulate.single(cases)
        inst = "%s x %s" % (a.variant, b.variant)
        if a.variant not in list(EDGES) + ["Coalescent"] or b.variant not in list(EDGES) + ["Coalescent"]:
            R.fail("C10.term", inst, "unknown termination", it.where())
            continue
        want = ref_termination(a.variant, b.variant)
        res = strip(res)
        got = (res.variant, strip(res.fields["0"]).variant) if isinstance(res, Adt) and res.path == COAL else None
        R.check(got == want, "C10.term", inst, "%s(%s)" % want, it.where(),
                fail_msg="conjunction of terminations %s gives %r, the edge model gives %s(%s): a wrong edge changes the "
                         "component count of every concatenation with these edges by one" % (inst, res, want[0], want[1]))
    R.floor("C10.term", "cells", n, 25)


def depth(n):
    return Adt(DEPTH, "Depth", {"0": n})


def inv(n):
    return Adt(VAR, "Invariant", {"0": depth(n)})


def unbounded():
    return Adt(VAR, "Variant", {"0": Adt(BND, "Unbounded", {})})


def bounded(r):
    return Adt(VAR, "Variant", {"0": Adt(BND, "Bounded", {"0": r})})


def decode(v):
    """TokenVariance<Depth> -> (lower, upper or None) or None if not understood."""
    v = strip(v)
    if not isinstance(v, Adt) or v.path != VAR:
        return None
    x = strip(v.fields.get("0"))
    if v.variant == "Invariant":
        n = strip(x.fields.get("0")) if isinstance(x, Adt) else None
        return (n, n) if isinstance(n, int) else None
    if not isinstance(x, Adt) or x.path != BND:
        return None
    if x.variant == "Unbounded":
        return (0, None)
    r = strip(x.fields.get("0"))
    if not isinstance(r, Adt) or r.path != BVR:
        return None
    f = {k: strip(val) for k, val in r.fields.items()}
    if r.variant == "Lower":
        return (f["0"], None)
    if r.variant == "Upper":
        return (0, f["0"])
    if r.variant == "Both":
        return (f["lower"], f["lower"] + f["extent"])
    return None


def contains(got, want):
    """The reported range contains the model range (the property is a containment law; a looser bound is
    not a violation, e.g. translating an upper-only range keeps the lower bound at zero)."""
    if got is None or want is None:
        return False
    if got[0] > want[0]:
        return False
    if got[1] is None:
        return True
    return want[1] is not None and got[1] >= want[1]


def rule_final(F, R):
    cands = [it for it in F.find("<%s as token::variance::invariant::Finalize>::finalize" % SEPT, many=True)]
    cands = [it for it in cands if "Depth" in (it.impl_self or "")]
    if len(cands) != 1:
        raise AnchorMissing("Finalize impl for SeparatedTerm<TokenVariance<Depth>> (%d candidates)" % len(cands))
    it = cands[0]
    I = new_interp(F)
    terms = {
        "inv0": lambda: inv(0), "inv1": lambda: inv(1), "inv3": lambda: inv(3), "unbounded": unbounded,
        "lower2": lambda: bounded(Adt(BVR, "Lower", {"0": 2})), "upper2": lambda: bounded(Adt(BVR, "Upper", {"0": 2})),
        "both1+2": lambda: bounded(Adt(BVR, "Both", {"lower": 1, "extent": 2})),
    }
    n = 0
    for t in F.variants(TERM):
        for name, mk in terms.items():
            before = decode(mk())
            cases = I.explore(lambda: I.call_item(it, [Adt(SEPT, "SeparatedTerm", {"0": Adt(TERM, t, {}), "1": mk()})]))
            res = tabulate.single(cases)
            got = decode(res) if res is not None else None
            inst = "%s/%s" % (t, name)
            n += 1
            if t == "Open":
                want = (before[0] + 1, None if before[1] is None else before[1] + 1)
            elif t == "Closed":
                if name.startswith("inv"):
                    want = (max(before[0] - 1, 0),) * 2
                else:
                    R.ok("C10.final", inst, "don't-care (closed variant term: the property only needs containment)", it.where(), sample=False)
                    continue
            else:
                want = before
            R.check(contains(got, want), "C10.final", inst, "range %s -> contains %s" % (before, want), it.where(),
                    fail_msg="finalising a %s term with range %s gives %r (range %s), expected %s: an open term has one more "
                             "component than separators, a closed invariant one fewer" % (t, before, res, got, want))
    R.floor("C10.final", "cells", n, 35)


def rule_leaf(F, R):
    I = new_interp(F)
    W = "token::Wildcard"
    leaves = [
        ("Separator", "<token::Separator as token::variance::VarianceTerm>::term", Adt("token::Separator", "Separator", {}), ("Closed", (1, 1))),
        ("Literal", "<token::Literal as token::variance::VarianceTerm>::term", Sym("literal"), ("Open", (0, 0))),
        ("Class", "<token::Class as token::variance::VarianceTerm>::term", Sym("class"), ("Open", (0, 0))),
        ("Wildcard::One", "<token::Wildcard as token::variance::VarianceTerm>::term", Adt(W, "One", {}), ("Open", (0, 0))),
        ("Wildcard::ZeroOrMore", "<token::Wildcard as token::variance::VarianceTerm>::term", Adt(W, "ZeroOrMore", {"0": Sym("evaluation")}), ("Open", (0, 0))),
        ("Wildcard::Tree(rooted)", "<token::Wildcard as token::variance::VarianceTerm>::term", Adt(W, "Tree", {"has_root": True}), ("Coalescent", (0, None))),
        ("Wildcard::Tree(unrooted)", "<token::Wildcard as token::variance::VarianceTerm>::term", Adt(W, "Tree", {"has_root": False}), ("Coalescent", (0, None))),
    ]
    kinds = set(F.variants("token::LeafKind"))
    R.check(kinds == {"Class", "Literal", "Separator", "Wildcard"} and set(F.variants(W)) == {"One", "ZeroOrMore", "Tree"},
            "C10.leaf", "leaf kinds", "all leaf kinds are covered by the table", "src/token/mod.rs",
            fail_msg="leaf kinds %s / wildcards %s differ from the ones the reference table covers" % (sorted(kinds), F.variants(W)))
    for name, q, arg, (wt, wr) in leaves:
        it = F.find(q, trait_ref="invariant::Depth")
        cases = I.explore(lambda: I.call_item(it, [Ref(Place(Cell(arg)))]))
        res = strip(tabulate.single(cases))
        got = None
        if isinstance(res, Adt) and res.path == COMP and res.variant == "Conjunctive":
            st = strip(res.fields.get("0"))
            if isinstance(st, Adt) and st.path == SEPT:
                got = (strip(st.fields["0"]).variant, decode(st.fields["1"]))
        R.check(got == (wt, wr), "C10.leaf", name, "depth term (%s, %s)" % (wt, wr), it.where(),
                fail_msg="depth term of %s is %r, expected termination %s with range %s (a separator is one boundary, a "
                         "tree wildcard any number of components, every other leaf none)" % (name, res, wt, wr))
    # the generic dispatcher forwards to the impl of the leaf's own kind
    disp = F.find("<token::LeafKind as token::variance::VarianceTerm>::term")
    insts = F.instances_of(disp, "Depth")
    R.floor("C10.leaf", "LeafKind::term instances for Depth", len(insts), 1)
    for inst_id in insts[:1]:
        for name, _q, arg, (wt, wr) in leaves:
            kind = name.split("::")[0].split("(")[0]
            leaf = Adt("token::LeafKind", kind, {"0": arg})
            cases = I.explore(lambda: I.call_item(disp, [Ref(Place(Cell(leaf)))], inst=inst_id))
            res = strip(tabulate.single(cases))
            got = None
            if isinstance(res, Adt) and res.path == COMP:
                st = strip(res.fields.get("0"))
                if isinstance(st, Adt) and st.path == SEPT:
                    got = (strip(st.fields["0"]).variant, decode(st.fields["1"]))
            R.check(got == (wt, wr), "C10.leaf", "LeafKind::" + name, "dispatches to the term of its own kind", disp.where(),
                    fail_msg="LeafKind::term for %s gives %r, expected (%s, %s)" % (name, res, wt, wr))


def sym_ops():
    def mk(name):
        def f(I, a, fn, e):
            return Sym("%s(%s,%s)" % (name, _n(a[0]), _n(a[1])))
        return f
    return {"token::variance::ops::conjunction": mk("conj"), "token::variance::ops::disjunction": mk("disj"),
            "token::variance::ops::product": mk("prod")}


def _n(v):
    v = strip(v)
    return v.name if isinstance(v, Sym) else repr(v)


def rule_ops(F, R):
    want_fold = {"token::Alternation": "disj(disj(t1,t2),t3)", "token::Concatenation": "conj(conj(t1,t2),t3)",
                 "token::Repetition": "conj(conj(t1,t2),t3)"}
    n = 0
    for adt, want in want_fold.items():
        folds = F.find("<%s as token::variance::VarianceFold>::fold" % adt, many=True)
        R.floor("C10.ops", "VarianceFold impls for " + adt, len(folds), 3)
        for it in folds:
            q = "%s [%s]" % (it.qname, (it.impl_trait_ref or "").split("VarianceFold")[-1])
            stubs = sym_ops()
            I = new_interp(F, stubs)
            cases = I.explore(lambda: I.call_item(it, [Ref(Place(Cell(Sym("self")))), RList([Sym("t1"), Sym("t2"), Sym("t3")])]))
            res = strip(tabulate.single(cases))
            v = strip(res.fields.get("0")) if isinstance(res, Adt) and res.variant == "Some" else None
            n += 1
            R.check(isinstance(v, Sym) and v.name == want, "C10.ops", "fold:" + q, want, it.where(),
                    fail_msg="%s folds [t1,t2,t3] into %r, expected %s (alternation = union of branches, concatenation and "
                             "repetition body = sum, in order)" % (q, res, want))
            # single term: returned as is; no terms: None
            cases = I.explore(lambda: I.call_item(it, [Ref(Place(Cell(Sym("self")))), RList([])]))
            res0 = strip(tabulate.single(cases))
            R.check(isinstance(res0, Adt) and res0.variant == "None", "C10.ops", "fold-empty:" + q, "no terms -> None", it.where())
    # finalize: repetition multiplies by its own range, the others are the identity (trait default)
    fins = F.find("<token::Repetition as token::variance::VarianceFold>::finalize", many=True)
    R.floor("C10.ops", "Repetition::finalize impls", len(fins), 3)
    for it in fins:
        q = "%s [%s]" % (it.qname, (it.impl_trait_ref or "").split("VarianceFold")[-1])
        stubs = sym_ops()
        stubs["token::Repetition::variance"] = lambda I, a, fn, e: Sym("variance(%s)" % _n(a[0]))
        I = new_interp(F, stubs)
        cases = I.explore(lambda: I.call_item(it, [Ref(Place(Cell(Sym("self")))), Sym("term")]))
        res = strip(tabulate.single(cases))
        R.check(isinstance(res, Sym) and res.name == "prod(term,variance(self))", "C10.ops", "finalize:" + q,
                "product of the body term with the repetition's own range", it.where(),
                fail_msg="%s finalises to %r, expected prod(term, self.variance())" % (q, res))
    for adt in ("token::Alternation", "token::Concatenation"):
        extra = F.find("<%s as token::variance::VarianceFold>::finalize" % adt, many=True)
        R.check(not extra, "C10.ops", "finalize:%s" % adt, "uses the identity default", "src/token/mod.rs",
                fail_msg="%s overrides VarianceFold::finalize (%d impls); the reference expects the identity" % (adt, len(extra)))
    default = F.find("token::variance::VarianceFold::finalize")
    I = new_interp(F)
    cases = I.explore(lambda: I.call_item(default, [Ref(Place(Cell(Sym("self")))), Sym("term")]))
    res = strip(tabulate.single(cases))
    R.check(isinstance(res, Sym) and res.name == "term", "C10.ops", "finalize:default", "identity", default.where())
    # BranchKind dispatches each variant to its own kind (instance mode: exact trait selection)
    bk = F.find("<token::BranchKind as token::variance::VarianceFold>::fold")
    insts = F.instances_of(bk)
    R.floor("C10.ops", "BranchKind::fold instances", len(insts), 3)
    for inst_id in insts:
        targs = F.instances[inst_id]["args"]
        for variant, want in (("Alternation", "disj(disj(t1,t2),t3)"), ("Concatenation", "conj(conj(t1,t2),t3)"),
                              ("Repetition", "conj(conj(t1,t2),t3)")):
            I = new_interp(F, sym_ops())
            br = Adt("token::BranchKind", variant, {"0": Sym("branch")})
            cases = I.explore(lambda: I.call_item(bk, [Ref(Place(Cell(br))), RList([Sym("t1"), Sym("t2"), Sym("t3")])], inst=inst_id))
            res = strip(tabulate.single(cases))
            v = strip(res.fields.get("0")) if isinstance(res, Adt) and res.variant == "Some" else None
            R.check(isinstance(v, Sym) and v.name == want, "C10.ops", "BranchKind::%s%s" % (variant, targs[-1:]), want, bk.where(),
                    fail_msg="BranchKind::%s (instance %s) folds to %r, expected %s" % (variant, targs, res, want))


def rule_shape(F, R):
    """Result shapes of TokenVariance conjunction / disjunction / product-with-range for Depth."""
    shapes = {"I": lambda n: Adt(VAR, "Invariant", {"0": Sym("i" + n)}),
              "B": lambda n: Adt(VAR, "Variant", {"0": Adt(BND, "Bounded", {"0": Sym("b" + n)})}),
              "U": lambda n: Adt(VAR, "Variant", {"0": Adt(BND, "Unbounded", {})})}

    def classify(v):
        v = strip(v)
        if isinstance(v, Sym):
            return "opaque:" + v.name
        if not isinstance(v, Adt) or v.path != VAR:
            return "?"
        x = strip(v.fields.get("0"))
        if v.variant == "Invariant":
            return "I:" + _n(x)
        if isinstance(x, Sym):
            return "V:" + x.name
        if isinstance(x, Adt) and x.path == BND:
            return "U" if x.variant == "Unbounded" else "B:" + _n(x.fields.get("0"))
        return "?"
    stubs = sym_ops()
    stubs["token::variance::invariant::Invariant::into_lower_bound"] = lambda I, a, fn, e: Sym("lower_bound(%s)" % _n(a[0]))
    stubs["token::variance::natural::OpenedUpperBound::opened_upper_bound"] = lambda I, a, fn, e: Sym("opened_upper(%s)" % _n(a[0]))
    stubs["token::variance::invariant::Invariant::bound"] = lambda I, a, fn, e: Sym("bound(%s,%s)" % (_n(a[0]), _n(a[1])))
    conj = F.find("<token::variance::Variance as token::variance::ops::Conjunction>::conjunction", self_ty="Boundedness<<T as")
    ref_conj = {
        ("I", "I"): "I:conj(il,ir)", ("B", "B"): "B:conj(bl,br)", ("U", "U"): "U",
        ("B", "I"): "B:conj(bl,ir)", ("I", "B"): "B:conj(br,il)",
        ("U", "I"): "V:lower_bound(ir)", ("I", "U"): "V:lower_bound(il)",
        ("U", "B"): "V:opened_upper(br)", ("B", "U"): "V:opened_upper(bl)",
    }
    I = new_interp(F, stubs)
    # the trait methods above are called on type parameters: stub them by trait-method path as well
    I.rule_stubs["<token::variance::invariant::Depth as token::variance::invariant::Invariant>::into_lower_bound"] = stubs["token::variance::invariant::Invariant::into_lower_bound"]
    for (a, b), want in ref_conj.items():
        cases = I.explore(lambda: I.call_item(conj, [shapes[a]("l"), shapes[b]("r")], inst=False))
        got = classify(tabulate.single(cases))
        R.check(got in (want, "U"), "C10.shape", "conjunction/%s%s" % (a, b), want + " (or the always-sound unbounded)", conj.where(),
                fail_msg="conjunction of shapes (%s,%s) gives %s, expected %s: a sum with an unbounded term must stay "
                         "variant and without upper bound, a sum of invariants must stay invariant" % (a, b, got, want))
    disj = F.find("<token::variance::Variance as token::variance::ops::Disjunction>::disjunction", self_ty="Boundedness<<T as")
    ref_disj = {
        ("I", "I"): "V:bound(il,ir)", ("U", "I"): "U", ("I", "U"): "U", ("U", "B"): "U", ("B", "U"): "U",
        ("B", "B"): "V:disj(bl,br)", ("B", "I"): "V:disj(bl,ir)", ("I", "B"): "V:disj(br,il)",
    }
    for (a, b), want in ref_disj.items():
        cases = I.explore(lambda: I.call_item(disj, [shapes[a]("l"), shapes[b]("r")], inst=False))
        # cases: lhs == rhs decided true / false
        for c in cases:
            eq = [d for d in c.decisions if "==" in d[0]]
            equal = bool(eq) and all(d[3] == "true" for d in eq)
            got = classify(c.result)
            if equal:
                R.check(got in (classify(shapes[a]("l")), "U"), "C10.shape", "disjunction/%s%s/equal" % (a, b), "one of the equal terms",
                        disj.where(), fail_msg="disjunction of equal terms gives %s" % got)
            else:
                R.check(got in (want, "U"), "C10.shape", "disjunction/%s%s" % (a, b), want + " (or the always-sound unbounded)", disj.where(),
                        fail_msg="disjunction of shapes (%s,%s) gives %s, expected %s: a union with an unbounded term is "
                                 "unbounded, a union of unequal invariants is variant" % (a, b, got, want))
    cases = I.explore(lambda: I.call_item(disj, [shapes["U"]("l"), shapes["U"]("r")], inst=False))
    for c in cases:
        R.check(classify(c.result) == "U", "C10.shape", "disjunction/UU", "U", disj.where())


# ---------------------------------------------------------------------------------------------------
# C10.range: the operations on bounded variant ranges against interval arithmetic


def range_grid():
    out = {}
    for a in (1, 2, 3):
        out["Lower(%d)" % a] = (Adt(BVR, "Lower", {"0": a}), (a, None))
        out["Upper(%d)" % a] = (Adt(BVR, "Upper", {"0": a}), (0, a))
        for e in (1, 2, 3):
            out["Both(%d+%d)" % (a, e)] = (Adt(BVR, "Both", {"lower": a, "extent": e}), (a, a + e))
    return out


def decode_range(v):
    """BoundedVariantRange | Boundedness<BoundedVariantRange> -> (lower, upper or None)."""
    v = strip(v)
    if isinstance(v, Adt) and v.path == BND:
        if v.variant == "Unbounded":
            return (0, None)
        v = strip(v.fields.get("0"))
    if not isinstance(v, Adt) or v.path != BVR:
        return None
    f = {k: strip(x) for k, x in v.fields.items()}
    if not all(isinstance(x, int) for x in f.values()):
        return None
    if v.variant == "Lower":
        return (f["0"], None)
    if v.variant == "Upper":
        return (0, f["0"])
    return (f["lower"], f["lower"] + f["extent"])


def rule_range(F, R):
    """Each bound of a result is computed by one of finitely many polynomial expressions of degree <= 2 in
    the magnitudes, selected by the shapes of the operands (Lower / Upper / Both) and by comparisons with zero;
    agreement with interval arithmetic on three values per magnitude in every shape combination therefore
    decides which expression is used.  Containment is required (a looser range is sound)."""
    import itertools
    from ..teval import Interp
    I = Interp(F)
    grid = range_grid()
    add = lambda x, y: None if x is None or y is None else x + y
    mul = lambda x, y: None if x is None or y is None else x * y
    binary = {
        "conjunction": (F.find("<%s as token::variance::ops::Conjunction>::conjunction" % BVR, trait_ref="Conjunction>"),
                        lambda a, b: (a[0] + b[0], add(a[1], b[1]))),
        "disjunction": (F.find("<%s as token::variance::ops::Disjunction>::disjunction" % BVR, trait_ref="Disjunction>"),
                        lambda a, b: (min(a[0], b[0]), None if a[1] is None or b[1] is None else max(a[1], b[1]))),
        "product": (F.find("<%s as token::variance::ops::Product>::product" % BVR, trait_ref="Product>"),
                    lambda a, b: (a[0] * b[0], mul(a[1], b[1]))),
    }
    n = 0
    for opname, (it, ref) in binary.items():
        for (an, (a, ar)), (bn, (b, br)) in itertools.product(grid.items(), repeat=2):
            cases = I.explore(lambda: I.call_item(it, [a, b]))
            res = tabulate.single(cases)
            got = decode_range(res)
            want = ref(ar, br)
            n += 1
            name = "%s/%s,%s" % (opname, an, bn)
            if contains(got, want):
                R.ok("C10.range", name, "%s contains %s" % (got, want), it.where(), sample=(n % 97 == 0))
            else:
                R.fail("C10.range", name, "%s of the ranges %s and %s is %r (range %s), interval arithmetic gives %s: a match whose "
                       "depth lies outside the reported bounds becomes possible" % (opname, ar, br, res, got, want), it.where())
    pn = F.find("<%s as token::variance::ops::Product>::product" % BVR, trait_ref="Product<std::num::NonZero")
    for (an, (a, ar)), k in itertools.product(grid.items(), (1, 2, 3)):
        got = decode_range(tabulate.single(I.explore(lambda: I.call_item(pn, [a, k]))))
        want = (ar[0] * k, mul(ar[1], k))
        n += 1
        R.check(contains(got, want), "C10.range", "product-n/%s x %d" % (an, k), "contains %s" % (want,), pn.where(),
                fail_msg="the range %s repeated %d times is reported as %s, interval arithmetic gives %s (`<a/b/:1,3>c` matches depth "
                         "7 but would report an upper bound below it)" % (ar, k, got, want))
    tr = F.find("%s::translation" % BVR)
    for (an, (a, ar)), v in itertools.product(grid.items(), (0, 1, 2)):
        got = decode_range(tabulate.single(I.explore(lambda: I.call_item(tr, [a, v]))))
        want = (ar[0] + v, add(ar[1], v))
        n += 1
        R.check(contains(got, want), "C10.range", "translation/%s + %d" % (an, v), "contains %s" % (want,), tr.where(),
                fail_msg="the range %s translated by %d is reported as %s, interval arithmetic gives %s" % (ar, v, got, want))
    un = F.find("%s::union" % BVR)
    un_inst = (F.instances_of(un, "usize") or [None])[0]
    for (an, (a, ar)), v in itertools.product(grid.items(), (0, 1, 2, 5)):
        got = decode_range(tabulate.single(I.explore(lambda: I.call_item(un, [a, v], inst=un_inst))))
        want = (min(ar[0], v), None if ar[1] is None else max(ar[1], v))
        n += 1
        R.check(contains(got, want), "C10.range", "union/%s u %d" % (an, v), "contains %s" % (want,), un.where(),
                fail_msg="the union of the range %s with the invariant %d is reported as %s, expected to contain %s" % (ar, v, got, want))
    ou = F.find("<%s as token::variance::natural::OpenedUpperBound>::opened_upper_bound" % BVR)
    for an, (a, ar) in grid.items():
        got = decode_range(tabulate.single(I.explore(lambda: I.call_item(ou, [a]))))
        want = (ar[0], None)
        n += 1
        R.check(contains(got, want) and got is not None and got[1] is None, "C10.range", "opened_upper_bound/" + an, "no upper bound, lower kept: %s" % (want,), ou.where(),
                fail_msg="opening the upper bound of %s gives %s, expected %s" % (ar, got, want))
    fco = F.find("token::variance::Variance::from_closed_and_open")
    fco_inst = (F.instances_of(fco, "Option<usize>") or F.instances_of(fco) or [None])[0]
    for lo, hi in itertools.product(range(0, 4), [None, 0, 1, 2, 3]):
        res = strip(tabulate.single(I.explore(lambda: I.call_item(fco, [lo, some(hi) if hi is not None else none()], inst=fco_inst))))
        if isinstance(res, Adt) and res.path == VAR and res.variant == "Invariant":
            x = strip(res.fields["0"])
            got = (x, x) if isinstance(x, int) else None
        elif isinstance(res, Adt) and res.path == VAR:
            got = decode_range(res.fields["0"])
        else:
            got = None
        a, b = (lo, hi) if hi is None or lo <= hi else (hi, lo)
        want = (a, b)
        n += 1
        R.check(got == want, "C10.range", "from_closed_and_open(%s,%s)" % (lo, hi), str(want), fco.where(),
                fail_msg="a repetition written `:%s,%s` has the range %s, expected %s (bounds reordered, an open upper bound stays open)" % (
                    lo, "" if hi is None else hi, got, want))
    R.floor("C10.range", "range cells", n, 600)


# ---------------------------------------------------------------------------------------------------
# C10.public: what Program::depth hands to the caller is the depth variance the analysis computed


def rule_public(F, R):
    """C10.public (TABLE on a grid + SIBLING): `Program::depth` of Glob and of Any is evaluated with the token tree's
    own variance query replaced by each value of a grid of internal depth variances (invariant 0..3, unbounded, every
    shape of bounded range x three magnitudes); the public value it returns (query::Variance<usize, VariantRange>), read
    through its own accessors (`invariant()`, `variant()`, `VariantRange::lower()` / `upper()`), must denote the same
    interval: the conversion into the public types neither swaps nor drops a bound, and both impls ask their own tree."""
    from ..teval import Interp
    grid = {"Invariant(%d)" % n: (Adt(VAR, "Invariant", {"0": Adt(DEPTH, "Depth", {"0": n})}), (n, n)) for n in range(0, 4)}
    grid["Unbounded"] = (unbounded(), (0, None))
    for name, (r, iv) in range_grid().items():
        grid[name] = (bounded(r), iv)
    inv_acc = F.find("query::Variance::invariant", optional=True)
    var_acc = F.find("query::Variance::variant", optional=True)
    def public_accessor(name):
        c = [it for it in F.items.values() if it.name == name and it.kind == "AssocFn" and it.where().startswith("src/query.rs") and
             it.qname.endswith("Boundedness::" + name)]
        return c[0] if len(c) == 1 else None
    low, upp = public_accessor("lower"), public_accessor("upper")
    if None in (inv_acc, var_acc, low, upp):
        R.anchor_missing("C10.public", "the accessors of query::Variance / VariantRange (invariant, variant, lower, upper)")
        return

    def opt(v):
        v = strip(v)
        if isinstance(v, Adt) and v.variant == "Some":
            return strip(v.fields["0"])
        return None

    def bound(v):
        """Boundedness<NonZeroUsize> -> int | None (unbounded) | 'bad'"""
        v = strip(v)
        if isinstance(v, Adt) and v.variant == "Unbounded":
            return None
        if isinstance(v, Adt) and v.variant == "Bounded":
            x = strip(v.fields["0"])
            return x if isinstance(x, int) else "bad"
        return "bad"
    n = 0
    for owner in ("Glob", "Any"):
        it = F.find("<%s as Program>::depth" % owner, optional=True)
        if it is None:
            R.anchor_missing("C10.public", "<%s as Program>::depth" % owner)
            continue
        for name, (value, (lo, hi)) in grid.items():
            asked = []

            def variance(I, a, fn, e, value=value):
                asked.append(repr(strip(a[0]))[:60])
                return value
            I = Interp(F, {"token::Token::variance": variance})
            me = Adt(owner, owner, {"tree": Sym("own-tree"), "program": Sym("program")})

            def run():
                del asked[:]
                pub = I.call_item(it, [Ref(Place(Cell(me)))])
                inv = opt(I.call_item(inv_acc, [pub], inst=False))
                if inv is not None:
                    return ("invariant", inv)
                rng = opt(I.call_item(var_acc, [pub], inst=False))
                if rng is None:
                    return ("neither", strip(pub))
                l = bound(I.call_item(low, [Ref(Place(Cell(rng)))], inst=False))
                u = bound(I.call_item(upp, [Ref(Place(Cell(rng)))], inst=False))
                return ("variant", l, u)
            cases = I.explore(run)
            n += 1
            got = None
            if len(cases) == 1 and isinstance(cases[0].result, tuple) and not I.tops:
                r = cases[0].result
                inv = r[1] if r[0] == "invariant" else None
                if isinstance(inv, Adt) and inv.path == DEPTH and isinstance(strip(inv.fields.get("0")), int):
                    inv = strip(inv.fields["0"])      # the newtype's conversion into usize is the identity on the number
                if r[0] == "invariant" and isinstance(inv, int):
                    got = (inv, inv)
                elif r[0] == "variant" and "bad" not in r[1:]:
                    # a missing lower bound is zero; NonZero bounds
                    got = (r[1] or 0, r[2])
            want = (lo, hi)
            R.check(got == want and len(asked) == 1, "C10.public", "%s::depth/%s" % (owner, name), "the public depth variance denotes %s" % (want,), it.where(),
                    fail_msg="the token tree reports the depth variance %s = %s, %s::depth() hands out %s (%r; variance queries: %s): the public value must "
                             "denote the same interval" % (name, want, owner, got, [c.result for c in cases][:1], asked[:2]))
    R.floor("C10.public", "impl x internal variance cells", n, 40)
