"""Shared harness for the walk / filter family (C13, C16, C20, parts of C02, C03).

Abstract domain: an item coming out of `input.feed()` is one of
    filtrate-ok(entry) | filtrate-err(error) | residue-node(entry) | residue-tree(entry) | end
and a verdict is one of None | File(Node) | Tree.  Every function below evaluates a wax function on
all members of such a domain and reports the resulting state plus the effect log."""
from ..teval import (Interp, Adt, Tup, Ref, Place, Cell, Sym, PyFn, Top, Panicked, strip, some, none, ok, err, UNIT)
from ..facts import AnchorMissing

SEP = "filter::Separation"
PROD = "filter::Product"
TRES = "filter::TreeResidue"
ERES = "walk::EntryResidue"
CANCEL = "filter::CancelWalk::cancel_walk_tree"
FEED = "filter::SeparatingFilter::feed"

STATES = ["filtrate", "node", "tree"]
ORDER = {"filtrate": 0, "node": 1, "tree": 2}


def product(inner):
    return Adt(PROD, "Product", {"inner": inner, "_phantom": Adt("std::marker::PhantomData", "PhantomData", {})})


def separation(state, payload):
    if state == "filtrate":
        return Adt(SEP, "Filtrate", {"0": product(payload)})
    if state == "node":
        return Adt(SEP, "Residue", {"0": product(Adt(TRES, "Node", {"0": payload}))})
    if state == "tree":
        return Adt(SEP, "Residue", {"0": product(Adt(TRES, "Tree", {"0": payload}))})
    raise ValueError(state)


def classify(v):
    """(state, payload) of a Separation / Residue<TreeResidue<_>> value; state None if not understood."""
    v = strip(v)
    if isinstance(v, Adt) and v.path == SEP:
        p = strip(v.fields.get("0"))
        if not isinstance(p, Adt) or p.path != PROD:
            return None, v
        inner = strip(p.fields.get("inner"))
        if v.variant == "Filtrate":
            return "filtrate", inner
        if isinstance(inner, Adt) and inner.path == TRES:
            return ("node" if inner.variant == "Node" else "tree"), strip(inner.fields.get("0"))
        return None, v
    if isinstance(v, Adt) and v.path == PROD:
        inner = strip(v.fields.get("inner"))
        if isinstance(inner, Adt) and inner.path == TRES:
            return ("node" if inner.variant == "Node" else "tree"), strip(inner.fields.get("0"))
        return "product", inner
    return None, v


def verdict_value(verdict, as_entry_residue=False):
    if verdict == "none":
        return none()
    if as_entry_residue:
        return some(Adt(ERES, "File" if verdict == "node" else "Tree", {}))
    return some(Adt(TRES, "Node" if verdict == "node" else "Tree", {"0": UNIT}))


def cancel_events(case, target_name=None):
    """Names of receivers of CancelWalk::cancel_walk_tree / skip_current_dir calls in the log."""
    out = []
    for ev in case.log:
        if ev[0] == "ext" and ev[1] in (CANCEL, "walkdir::IntoIter::skip_current_dir"):
            out.append(ev[2][0] if ev[2] else "?")
    return out


def events(case, path):
    return [ev for ev in case.log if ev[0] in ("ext", "call") and ev[1] == path]


def expected_state(state, verdict):
    return max(state, verdict if verdict != "none" else "filtrate", key=lambda s: ORDER[s])


def expected_cancels(state, verdict):
    return 1 if (verdict == "tree" and state != "tree") else 0


def new_interp(F, stubs=None, **kw):
    return Interp(F, stubs=stubs, **kw)


def identity_from():
    """`From::from` used as the residue conversion `R: From<T>`: tag the payload so that rules can
    see that the entry itself was carried over."""
    return PyFn(lambda I, a: a[0], "From::from")
