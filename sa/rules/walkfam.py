"""Shared harness for the walk / filter family (C13, C16, C20, parts of C02, C03).

Abstract domain: an item coming out of `input.feed()` is one of
    filtrate-ok(entry) | filtrate-err(error) | residue-node(entry) | residue-tree(entry) | end
and a verdict is one of None | File(Node) | Tree.  Every function below evaluates a wax function on
all members of such a domain and reports the resulting state plus the effect log."""
from ..teval import (Interp, Adt, Tup, Ref, Place, Cell, Sym, PyFn, Top, Panicked, strip, some, none, ok, err, UNIT)
from ..facts import AnchorMissing

SEP = "filter::Separation"
PROD = "filter::Product"
TRES = "filter::TreeResidue"
ERES = "walk::EntryResidue"
CANCEL = "filter::CancelWalk::cancel_walk_tree"
FEED = "filter::SeparatingFilter::feed"

STATES = ["filtrate", "node", "tree"]
ORDER = {"filtrate": 0, "node": 1, "tree": 2}


def product(inner):
    return Adt(PROD, "Product", {"inner": inner, "_phantom": Adt("std::marker::PhantomData", "PhantomData", {})})


def separation(state, payload):
    if state == "filtrate":
        return Adt(SEP, "Filtrate", {"0": product(payload)})
    if state == "node":
        return Adt(SEP, "Residue", {"0": product(Adt(TRES, "Node", {"0": payload}))})
    if state == "tree":
        return Adt(SEP, "Residue", {"0": product(Adt(TRES, "Tree", {"0": payload}))})
    raise ValueError(state)


def classify(v):
    """(state, payload) of a Separation / Residue<TreeResidue<_>> value; state None if not understood."""
    v = strip(v)
    if isinstance(v, Adt) and v.path == SEP:
        p = strip(v.fields.get("0"))
        if not isinstance(p, Adt) or p.path != PROD:
            return None, v
        inner = strip(p.fields.get("inner"))
        if v.variant == "Filtrate":
            return "filtrate", inner
        if isinstance(inner, Adt) and inner.path == TRES:
            return ("node" if inner.variant == "Node" else "tree"), strip(inner.fields.get("0"))
        return None, v
    if isinstance(v, Adt) and v.path == PROD:
        inner = strip(v.fields.get("inner"))
        if isinstance(inner, Adt) and inner.path == TRES:
            return ("node" if inner.variant == "Node" else "tree"), strip(inner.fields.get("0"))
        return "product", inner
    return None, v


def verdict_value(verdict, as_entry_residue=False):
    if verdict == "none":
        return none()
    if as_entry_residue:
        return some(Adt(ERES, "File" if verdict == "node" else "Tree", {}))
    return some(Adt(TRES, "Node" if verdict == "node" else "Tree", {"0": UNIT}))


def cancel_events(case, target_name=None):
    """Names of receivers of CancelWalk::cancel_walk_tree / skip_current_dir calls in the log."""
    out = []
    for ev in case.log:
        if ev[0] == "ext" and ev[1] in (CANCEL, "walkdir::IntoIter::skip_current_dir"):
            out.append(ev[2][0] if ev[2] else "?")
    return out


def events(case, path):
    return [ev for ev in case.log if ev[0] in ("ext", "call") and ev[1] == path]


def expected_state(state, verdict):
    return max(state, verdict if verdict != "none" else "filtrate", key=lambda s: ORDER[s])


def expected_cancels(state, verdict):
    return 1 if (verdict == "tree" and state != "tree") else 0


def new_interp(F, stubs=None, **kw):
    return Interp(F, stubs=stubs, **kw)


def identity_from():
    """`From::from` used as the residue conversion `R: From<T>`: tag the payload so that rules can
    see that the entry itself was carried over."""
    return PyFn(lambda I, a: a[0], "From::from")


# ---------------------------------------------------------------------------------------------------
# walkdir model and WalkTree values

INF = 10 ** 9
WD = "walkdir-model"


def walkdir_stubs(on_next=None):
    """walkdir's builder with its documented clamping (min_depth / max_depth never cross).  `on_next(I, iterator
    fields)` gives the item of IntoIter::next (default: end of the walk)."""
    def setter(field):
        def st(I, a, fn, e):
            b = strip(a[0])
            v = strip(a[1])
            if not (isinstance(b, Adt) and b.path == WD) or not isinstance(v, (int, bool)):
                return I.top("walkdir builder call with unanalysable arguments %r %r" % (b, v))
            f = dict(b.fields)
            f[field] = v
            if field == "min" and f["min"] > f["max"]:
                f["min"] = f["max"]
            if field == "max" and f["max"] < f["min"]:
                f["max"] = f["min"]
            return Adt(WD, b.variant, f)
        return st

    def into_iter(I, a, fn, e):
        b = strip(a[0])
        if isinstance(b, Adt) and b.path == WD:
            return Adt(WD, "IntoIter", dict(b.fields))
        return NotImplemented           # some other collection: resolved as usual

    def nxt(I, a, fn, e):
        b = strip(a[0])
        if isinstance(b, Adt) and b.path == WD and b.variant == "IntoIter":
            I.emit("walkdir.next", b.fields["min"], b.fields["max"], b.fields["follow"])
            return on_next(I, b.fields) if on_next else none()
        return NotImplemented           # some other iterator: resolved as usual
    return {
        "walkdir::WalkDir::new": lambda I, a, fn, e: (I.emit("walkdir.new", repr(strip(a[0]))), Adt(WD, "WalkDir", {"min": 0, "max": INF, "follow": False}))[1],
        "walkdir::WalkDir::follow_links": setter("follow"),
        "walkdir::WalkDir::min_depth": setter("min"),
        "walkdir::WalkDir::max_depth": setter("max"),
        "<walkdir::WalkDir as std::iter::IntoIterator>::into_iter": into_iter,
        "std::iter::IntoIterator::into_iter": into_iter,
        "<walkdir::IntoIter as std::iter::Iterator>::next": nxt,
        "std::iter::Iterator::next": nxt,
        "std::path::PathBuf::as_path": lambda I, a, fn, e: strip(a[0]),
    }


def walk_tree(F, I, is_dir=None, depth=None, link="ReadFile", pivot=0):
    """A WalkTree value as the library's own constructor builds it (so that rules do not depend on how the struct
    stores its walkdir iterator); `is_dir` then overrides the flag.  The interpreter must have walkdir_stubs()."""
    ctor = F.find("walk::WalkTree::with_pivot_and_behavior")
    beh = Adt("walk::behavior::WalkBehavior", "WalkBehavior", {
        "link": Adt("walk::behavior::LinkBehavior", link, {}),
        "depth": depth if depth is not None else Adt("walk::behavior::DepthBehavior", "Unbounded", {})})
    tree = I.call_item(ctor, [Sym("root"), pivot, beh], inst=False)
    t = strip(tree)
    if is_dir is not None and isinstance(t, Adt):
        if "is_dir" not in t.fields:
            raise AnchorMissing("the is_dir flag of WalkTree")
        t.fields["is_dir"] = is_dir
    return tree
