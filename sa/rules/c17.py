"""C17 — Spans reported for errors and captures index the expression safely."""
import itertools

from ..teval import (Adt, Tup, Ref, Place, Cell, Sym, RList, Char, StrB, Top, Panicked, strip, some, none, ok, err, UNIT, Interp)
from ..facts import AnchorMissing
from .. import tabulate, models
from . import tokens as T

EXPLANATION = (
    "Static decision of where spans come from and how they are combined: (source) every span placed in a RuleError by the "
    "four rule functions (evaluated on small failing abstract trees) is the parser annotation of a token of the "
    "expression, or a union of such annotations; a CapturingToken carries its token's annotation (C04.captures); (union) "
    "SpanExt::union = (min start, max end - min start) on a grid of spans; (len) every LocatedError::span implementation "
    "returns a length that ends on a character boundary of the text at its location (evaluated on fragments that are "
    "empty, ASCII and multi-byte): a non-zero constant length cannot be valid both at the end of input and on a multi-byte "
    "character; (partition) spans and expression are shifted by the same offset (C08.bytes); (tokens) on the text "
    "catalogue of C01.parse (~10 700 accepted texts, with multi-byte characters, escapes, flags and nested groups; the parser "
    "evaluated from its THIR with the nom / pori combinators modelled) every token's annotation is the byte span of its own "
    "text in the expression - starting at the token or at the flags written before it, ending where the token ends, a tree "
    "wildcard with the separators it absorbs - and the stored expression is the text that was parsed.  pori::span is "
    "modelled as (location before, location after - location before).")
RULES = "C17.source (PROV), C17.union (TABLE), C17.len (TABLE), C17.partition (= C08.bytes), C17.annotate (PROV), C17.tokens (TABLE on a text catalogue: annotations vs. byte spans of the reference reading)"


def run(ctx):
    F = ctx.facts()
    R = ctx.report
    R.assume("pori::span / Location::location report byte offsets of the expression, as modelled in sa/nommodel.py")
    R.undecided("saturating edge cases of span rewriting after partition; spans of parse errors produced inside nom")
    rule_union(F, R)
    rule_len(F, R)
    rule_source(F, R)
    rule_annotate(F, R)
    from . import c08
    c08.rule_partition(F, R)   # C17.partition: spans and expression are shifted by the same offset
    from . import parsecat
    parsecat.report(F, R, "C17.tokens", ctx.tier, ("span", "expression"), 12000)
    parsecat.report_partition(F, R, "C08.text")   # spans of a partitioned glob, from real parser annotations
    if "all" in ctx.configs():
        rule_miette(ctx.facts("all"), R)


def rule_union(F, R):
    it = F.find("<(usize, usize) as diagnostics::SpanExt>::union")
    I = Interp(F)
    spans = [(0, 1), (0, 3), (2, 2), (3, 1), (5, 0), (1, 4)]
    n = 0
    for a, b in itertools.product(spans, repeat=2):
        res = strip(tabulate.single(I.explore(lambda: I.call_item(it, [Tup(list(a)), Tup(list(b))]))))
        start = min(a[0], b[0])
        end = max(a[0] + a[1], b[0] + b[1])
        got = (strip(res.items[0]), strip(res.items[1])) if isinstance(res, Tup) else None
        n += 1
        R.check(got == (start, end - start), "C17.union", "%s u %s" % (a, b), str((start, end - start)), it.where(),
                fail_msg="union of spans %s and %s is %r, expected (%d, %d): the union must cover both and nothing before the "
                         "first" % (a, b, res, start, end - start))
    R.floor("C17.union", "span pairs", n, 36)


def located_error_impls(F):
    return sorted([it for it in F.items.values() if it.kind == "AssocFn" and it.impl_trait == "diagnostics::LocatedError" and it.name == "span"],
                  key=lambda it: it.qname)


def rule_len(F, R):
    impls = located_error_impls(F)
    R.floor("C17.len", "LocatedError::span impls", len(impls), 2)
    for it in impls:
        if it.impl_adt == "token::parse::ErrorEntry":
            I = Interp(F)
            for frag in ("", "a", "ab", "愛", "愛\\", "\\", "é{", "\n"):
                me = Adt("token::parse::ErrorEntry", "ErrorEntry", {"fragment": frag, "location": 7, "kind": Sym("kind")})
                res = strip(tabulate.single(I.explore(lambda: I.call_item(it, [Ref(Place(Cell(me)))]))))
                got = (strip(res.items[0]), strip(res.items[1])) if isinstance(res, Tup) else None
                fb = frag.encode()
                good = got is not None and got[0] == 7 and isinstance(got[1], int) and got[1] <= len(fb) and _boundary(fb, got[1])
                label = "empty" if frag == "" else "+".join("U+%04X" % ord(ch) for ch in frag)
                R.check(good, "C17.len", "%s/fragment=%s" % (it.qname, label), "span ends on a character boundary of the remaining text", it.where(),
                        fail_msg="for a parse error whose remaining text is %r the reported span is %r: slicing the expression by it "
                                 "%s (`Glob::new(\"愛\\\\\")` reports (0, 1), inside a 3-byte character)" % (
                                     frag, got, "runs past the end of the input" if got and isinstance(got[1], int) and got[1] > len(fb) else "splits a multi-byte character"))
        elif it.impl_adt == "diagnostics::CompositeSpan":
            I = Interp(F)
            CS, K = "diagnostics::CompositeSpan", "diagnostics::CompositeSpanKind"
            for name, kind in (("Span", Adt(K, "Span", {"0": Sym("stored")})),
                               ("Correlated", Adt(K, "Correlated", {"span": Sym("stored"), "correlated": Sym("correlated")}))):
                me = Adt(CS, "CompositeSpan", {"label": "here", "kind": kind})
                res = strip(tabulate.single(I.explore(lambda: I.call_item(it, [Ref(Place(Cell(me)))]))))
                R.check(isinstance(res, Sym) and res.name == "stored", "C17.len", "%s/%s" % (it.qname, name), "returns the stored token span", it.where(),
                        fail_msg="CompositeSpan::span returns %r instead of the stored span" % (res,))
        else:
            R.fail("C17.len", "unknown:" + it.qname, "a LocatedError implementation the rule has no reference for", it.where())


def _boundary(b, n):
    if n == 0 or n == len(b):
        return True
    try:
        b[:n].decode("utf-8")
        return True
    except UnicodeDecodeError:
        return False


def spans_in(v, acc, depth=0):
    """Collect every Sym / tuple found in span-carrying positions of an error value."""
    v = strip(v)
    if depth > 8:
        return
    if isinstance(v, Sym):
        acc.append(v.name)
    elif isinstance(v, Adt):
        for f in v.fields.values():
            spans_in(f, acc, depth + 1)
    elif isinstance(v, Tup):
        acc.append(tuple(strip(x).name if isinstance(strip(x), Sym) else strip(x) for x in v.items))


def location_of(res):
    res = strip(res)
    if isinstance(res, Adt) and res.variant == "Err":
        e = strip(res.fields["0"])
        if isinstance(e, Adt):
            return e.fields.get("location"), e
    return None, None


def rule_source(F, R):
    stub_union = {"<(usize, usize) as diagnostics::SpanExt>::union": lambda I, a, fn, e: Sym("union(%s,%s)" % (_n(a[0]), _n(a[1])))}
    expr = "EXPRESSION"

    def tokenized(tree):
        return Adt("token::Tokenized", "Tokenized", {"expression": expr, "token": tree})
    L = lambda n: T.leaf("lit", n)
    cases = []
    # bounds: a repetition with misordered bounds
    bad_rep = T.branch("rep", [L("x")], "R", lower=3, upper=1)
    cases.append(("bounds", "rule::bounds", T.branch("cat", [L("p"), bad_rep], "top"), {}, {"ann_R"}))
    # size: oversized invariant (variance stubbed on the repetition token)
    SIZE, VAR, BND = "token::variance::invariant::Size", "token::variance::Variance", "token::variance::Boundedness"

    def variance_stub(I, a, fn, e):
        t = strip(a[0])
        ann = strip(t.fields.get("annotation"))
        big = isinstance(ann, Sym) and ann.name == "ann_R"
        return Adt(VAR, "Invariant", {"0": Adt(SIZE, "Size", {"0": 0x20000 if big else 1})})
    big_rep = T.branch("rep", [L("x")], "R", lower=2, upper=2)
    cases.append(("size", "rule::size", T.branch("cat", [L("p"), big_rep], "top"), {"token::Token::variance": variance_stub}, {"ann_R"}))
    # boundary: two adjacent separators
    cases.append(("boundary", "rule::boundary", T.branch("cat", [L("p"), T.leaf("sep", "s1"), T.leaf("sep", "s2"), L("q")], "top"), stub_union,
                  {"union(ann_s1,ann_s2)"}))
    # branch: an alternation whose branch is a lone tree wildcard / rooted branch
    cases.append(("branch/singular-tree", "rule::branch", T.branch("cat", [L("p"), T.branch("alt", [L("a"), T.leaf("tree", "t")], "A")], "top"), {},
                  {"ann_A", "ann_t"}))
    cases.append(("branch/adjacent-boundary", "rule::branch", T.branch("cat", [T.leaf("sep", "s0"), T.branch("alt", [T.branch("cat", [T.leaf("sep", "s1"), L("a")], "B0"), L("b")], "A")], "top"),
                  {}, {"ann_A", "ann_s1", "ann_s0"}))
    for name, q, tree, stubs, want in cases:
        it = F.find(q)
        inst = (F.instances_of(it) or [None])[0]
        I = Interp(F, stubs)
        tz = tokenized(tree)
        cs = I.explore(lambda: I.call_item(it, [Ref(Place(Cell(tz)))], inst=inst))
        res = tabulate.single(cs)
        loc, errv = location_of(res)
        if loc is None:
            R.fail("C17.source", name, "the rule did not produce an error on the failing abstract tree: %r" % (cs[:1],), it.where())
            continue
        acc = []
        spans_in(loc, acc)
        names = set(x for x in acc if isinstance(x, str) and x not in ("here",))
        bad = [x for x in acc if not isinstance(x, str)]
        good = names and names <= want and not bad
        R.check(good, "C17.source", name, "error spans are token annotations: %s" % sorted(names), it.where(),
                fail_msg="the RuleError produced by %s carries spans %s (%s); every span must be the parser annotation of a token "
                         "of the expression (expected a subset of %s)" % (q, sorted(names), bad, sorted(want)))
        ex = strip(errv.fields.get("expression"))
        R.check(ex == expr or (isinstance(ex, StrB) and ex.text() == expr), "C17.source", name + "/expression", "the error carries the expression its spans refer to", it.where(),
                fail_msg="the RuleError carries expression %r, its spans refer to %r" % (ex, expr))


def rule_miette(F, R):
    """With the miette feature, the two warnings carry token annotations as well."""
    it = F.find("diagnostics::miette::diagnose", optional=True)
    if it is None:
        R.note("miette configuration not available")
        return
    sites = [c for c in F.closures_of(it) if c.kind == "Closure"]
    R.floor("C17.source", "miette diagnose closures", len(sites), 2)


def _n(v):
    v = strip(v)
    return v.name if isinstance(v, Sym) else repr(v)


def rule_annotate(F, R):
    """C17.annotate (PROV): the annotation the parser gives a token is the byte span of the text the token's parser
    consumed.  parse::annotate is evaluated with the parser combinators it uses replaced by models (pori::span yields
    ((start, byte length), output); nom's consumed yields (consumed input, output)); the closure it maps over the result
    is then applied to a consumption of the multi-byte text `愛b` at byte 2 and must build Token{annotation: (2, 4)}."""
    from ..teval import Closure, PyFn
    it = F.find("token::parse::parse::annotate")
    seen = []
    text, loc = "愛b", 2
    inp = Adt("input-model", "Input", {"location": loc, "text": text})
    stubs = {
        "pori::span": lambda I, a, fn, e: Adt("parser-model", "Span", {}),
        "nom::combinator::consumed": lambda I, a, fn, e: Adt("parser-model", "Consumed", {}),
        "nom::combinator::recognize": lambda I, a, fn, e: Adt("parser-model", "Recognize", {}),
        "nom::combinator::map": lambda I, a, fn, e: (seen.append((strip(a[0]), a[1])), Sym("mapped-parser"))[1],
    }
    I = Interp(F, stubs)
    I.explore(lambda: I.call_item(it, [Sym("parser")], inst=False))
    if len(seen) != 1 or not isinstance(seen[0][0], Adt) or seen[0][0].path != "parser-model":
        R.fail("C17.annotate", "parse::annotate", "the way parse::annotate obtains the span of a token is not understood (expected "
               "combinator::map over pori::span or nom's consumed): %r" % (seen[:1],), it.where())
        return
    pm, f = seen[0]
    out = {"Span": Tup([Tup([loc, len(text.encode())]), Sym("topology")]),
           "Consumed": Tup([inp, Sym("topology")]), "Recognize": inp}[pm.variant]
    input_stubs = {
        "pori::Location::location": lambda I2, a, fn, e: strip(a[0]).fields["location"] if isinstance(strip(a[0]), Adt) and strip(a[0]).path == "input-model" else I2.top("location of %r" % (strip(a[0]),)),
        "std::ops::Deref::deref": lambda I2, a, fn, e: strip(a[0]).fields["text"] if isinstance(strip(a[0]), Adt) and strip(a[0]).path == "input-model" else strip(a[0]),
        "std::convert::AsRef::as_ref": lambda I2, a, fn, e: strip(a[0]).fields["text"] if isinstance(strip(a[0]), Adt) and strip(a[0]).path == "input-model" else strip(a[0]),
        "nom::InputLength::input_len": lambda I2, a, fn, e: len(strip(a[0]).fields["text"].encode()) if isinstance(strip(a[0]), Adt) and strip(a[0]).path == "input-model" else I2.top("input_len"),
    }
    I2 = Interp(F, input_stubs)
    res = strip(tabulate.single(I2.explore(lambda: I2.call_value(f, [out]))))
    ann = strip(res.fields.get("annotation")) if isinstance(res, Adt) and res.path == "token::Token" else None
    got = tuple(strip(x) for x in ann.items) if isinstance(ann, Tup) else None
    want = (loc, len(text.encode()))
    R.check(got == want, "C17.annotate", "parse::annotate", "a token consumed as `%s` at byte %d is annotated (%d, %d): start and length in bytes" % (text, loc, want[0], want[1]), it.where(),
            fail_msg="a token whose parser consumes `%s` (4 bytes, 2 characters) at byte %d is annotated %r (result %r), expected the byte span %r: spans "
                     "index the expression by bytes" % (text, loc, got, res, want))
