"""C01 — Matching conforms to the documented glob semantics."""
from . import encoder
from ..facts import fn_refs

EXPLANATION = (
    "(whole) On the expression catalogue (sa/rules/exhaust.py, all flavours: ~18 000 expressions, of which the rule checker's "
    "verdict keeps ~6 000) the program text encode::compile emits for the tree is compared, as an automaton, with the language "
    "the README gives to the expression, written down independently of the encoder (literal = its text, `/`, `?` = one and `*` "
    "= any number of non-separator characters, alternation = union, repetition = body m..n times, a top-level tree wildcard = "
    "zero or more complete components with its separators): exact language equality, for the shapes of the catalogue that "
    "have a crisp reference (no tree wildcard inside a branch, no class).  For all expressions, by structural induction: "
    "The encoder is a syntax-directed translation, so conformance follows by structural induction from finitely many "
    "obligations, each decided on the text the encoder emits in every case (grouping x enclosing context x position x "
    "token shape, extracted by evaluating the THIR of encode/compile; nothing is run): (leaf) `/` emits exactly one "
    "separator, `?`/`*`/`$` and both class forms emit separator-free languages of the right length, a literal emits only "
    "its regex-escaped text (any flag it sets itself is its own); (tree) the tree-wildcard fragment equals the reference language "
    "R(left neighbour, right neighbour, rooted) over {SEP, NL, OTHER} in every reachable context; (flag) in whole patterns of every nesting the case flag in force at each literal is the literal's own, and every class is "
    "compiled with the case-insensitive flag known off; (dotall) every `.` is compiled with dot-all on; (homo) alternation "
    "= union of all branches in place, repetition = body{m,n} with the token's own bounds, concatenation in order; "
    "(anchor/delegate) the pattern is ^...$ and both Program impls match with the program compiled from their own tree; "
    "(bounds) the parser's bound specification of a repetition, evaluated from its THIR with a model of the nom combinators "
    "(sa/nommodel.py), gives the documented (lower, upper) for every documented form: `<a>` = 0.., `<a:>` = 1.., `:n` = n..n, `:n,` = n.., `:n,m`; "
    "(parse) the whole parser (token::parse::parse, evaluated from its THIR with every nom / pori combinator replaced by the model in sa/nommodel.py: "
    "which combinators are composed in which order, the token-building closures, the flag state threaded through the input and the "
    "beginning-of-expression test are wax's own) is run on a catalogue of ~12 700 texts - every sequence of up to three atoms (literals, escapes, "
    "multi-byte text, `?`, `*`, `$`, `/`, `**`, classes, `(?i)`, `(?-i)`), every atom inside every alternation / repetition form between six left and "
    "six right contexts, the README's examples, ~60 malformed texts - and compared with a reference reading written from the README "
    "(sa/rules/parseref.py): accepted exactly when in the documented syntax, and the same token tree: kinds, unescaped literal text, the case flag in "
    "force at each literal (flags apply in text order, also into and out of groups), class members / ranges / negation, bounds, which separators a "
    "tree wildcard absorbs.  Texts on which the README is silent (a flag between the separator and the stars of a tree wildcard) are skipped; "
    "(text) for ~4 200 texts that carry what the token catalogue of C01.whole lacks - flags anywhere, classes, escapes, multi-byte text, the README's "
    "examples - the whole route from the text is evaluated (parser, rule checker, encode::compile) and the program it arrives at is compared, as an "
    "automaton, with the language the README gives to the tokens (literals under their own case flag, classes case-sensitive and separator-free, "
    "wildcards, alternation, repetition, top-level tree wildcards).")
RULES = "C01.whole (TABLE on a catalogue: program vs. reference language), C01.leaf, C01.tree, C01.flag, C01.dotall, C01.homo, C01.anchor (EMIT), C01.delegate (SIBLING+PROV), C01.bounds (TABLE: parser function vs. README), C01.parse (TABLE on a text catalogue: parser vs. reference reading), C01.text (TABLE on a text catalogue, end to end: text -> program vs. reference language)"


def run(ctx):
    F = ctx.facts()
    R = ctx.report
    R.assume("regex crate semantics (classes, `.`, flags scoping, quantifiers); nom / pori combinators behave as modelled in sa/nommodel.py (written from the sources of nom 7.1.3 and pori)")
    R.assume("Unix configuration: separator class `/`; cfg(windows) arms are not analysable on this image")
    R.undecided("the parser outside the text catalogue (C01.parse decides ~12 700 texts: all short sequences and one level of every group form); "
                "whole-expression language equality follows by induction from the decided clauses + regex semantics")
    encoder.rule_leaf(F, R)
    encoder.rule_tree(F, R)
    encoder.rule_whole(F, R)
    encoder.rule_literal_flags(F, R, "C01.flag")
    encoder.rule_homo(F, R)
    encoder.rule_ctx(F, R)
    rule_delegate(F, R)
    rule_bounds(F, R)
    from . import exhaust
    exhaust.report_query(F, R, "C01.whole", ctx.tier, "semantics", 15000, 4000)
    from . import parsecat
    parsecat.report(F, R, "C01.parse", ctx.tier, ("tokens", "accepts", "rejects"), 12000)
    parsecat.report_semantics(F, R, "C01.text", ctx.tier, 4000)


def rule_delegate(F, R):
    from ..teval import Adt, Ref, Place, Cell, Sym, Interp, strip
    from .. import tabulate
    for owner in ("Glob", "Any"):
        for method, rxfn in (("is_match", "regex.is_match"), ("matched", "regex.captures")):
            it = F.find("<%s as Program>::%s" % (owner, method))
            I = Interp(F)
            me = Adt(owner, owner, {"tree": Sym("tree"), "program": Sym("program")})
            arg = Sym("path") if method == "is_match" else Ref(Place(Cell(Sym("path"))))
            cases = I.explore(lambda: I.call_item(it, [Ref(Place(Cell(me))), arg]))
            for c in cases:
                evs = [e for e in c.log if e[0] == rxfn]
                good = len(evs) == 1 and evs[0][1] == "?program"
                R.check(good, "C01.delegate", "%s::%s" % (owner, method), "one %s call on the glob's own program" % rxfn, it.where(),
                        fail_msg="%s::%s consults %r instead of exactly one %s on its own compiled program" % (owner, method, evs, rxfn))


# README "Repetitions": the bound specification after the sub-glob and what it denotes (lower, upper; None = unbounded).
DOCUMENTED_BOUNDS = [
    (">", (0, None), "colon omitted: zero or more, `<a>` = `<a:0,>`"),
    (":>", (1, None), "no bounds after the colon: one or more, `<a:>` = `<a:1,>`"),
    (":0,>", (0, None), "`:0,` zero or more"),
    (":1,>", (1, None), "`:1,` one or more"),
    (":1,4>", (1, 4), "`:1,4` between one and four times"),
    (":2,10>", (2, 10), "inclusive lower and upper bounds"),
    (":3>", (3, 3), "a singular bound is convergent: `:3` exactly three times"),
    (":12>", (12, 12), "a singular bound is convergent"),
    (":7,7>", (7, 7), "inclusive lower and upper bounds"),
]


def rule_bounds(F, R):
    """C01.bounds: the parser's bound specification of a repetition (`repetition::bounds`, nom combinators evaluated with
    the model in sa/nommodel.py) yields the documented (lower, upper) for every documented form and leaves the closing
    `>` unconsumed.  Necessary: these two numbers are the only thing the rest of the library knows about how many times
    the body repeats."""
    from ..teval import Interp, strip, Adt, Tup
    from .. import nommodel as N
    it = F.find("token::parse::parse::repetition::bounds", optional=True)
    R.check(it is not None, "C01.bounds", "anchor", "the parser has a bound-specification function `repetition::bounds`", "src/token/parse.rs",
            fail_msg="token::parse::parse::repetition::bounds not found (the rule needs its anchor; fail closed)")
    if it is None:
        return
    n = 0
    for text, (lo, hi), why in DOCUMENTED_BOUNDS:
        I = Interp(F, N.stubs())
        cases = I.explore(lambda: I.call_item(it, [N.make_input(text, 5)], inst=False))
        got = None
        problem = None
        if I.tops:
            problem = "unanalysable: %s" % (I.tops[0],)
        elif len(cases) != 1:
            problem = "%d outcomes for a concrete text" % len(cases)
        else:
            r = strip(cases[0].result)
            if not N.is_ok(r):
                problem = "the documented form is rejected: %r" % (r,)
            else:
                rest, out = N.unpack(r)
                out = strip(out)
                rest_text = strip(rest).fields["text"]
                if isinstance(out, Tup) and len(out.items) == 2:
                    l = strip(out.items[0])
                    u = strip(out.items[1])
                    if isinstance(u, Adt) and u.variant == "None":
                        u = None
                    elif isinstance(u, Adt) and u.variant == "Some":
                        u = strip(u.fields["0"])
                    got = (l, u)
                if got != (lo, hi):
                    problem = "parsed as (lower, upper) = %r, documented %r" % (got if got is not None else out, (lo, hi))
                elif rest_text != ">":
                    problem = "leaves %r unconsumed, expected the closing `>`" % (rest_text,)
        n += 1
        R.check(problem is None, "C01.bounds", "<a%s" % text, "README: %s" % why, it.where(), fail_msg=problem)
    R.floor("C01.bounds", "documented bound forms", n, 9)
