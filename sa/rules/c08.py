"""C08 — Partitioning preserves meaning (structural parts only)."""
import itertools

from ..teval import (Adt, Tup, Ref, Place, Cell, Sym, RList, StrB, Top, Panicked, strip, some, none, ok, err, Interp)
from .. import tabulate, models
from . import tokens as T
from . import c19

EXPLANATION = (
    "(law) on the expression catalogue (sa/rules/exhaust.py: every top-level sequence of up to two / three segments around one alternation or repetition whose sub-expressions have up to two segments, two branch tokens in one sequence, a branch nested in a repetition; built as the parser builds them, kept when the rule checker accepts them) - plus the same expressions behind a leading separator and the literal shapes of C11 - Tokenized::partition is evaluated (THIR) and the emitted programs of the original tree and of the postfix tree are compared as automata: a canonical path matches the original exactly when it is the prefix, a separator and a path the postfix matches (the path equal to the prefix itself is not compared: `a/*` does not match `a` although `*` matches the empty remainder); without a postfix the glob matches exactly the prefix; the postfix reports has_root = never; partitioning the postfix again gives an empty prefix and the same tree.  This decides the law for the shapes of the catalogue, not for all expressions; a deviation that disappears when the known loose encoding of a rooted tree wildcard in first position is replaced by the strict one is attributed to that finding.  For all inputs: (recompile) the postfix Glob is compiled "
    "from the partitioned tree (C19.pair); (unroot, bytes) Tokenized::partition is evaluated on abstract token lists with "
    "concrete spans for every prefix length: the first remaining token is unrooted (a rooted tree wildcard loses its root and the separator's byte), "
    "the bytes removed from the expression equal the amount subtracted from every remaining span, so every remaining span still delimits the same text, "
    "and the returned prefix text is the one computed by invariant_text_prefix; (prefix) invariant_text_prefix appends text only for text-invariant "
    "tokens and stops at the last component boundary, over all invariance / boundary patterns of lists up to length 3 (4 in the thorough tier).  Not "
    "decided: that a flag among the popped tokens still applies to the displayed postfix (`a/(?i)b/c*` -> `c*`): flags are not tokens.  "
    "(text) for ~850 texts with an invariant prefix in front of a variant postfix - flags before and inside the prefix, escapes, multi-byte text, invariant groups, rooted and `..` prefixes - the parser (its THIR, nom model) and Tokenized::partition are both evaluated, borrowed and owned: the expression of the postfix is a suffix of the text, its tokens are the remaining tokens, every remaining span delimits the text it delimited before, and building the displayed postfix again (the parser once more) gives the same tokens with the same spans.  This rule takes the spans from the parser instead of assuming their shape.")
RULES = "C08.law (TABLE on a catalogue: languages of glob, prefix and postfix), C08.recompile (PROV), C08.unroot + C08.bytes (EFFECT), C08.prefix (TABLE), C08.text (TABLE on a text catalogue: parser + partition, the displayed postfix built again), C08.fallback (TABLE: partition_or_empty / partition_or_tree)"


def tok(kind_leaf, start, length):
    t = Adt(T.TOKEN, "Token", {"topology": Adt(T.TOPO, "Leaf", {"0": kind_leaf}), "annotation": Tup([start, length])})
    return t


def build(expr, pieces):
    """pieces: list of (shape, text) concatenated into expr; returns token list with byte spans.  A piece whose shape
    is None is text that belongs to no token (a flag such as `(?i)`): it only advances the position."""
    toks = []
    raw = expr.encode()
    pos = 0
    for shape, text in pieces:
        b = text.encode()
        assert raw[pos:pos + len(b)] == b, (expr, pos, text)
        if shape is not None:
            toks.append(tok(T.leaf_kind(shape, "t%d" % len(toks)), pos, len(b)))
        pos += len(b)
    assert pos == len(raw)
    return toks


def run(ctx):
    F = ctx.facts()
    R = ctx.report
    R.assume("token spans are the parser's byte offsets of the token's text in the expression (C17)")
    R.undecided("the law outside the catalogue; flags of popped tokens are lost for the displayed postfix")
    c19.rule_pair(F, R)
    rule_partition(F, R)
    rule_prefix(F, R, 3 if ctx.tier == "quick" else 4)
    from . import exhaust
    exhaust.report_query(F, R, "C08.law", ctx.tier, "partition", 10000, 1500)
    from . import parsecat
    parsecat.report_partition(F, R, "C08.text")
    rule_fallback(F, R)


def rule_partition(F, R):
    it = F.find("token::Tokenized::partition")
    insts = F.instances_of(it)
    R.floor("C08.bytes", "Tokenized::partition instances", len(insts), 1)
    inst = insts[0]
    scenarios = {
        "a/b/**/c": [("lit", "a"), ("sep", "/"), ("lit", "b"), ("tree-rooted", "/**/"), ("lit", "c")],
        "a/*b": [("lit", "a"), ("sep", "/"), ("zom", "*"), ("lit", "b")],
        "愛/b/?": [("lit", "愛"), ("sep", "/"), ("lit", "b"), ("sep", "/"), ("one", "?")],
        "/**/x": [("tree-rooted", "/**/"), ("lit", "x")],
        "ab": [("lit", "ab")],
        # the parser's span of a token includes a flag written in front of it (`(?i)*` is one capture span)
        "(?i)/**/x": [("tree-rooted", "(?i)/**/"), ("lit-ci", "x")],
        "a/(?i)*b": [("lit", "a"), ("sep", "/"), ("zom", "(?i)*"), ("lit-ci", "b")],
    }
    n = 0
    for (expr, pieces), owned in itertools.product(scenarios.items(), (False, True)):
        toks0 = build(expr, pieces)
        for npop in range(0, len(toks0) + 1):
            stubs = {"token::Token::invariant_text_prefix": lambda I, a, fn, e, npop=npop: Tup([npop, "PREFIX%d" % npop])}
            I = Interp(F, stubs)
            toks = build(expr, pieces)
            tree = toks[0] if len(toks) == 1 else Adt(T.TOKEN, "Token", {"topology": Adt(T.TOPO, "Branch", {"0": Adt(T.BRANCH, "Concatenation", {
                "0": Adt("token::Concatenation", "Concatenation", {"0": RList(toks)})})}), "annotation": Tup([0, len(expr.encode())])})
            # the expression is a Cow: a glob built from text borrows it, an owned glob (into_owned, FromStr) owns it
            tz = Adt("token::Tokenized", "Tokenized", {"expression": Adt("std::borrow::Cow", "Owned", {"0": expr}) if owned else expr, "token": tree})
            cases = I.explore(lambda: I.call_item(it, [tz], inst=inst))
            res = tabulate.single(cases)
            n += 1
            name = "%s/pop=%d" % (expr.replace("愛", "U+611B"), npop) + ("/owned" if owned else "")
            if isinstance(res, (Top, Panicked)) or not isinstance(strip(res), Tup):
                R.fail("C08.bytes", name, "partition panics / is unanalysable: %r" % ([c.result for c in cases][:1],), it.where())
                continue
            prefix, rest = strip(res).items
            ptext = strip(prefix)
            if isinstance(ptext, StrB):
                ptext = ptext.text()
            R.check(ptext == "PREFIX%d" % npop, "C08.prefix", name + "/text", "the prefix path is the text computed by invariant_text_prefix", it.where(),
                    fail_msg="partition returns prefix %r, invariant_text_prefix computed %r" % (ptext, "PREFIX%d" % npop))
            rest = strip(rest)
            single = len(toks0) == 1
            expect_none = (npop >= len(toks0)) if not single else (npop > 0)
            if expect_none:
                R.check(isinstance(rest, Adt) and rest.variant == "None", "C08.bytes", name + "/exhausted", "no postfix when every token is popped", it.where(),
                        fail_msg="all tokens are popped but the postfix is %r" % (rest,))
                continue
            tzn = strip(rest.fields["0"]) if isinstance(rest, Adt) and rest.variant == "Some" else None
            if not isinstance(tzn, Adt):
                R.fail("C08.bytes", name, "a postfix was expected, got %r" % (rest,), it.where())
                continue
            new_expr = strip(tzn.fields["expression"])
            if isinstance(new_expr, Adt) and new_expr.path == "std::borrow::Cow":
                new_expr = strip(new_expr.fields.get("0"))
            if isinstance(new_expr, StrB):
                new_expr = new_expr.text()
            new_tok = strip(tzn.fields["token"])
            topo = strip(new_tok.fields["topology"])
            if topo.variant == "Branch":
                new_list = [strip(x) for x in strip(strip(strip(topo.fields["0"]).fields["0"]).fields["0"]).items]
            else:
                new_list = [new_tok]
            old_rest = toks0[npop:] if not single else toks0
            problems = []
            if len(new_list) != len(old_rest):
                problems.append("%d tokens remain, expected %d" % (len(new_list), len(old_rest)))
            else:
                removed = len(expr.encode()) - len(new_expr.encode()) if isinstance(new_expr, str) else None
                if not isinstance(new_expr, str) or not expr.encode().endswith(new_expr.encode()):
                    problems.append("the postfix expression %r is not a suffix of %r" % (new_expr, expr))
                for i, (o, nw) in enumerate(zip(old_rest, new_list)):
                    os_, ol = [strip(x) for x in strip(o.fields["annotation"]).items]
                    ns, nl = [strip(x) for x in strip(nw.fields["annotation"]).items]
                    old_text = expr.encode()[os_:os_ + ol]
                    kind = strip(strip(o.fields["topology"]).fields["0"])
                    rooted = kind.variant == "Wildcard" and strip(kind.fields["0"]).variant == "Tree" and strip(strip(kind.fields["0"]).fields["has_root"]) is True
                    if i == 0 and rooted and not single:
                        # the root separator is dissociated from the first remaining token (a flag in front of it stays)
                        k_ = old_text.index(b"/")
                        old_text = old_text[:k_] + old_text[k_ + 1:]
                    if isinstance(new_expr, str):
                        new_text = new_expr.encode()[ns:ns + nl]
                        if new_text != old_text:
                            problems.append("token %d: span (%d,%d) of the postfix delimits %r, its text is %r" % (i, ns, nl, new_text, old_text))
                # first remaining token is unrooted
                k0 = strip(strip(new_list[0].fields["topology"]).fields["0"])
                if k0.variant == "Wildcard" and strip(k0.fields["0"]).variant == "Tree" and not single:
                    if strip(strip(k0.fields["0"]).fields["has_root"]) is not False:
                        problems.append("the postfix begins with a tree wildcard that is still rooted")
            if problems:
                R.fail("C08.bytes", name, "; ".join(problems) + ": the bytes removed from the expression and the amount subtracted from "
                       "the remaining spans must be the same value (popped span lengths + the unrooted separator)", it.where())
            else:
                R.ok("C08.bytes", name, "postfix `%s`: every remaining span delimits the same text; first token unrooted" % new_expr, it.where(), sample=(n % 5 == 0))
    R.floor("C08.bytes", "partition cells", n, 40)
    # Wildcard::unroot table
    un = F.find("token::Wildcard::unroot")
    I = Interp(F)
    for shape, want_ret, want_root in (("tree-rooted", True, False), ("tree", False, False), ("one", False, None), ("zom", False, None)):
        w = strip(T.leaf_kind(shape).fields["0"])
        res = tabulate.single(I.explore(lambda: I.call_item(un, [Ref(Place(Cell(w)))])))
        after = strip(w.fields.get("has_root")) if "has_root" in w.fields else None
        R.check(res is want_ret and after is want_root, "C08.unroot", "Wildcard::unroot/" + shape, "returns %s, has_root becomes %s" % (want_ret, want_root), un.where(),
                fail_msg="Wildcard::unroot on %s returns %r and leaves has_root = %r" % (shape, res, after))


def rule_prefix(F, R, maxlen):
    it = F.find("token::Token::invariant_text_prefix")
    insts = F.instances_of(it)
    R.floor("C08.prefix", "invariant_text_prefix instances", len(insts), 1)
    inst = insts[0]
    VAR, BND = "token::variance::Variance", "token::variance::Boundedness"
    n = 0
    # token kinds: (invariant?, boundary?)  I- = invariant non-boundary, IB = invariant boundary (separator),
    # V- = variant non-boundary, VB = variant boundary (tree wildcard)
    # IC = invariant token that contains a boundary without being one (`{a/b}`, `<a/b:2>`): not a checkpoint
    kinds = ["I-", "IB", "IC", "V-", "VB"]
    for length in range(0, maxlen + 1):
        for pattern in itertools.product(kinds, repeat=length):
            for rooted_first in ((False, True) if length and pattern[0] == "VB" else (False,)):
                toks = [Adt("Tok", "Tok", {"i": i, "kind": k}) for i, k in enumerate(pattern)]

                def variance(I, a, fn, e):
                    t = strip(a[0])
                    k = strip(t.fields["kind"])
                    if k[0] == "I":
                        return Adt(VAR, "Invariant", {"0": Adt("TextStub", "TextStub", {"s": "<%d>" % strip(t.fields["i"])})})
                    return Adt(VAR, "Variant", {"0": Adt(BND, "Unbounded", {})})
                stubs = {
                    "token::Token::concatenation": lambda I, a, fn, e: RList(toks),
                    "token::Token::variance": variance,
                    "token::variance::invariant::text::Text::to_string": lambda I, a, fn, e: strip(strip(a[0]).fields["s"]),
                    "token::Token::is_boundary": lambda I, a, fn, e: strip(strip(a[0]).fields["kind"])[1] == "B",
                    "token::Token::has_boundary": lambda I, a, fn, e: strip(strip(a[0]).fields["kind"])[1] in "BC",
                    "token::Token::boundary": lambda I, a, fn, e: some(Sym("boundary")) if strip(strip(a[0]).fields["kind"])[1] == "B" else none(),
                    "token::Token::has_root": lambda I, a, fn, e: Adt("query::When", "Always" if (rooted_first and strip(strip(a[0]).fields["i"]) == 0) else "Never", {}),
                }
                I = Interp(F, stubs)
                res = strip(tabulate.single(I.explore(lambda: I.call_item(it, [Ref(Place(Cell(Sym("self"))))], inst=inst))))
                got = None
                if isinstance(res, Tup):
                    t = strip(res.items[1])
                    got = (strip(res.items[0]), t.text() if isinstance(t, StrB) else t)
                # reference: the longest run of text-invariant tokens that ends at a component boundary
                if rooted_first:
                    want = (0, "/")
                else:
                    head = None
                    checkpoint = None
                    want = None
                    for i, k in enumerate(pattern):
                        if k[0] == "I":
                            head = (i + 1, (head[1] if head else "") + "<%d>" % i)
                            if k[1] == "B":
                                checkpoint = head
                        else:
                            want = (head if k[1] == "B" else checkpoint) or (0, "")
                            break
                    if want is None:
                        want = head or (0, "")
                n += 1
                name = "%s%s" % ("/".join(pattern) or "empty", "/rooted" if rooted_first else "")
                if got == want:
                    R.ok("C08.prefix", name, "prefix %r" % (want,), it.where(), sample=(n % 41 == 0))
                else:
                    R.fail("C08.prefix", name, "for tokens (invariant?/boundary?) %s invariant_text_prefix = %r, expected %r: the prefix is "
                           "the longest run of text-invariant tokens ending at a component boundary, and text is appended only for "
                           "invariant tokens" % (list(pattern), got, want), it.where())
    R.floor("C08.prefix", "token patterns", n, 80)


def rule_fallback(F, R):
    """C08.fallback (TABLE): `partition_or_empty` / `partition_or_tree` return the prefix and the postfix of
    `Glob::partition` unchanged, and only when there is no postfix the empty glob (built from the empty expression) /
    the tree glob (built from `**`) in its place."""
    from ..teval import Interp
    for name, text in (("partition_or_empty", ""), ("partition_or_tree", "**")):
        it = F.find("Glob::" + name, optional=True)
        if it is None:
            R.anchor_missing("C08.fallback", "Glob::" + name)
            continue
        for has_postfix in (True, False):
            built = []

            def new(I, a, fn, e):
                s = strip(a[0])
                if isinstance(s, StrB):
                    s = s.text()
                built.append(s)
                return ok(Adt("Glob", "Glob", {"tree": Sym("tree-of(%r)" % (s,)), "program": Sym("program-of(%r)" % (s,))}))
            post = Adt("Glob", "Glob", {"tree": Sym("postfix-tree"), "program": Sym("postfix-program")})
            stubs = {"Glob::new": new,
                     "Glob::partition": lambda I, a, fn, e: Tup([Sym("prefix-path"), some(post) if has_postfix else none()])}
            I = Interp(F, stubs)
            me = Adt("Glob", "Glob", {"tree": Sym("tree"), "program": Sym("program")})

            def run():
                del built[:]
                return I.call_item(it, [me])
            cases = I.explore(run)
            res = strip(cases[0].result) if len(cases) == 1 else None
            good = False
            if isinstance(res, Tup) and len(res.items) == 2:
                p, g = strip(res.items[0]), strip(res.items[1])
                if isinstance(p, Sym) and p.name == "prefix-path" and isinstance(g, Adt):
                    t = strip(g.fields.get("tree"))
                    want = "postfix-tree" if has_postfix else "tree-of(%r)" % (text,)
                    good = isinstance(t, Sym) and t.name == want
            R.check(good, "C08.fallback", "%s/%s" % (name, "postfix" if has_postfix else "no postfix"),
                    "the prefix and %s" % ("the postfix itself" if has_postfix else "the glob built from `%s`" % text), it.where(),
                    fail_msg="Glob::%s with %s returns %r (globs built: %s)" % (name, "a postfix" if has_postfix else "no postfix", res, built))
