"""C02 — Walking a glob yields exactly the files whose relative path matches (plumbing only)."""
import itertools

from ..teval import (Adt, Tup, Ref, Place, Cell, Sym, RList, PyFn, Closure, Top, Panicked, strip, some, none, ok, err, UNIT, Interp)
from ..facts import AnchorMissing
from .. import tabulate, models
from . import walkfam as W
from . import c13, c20

EXPLANATION = (
    "NARROW: the exactly-once exactness law over all trees x bases x globs is not decided as a whole (walkdir's enumeration "
    "is assumed).  Decided is the per-entry decision procedure of the glob walker, by evaluating the THIR of its closure on "
    "every cell of {entry depth 0..3} x {number of component programs 0..3} x {relative segment starts with nothing / a "
    "RootDir (rooted glob) / a ParentDir / a CurDir} x {components contributed by the prefix} x {own component matches its "
    "program or not} x {complete program matches or not}: (prune) a directory tree is discarded only when the entry's own "
    "component fails the program of the same index, and a program is only ever compared with the component of its own "
    "index; (gate) an entry is yielded only when the complete program captures the root-relative path computed from (entry "
    "path, walkdir depth, pivot), and the yielded GlobEntry stores that match and the same pivot; every other outcome is "
    "node residue; (relative) the root-relative path is the prefix as written in the glob followed by the traversed names, "
    "for every shape of base directory (empty, `.`, relative, `./x`, absolute) x prefix (none, literal, rooted, with `..`, "
    "with `.`) x traversal depth, by evaluating join_and_get_depth and split_at_depth on abstract component sequences; "
    "(stop) WalkProgram::compile pushes programs for exactly the maximal boundary-free prefix of the components; "
    "(same-compiler) component programs go through the same compiler as the complete program (C01 obligations apply); "
    "(skip / isdir, shared with C13) a cancellation skips exactly the judged directory; errors pass through untouched "
    "(C20.forward).  "
    "(source, shared with C20) both public walk routes, evaluated end to end, ask walkdir - built on the base joined with the prefix - for their first item in every explored case.")
RULES = "C02.prune (GUARD), C02.gate (PROV+SIBLING), C02.relative (TABLE), C02.stop (EFFECT), C02.component (TABLE), C02.same-compiler (WHO), C13.skip, C13.isdir, C20.source (EFFECT: every walk consults walkdir on its root)"


def run(ctx):
    F = ctx.facts()
    R = ctx.report
    R.assume("walkdir yields every entry of a non-skipped directory exactly once, parents before children, with depth = number of components below the root")
    R.assume("std::path semantics as modelled in sa/rules/pathmodel.py (component-wise join / ancestors / strip_prefix; a `.` that is not the first component is not a component)")
    R.undecided("that walkdir enumerates every entry exactly once; symbolic-link behaviours (C15); matching itself (C01)")
    rule_walker(F, R)
    # pruning never loses a match only if a cancellation skips exactly the judged directory (C13.skip / C13.isdir)
    c13.rule_skip(F, R)
    c13.rule_isdir(F, R)
    # the text the complete program is matched on is the prefix as written plus the traversed names (shared cells with C14)
    from . import c14
    c14.report_cells(F, R, "C02.relative", ("relative", "root"), 230)
    rule_stop(F, R, 3 if ctx.tier == "quick" else 4)
    rule_component(F, R)
    rule_same_compiler(F, R)
    from . import c20
    c20.rule_source(F, R)    # a walk that does not consult walkdir on its root yields nothing beneath it


def component_programs(F, comps):
    """Evaluates WalkProgram::compile on a glob whose components are `comps` (lists of abstract tokens), with the
    compiler stubbed: Glob::compile(component i) = Ok(?program(i)).  -> list of program values | None"""
    it = F.find("walk::glob::WalkProgram::compile")
    insts = F.instances_of(it)
    inst = insts[0] if insts else False
    lists = [RList(list(c)) for c in comps]
    values = [Adt("token::Component", "Component", {"0": l}) for l in lists]

    def index_of(component):
        l = strip(strip(component).fields["0"])
        for i, x in enumerate(lists):
            if x is l or (isinstance(l, RList) and l.items and x.items and l.items[0] is x.items[0]):
                return i
        return "?"
    stubs = {
        "token::Token::components": lambda I, a, fn, e: models.iter_of(I, RList(list(values)), by_ref=False),
        "Glob::compile": lambda I, a, fn, e: ok(Sym("program(%s)" % index_of(a[0]))),
        "token::TokenTree::as_token": lambda I, a, fn, e: a[0],
    }
    I = W.new_interp(F, stubs)
    res = strip(tabulate.single(I.explore(lambda: I.call_item(it, [Ref(Place(Cell(Sym("tree"))))], inst=inst))))
    if isinstance(res, Adt) and res.variant == "Ok" and isinstance(strip(res.fields["0"]), RList):
        return list(strip(res.fields["0"]).items)
    return None


def compiled_index(v, depth=0):
    """The i of the ?program(i) a component program value is made of (directly or inside wrapper types) | None"""
    v = strip(v)
    if isinstance(v, Sym):
        return int(v.name[8:-1]) if v.name.startswith("program(") and v.name[8:-1].isdigit() else None
    if isinstance(v, Adt) and depth < 4:
        found = [compiled_index(x, depth + 1) for x in v.fields.values()]
        found = [x for x in found if x is not None]
        return found[0] if len(found) == 1 else None
    return None


PIVOT = 7


def rule_walker(F, R):
    from . import tokens as T
    matched_accessor = F.find("walk::glob::GlobEntry::matched")
    cl = c20.walker_closure(F)
    uv = c20.upvars(F, cl)
    n = 0
    # the component programs the walker holds are the ones WalkProgram::compile builds (for variant components)
    programs_for = {}
    for k in range(0, 4):
        ps = component_programs(F, [[T.leaf("zom", "k%d" % i)] for i in range(k)])
        if ps is None or len(ps) != k or [compiled_index(x) for x in ps] != list(range(k)):
            R.fail("C02.prune", "programs=%d" % k, "WalkProgram::compile for %d variant component(s) is unanalysable or does not give one compiled "
                   "program per component: %r" % (k, ps), cl.where())
            return
        programs_for[k] = ps
    # lead: the relative segment of a rooted glob is the whole path and starts with a RootDir component, which has no
    # component program; extra: components of the relative segment that come from the glob's prefix (pivot)
    # lead: the relative segment of a rooted glob is the whole path and starts with a RootDir component, which has no
    # component program; a prefix starting with `..` or `.` gives a ParentDir / CurDir component, which is the glob's
    # first component and has a program; extra: components of the relative segment that come from the prefix (pivot)
    for d, k, lead, extra in itertools.product(range(0, 4), range(0, 4), ("", "RootDir", "ParentDir", "CurDir"), (0, 1)):
        if lead and extra == 0:
            continue     # these leads come from the glob's prefix
        nn = d + extra   # index of the entry's own component among the components that have a program
        for own_match, complete in itertools.product((True, False), repeat=2):
            first_normal = 2 if lead in ("ParentDir", "CurDir") else 1
            comps = ([Adt("std::path::Component", lead, {})] if lead else []) + [
                Adt("std::path::Component", "Normal", {"0": Sym("c%d" % i)}) for i in range(first_normal, nn + 1)]
            regex_calls = []

            def as_os_str(I, a, fn, e):
                c = strip(a[0])
                if isinstance(c, Adt) and c.variant == "Normal":
                    return c.fields["0"]
                if isinstance(c, Adt) and c.variant in ("ParentDir", "CurDir"):
                    return Sym("c1")
                return I.top("as_os_str of %r" % (c,))

            def is_match(I, a, fn, e):
                ix = compiled_index(a[0])
                prog = "p%s" % ("?" if ix is None else ix + 1)
                cand = c13._n(strip(a[1]))
                regex_calls.append((prog, cand))
                if cand != "cand(c%s)" % prog[1:]:
                    return False            # a program compared with a component of another index (reported below)
                return own_match if prog == "p%d" % nn else True   # ancestors were accepted when they were visited

            def captures(I, a, fn, e):
                regex_calls.append(("captures:" + c13._n(a[0]), c13._n(a[1])))
                return some(Sym("captures")) if complete else none()
            stubs = {
                "walk::glob::root_relative_paths": lambda I, a, fn, e: (I.emit("rrp", c13._n(a[0]), c13._n(a[1]), c13._n(a[2])), Tup([Sym("root"), Sym("relative")]))[1],
                "<walk::TreeEntry as walk::Entry>::path": lambda I, a, fn, e: Sym("path(entry)"),
                "<walk::TreeEntry as walk::Entry>::depth": lambda I, a, fn, e: d,
                "std::path::Path::components": lambda I, a, fn, e: models.iter_of(I, RList(list(comps)), by_ref=False) if c13._n(a[0]) == "relative" else I.top("components() of something else than the relative path: %s" % c13._n(a[0])),
                "<CandidatePath as std::convert::From>::from": lambda I, a, fn, e: Sym("cand(%s)" % c13._n(a[0])),
                "<CandidatePath as std::convert::AsRef>::as_ref": lambda I, a, fn, e: strip(a[0]),
                "std::path::Component::<'a>::as_os_str": as_os_str,
                "regex::Regex::is_match": is_match,
                "regex::Regex::captures": captures,
                "<capture::MatchedText as std::convert::From>::from": lambda I, a, fn, e: Sym("matched(%s)" % c13._n(a[0])),
                "capture::MatchedText::into_owned": lambda I, a, fn, e: strip(a[0]),
            }
            I = W.new_interp(F, stubs)

            def run():
                del regex_calls[:]
                env = {}
                program = Adt("walk::glob::WalkProgram", "WalkProgram", {"complete": Sym("complete"), "components": RList(list(programs_for[k]))})
                walker = Adt("walk::glob::GlobWalker", "GlobWalker", {"anchor": Sym("anchor"), "program": program})
                for name, var in uv.items():
                    # a concrete pivot (sums with it cannot overflow): the number of prefix components of the cell
                    env[var] = Cell(walker if name == "self" else (PIVOT if name == "pivot" else Sym(name)))
                clo = Closure(cl.key, env)
                sep = W.separation("filtrate", ok(Adt("walk::TreeEntry", "TreeEntry", {"entry": Sym("dirent")})))
                return I.call_closure(clo, [c13.cancellation(), sep])
            cases = I.explore(run)
            n += 1
            inst = "depth=%d/programs=%d/own=%s/complete=%s" % (d, k, own_match, complete) + (
                "" if not lead and not extra else "/lead=%s/prefix-components=%d" % (lead or "none", extra))
            if len(cases) != 1 or isinstance(cases[0].result, (Top, Panicked)):
                R.fail("C02.prune", inst, "the walker closure could not be evaluated: %r" % ([c.result for c in cases][:2],), cl.where())
                continue
            c = cases[0]
            state, payload = W.classify(c.result)
            cancels = len(W.cancel_events(c))
            consulted = [x for x in regex_calls if not x[0].startswith("captures:")]
            gate = [x for x in regex_calls if x[0].startswith("captures:")]
            # reference
            if 1 <= nn <= k and not own_match:
                want = ("tree", 1)
            elif nn < k:
                want = ("node", 0)
            else:
                want = ("filtrate", 0) if complete else ("node", 0)
            problems = []
            if (state, cancels) != want:
                problems.append("outcome (%s, %d cancellation(s)), expected (%s, %d)" % (state, cancels, want[0], want[1]))
            # the only component program consulted is the one of the entry's own depth, against the entry's own component
            # (components that ancestors were already judged on may be re-checked or skipped: both are correct)
            misaligned = [x for x in consulted if x[1] != "cand(c%s)" % x[0][1:]]
            own = ("p%d" % nn, "cand(c%d)" % nn)
            if misaligned:
                problems.append("component program(s) compared with a path component of another index: %s (a program must be "
                                "compared with the normal component of the same index; consulted: %s)" % (misaligned, consulted))
            elif (own in consulted) != (1 <= nn <= k):
                problems.append("component programs consulted: %s, expected the entry's own component %s to be %s" % (
                    consulted, own, "judged" if 1 <= nn <= k else "absent (there is no program of that index)"))
            elif any(int(x[0][1:]) > nn for x in consulted):
                problems.append("component programs consulted beyond the entry's own component: %s" % consulted)
            if want[0] == "filtrate" or (want == ("node", 0) and nn >= k):
                if gate != [("captures:complete", "cand(relative)")]:
                    problems.append("the yield gate consulted %s, expected the complete program on the root-relative path" % gate)
            elif gate:
                problems.append("the complete program is consulted (%s) although the entry is decided by its component" % gate)
            rrp = [ev for ev in c.log if ev[0] == "rrp"]
            if not rrp or any(ev[1:] != ("path(entry)", str(d), str(PIVOT)) for ev in rrp):
                problems.append("root_relative_paths called with %s, expected (entry.path(), entry.depth(), pivot)" % [ev[1:] for ev in rrp])
            if want[0] == "filtrate" and state == "filtrate":
                g = strip(payload.fields.get("0")) if isinstance(payload, Adt) and payload.variant == "Ok" else None
                # judged through the entry's own accessor (which fields a GlobEntry stores is its own business; its
                # segments and depth are decided by C14.pivot on entries built by this same closure)
                mt = None
                if isinstance(g, Adt) and g.path == "walk::glob::GlobEntry":
                    Im = W.new_interp(F)
                    mt = strip(tabulate.single(Im.explore(lambda: Im.call_item(matched_accessor, [Ref(Place(Cell(g)))]))))
                if not (isinstance(mt, Sym) and mt.name.startswith("matched(captures")):
                    problems.append("the yielded item is %r whose matched() is %r, expected a GlobEntry whose matched text is the complete program's captures" % (payload, mt))
            elif state in ("node", "tree"):
                if not (isinstance(payload, Adt) and payload.path == "walk::TreeEntry"):
                    problems.append("residue payload %r is not the entry" % (payload,))
            if problems:
                R.fail("C02.prune" if want[0] == "tree" or state == "tree" else "C02.gate", inst, "; ".join(problems), cl.where())
            else:
                R.ok("C02.prune" if want[0] == "tree" else "C02.gate", inst, "(%s, %d cancellation(s))" % want, cl.where(), sample=(n % 9 == 0))
    R.floor("C02.gate", "walker cells", n, 320)
    # three yield gates agree: every GlobEntry construction site is inside the walker closure
    sites = []
    for item in F.items.values():
        for b in F.mir(item)["blocks"]:
            for a in b["aggs"]:
                if a["adt"] == "walk::glob::GlobEntry":
                    sites.append(item)
    R.floor("C02.gate", "GlobEntry constructions", len(sites), 1)
    for item in sites:
        owner = item
        while owner.kind == "Closure" and owner.key != cl.key and owner.parent in F.items:
            owner = F.items[owner.parent]
        R.check(owner.key == cl.key, "C02.gate", "GlobEntry constructed in " + item.qname, "only inside the walker closure (decided above)", item.where(),
                fail_msg="a GlobEntry is constructed outside the glob walker's closure: %s" % item.qname)


def rule_stop(F, R, maxlen):
    from . import tokens as T
    it = F.find("walk::glob::WalkProgram::compile")
    n = 0
    def component(kind, i):
        if kind == "B":      # the component is a boundary: a tree wildcard
            return [T.leaf("tree", "k%d" % i)]
        if kind == "M":      # a token that spans a boundary shares the component with other tokens: `<*/:0,2>x*`
            return [T.branch("rep", [T.branch("cat", [T.leaf("zom", "r%d" % i), T.leaf("sep", "s%d" % i)], "c%d" % i)], "m%d" % i, lower=0, upper=2),
                    T.leaf("lit", "k%d" % i), T.leaf("zom", "z%d" % i)]
        return [T.leaf("lit", "k%d" % i), T.leaf("zom", "z%d" % i)]
    for length in range(0, maxlen + 1):
        for pattern in itertools.product("-BM", repeat=length):
            comps = [component(kind, i) for i, kind in enumerate(pattern)]
            ps = component_programs(F, comps)
            got = None if ps is None else [compiled_index(x) for x in ps]
            kk = 0
            while kk < length and pattern[kk] == "-":
                kk += 1
            want = list(range(kk))
            n += 1
            R.check(got == want, "C02.stop", "components=%s" % "".join(pattern), "programs for the first %d component(s)" % kk, it.where(),
                    fail_msg="for components with boundaries at %s WalkProgram::compile builds programs of components %r, expected %r: programs must cover "
                             "exactly the maximal boundary-free prefix (after `**`, or a component in which any token spans a separator, the component index no longer matches "
                             "the path depth: a directory is compared with a program that spans several levels and pruned)" % (
                                 [i for i, b in enumerate(pattern) if b != "-"], got if ps is None else [c13._n(x) if compiled_index(x) is None else compiled_index(x) for x in ps], want))
    R.floor("C02.stop", "component lists", n, 40)


LITERAL_COMPONENTS = {
    # name -> (tokens as (text, case-insensitive) literals, candidates that the compiled expression accepts)
    "Ab": ([("Ab", False)], {"Ab"}),
    "(?i)Ab": ([("Ab", True)], {"Ab", "aB"}),
    "A(?i)b": ([("A", False), ("b", True)], {"Ab", "AB"}),
}
CANDIDATES = ["Ab", "aB", "AB", "zz", "Abc"]


def rule_component(F, R):
    """C02.component: a component program that is not the compiled expression of its component (a fast path) must
    accept exactly the names the expression accepts - decided for literal components, the only kind for which a
    comparison without the compiler is plausible, by evaluating the walker closure on concrete names."""
    from . import tokens as T
    cl = c20.walker_closure(F)
    uv = c20.upvars(F, cl)
    n = 0
    for name, (lits, accepted) in LITERAL_COMPONENTS.items():
        toks = []
        for i, (text, ci) in enumerate(lits):
            t = T.leaf("lit-ci" if ci else "lit", "l%d" % i)
            strip(strip(strip(t.fields["topology"]).fields["0"]).fields["0"]).fields["text"] = text
            toks.append(t)
        ps = component_programs(F, [toks])
        n += 1
        if ps is None or len(ps) != 1:
            R.fail("C02.component", name, "WalkProgram::compile for the literal component %s is unanalysable: %r" % (name, ps), cl.where())
            continue
        if compiled_index(ps[0]) == 0:
            R.ok("C02.component", name, "the component program is the compiled expression of the component (C01 applies)", cl.where())
            continue
        for cand in CANDIDATES:
            stubs = {
                "walk::glob::root_relative_paths": lambda I, a, fn, e: Tup([Sym("root"), Sym("relative")]),
                "<walk::TreeEntry as walk::Entry>::path": lambda I, a, fn, e: Sym("path(entry)"),
                "<walk::TreeEntry as walk::Entry>::depth": lambda I, a, fn, e: 1,
                "std::path::Path::components": lambda I, a, fn, e, cand=cand: models.iter_of(I, RList([Adt("std::path::Component", "Normal", {"0": cand})]), by_ref=False),
                "std::path::Component::<'a>::as_os_str": lambda I, a, fn, e: strip(strip(a[0]).fields.get("0")),
                "<CandidatePath as std::convert::From>::from": lambda I, a, fn, e: strip(a[0]),
                "<CandidatePath as std::convert::AsRef>::as_ref": lambda I, a, fn, e: strip(a[0]),
                "regex::Regex::captures": lambda I, a, fn, e: some(Sym("captures")),
                "<capture::MatchedText as std::convert::From>::from": lambda I, a, fn, e: Sym("matched"),
                "capture::MatchedText::into_owned": lambda I, a, fn, e: strip(a[0]),
            }
            I = W.new_interp(F, stubs)

            def run():
                env = {}
                program = Adt("walk::glob::WalkProgram", "WalkProgram", {"complete": Sym("complete"), "components": RList(list(ps))})
                walker = Adt("walk::glob::GlobWalker", "GlobWalker", {"anchor": Sym("anchor"), "program": program})
                for nm, var in uv.items():
                    env[var] = Cell(walker if nm == "self" else Sym(nm))
                sep = W.separation("filtrate", ok(Adt("walk::TreeEntry", "TreeEntry", {"entry": Sym("dirent")})))
                return I.call_closure(Closure(cl.key, env), [c13.cancellation(), sep])
            cases = I.explore(run)
            inst = "%s/candidate=%s" % (name, cand)
            if len(cases) != 1 or isinstance(cases[0].result, (Top, Panicked)):
                R.fail("C02.component", inst, "the walker's decision with the uncompiled component program %r is unanalysable: %r" % (ps[0], [c.result for c in cases][:2]), cl.where())
                continue
            state, _payload = W.classify(cases[0].result)
            rejected = state == "tree"
            want_reject = cand not in accepted
            R.check(rejected == want_reject, "C02.component", inst, "%s" % ("pruned" if want_reject else "kept"), cl.where(),
                    fail_msg="the glob component %s %s the name `%s`, but the walker's component program %r %s it: %s" % (
                        name, "does not match" if want_reject else "matches", cand, ps[0], "keeps" if not rejected else "prunes",
                        "matches beneath it are lost" if rejected else "a directory that cannot match is read"))
    R.floor("C02.component", "literal component shapes", n, 3)


def rule_same_compiler(F, R):
    from ..facts import fn_refs
    g = F.find("Glob::compile")
    I = W.new_interp(F, {"encode::compile": lambda I2, a, fn, e: Sym("encode::compile(%s)" % c13._n(a[0]))})
    res = strip(tabulate.single(I.explore(lambda: I.call_item(g, [Sym("tree")], inst=False))))
    R.check(isinstance(res, Sym) and res.name == "encode::compile(tree)", "C02.same-compiler", "Glob::compile", "delegates to encode::compile", g.where(),
            fail_msg="Glob::compile returns %r" % (res,))
    w = F.find("Glob::walk_with_behavior")
    refs = [e for it, e in fn_refs(F, lambda fn: fn["path"].startswith("walk::glob::WalkProgram::compile")) if F.owner_fn(it).key == w.key]
    R.check(len(refs) == 1, "C02.same-compiler", "Glob::walk_with_behavior", "component programs are built by WalkProgram::compile from the glob's own tree", w.where(),
            fail_msg="Glob::walk_with_behavior references WalkProgram::compile %d times" % len(refs))
