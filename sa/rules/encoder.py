"""Emission table of the encoder (`encode::encode` / `encode::compile`), shared by C01, C04, C07, C12.

The encoder is a syntax-directed translation.  For every case
    grouping x enclosing context (superposition) x position x token shape
the THIR of `encode` is evaluated on a small abstract concatenation containing the token at that
position, and the text it appends for that token (with holes for escaped text) is extracted.  The
`rx` module then decides language obligations on that text."""
import itertools

from ..teval import (Adt, Tup, Ref, Place, Cell, Sym, PyFn, RList, StrB, Top, Panicked, strip, some, none, UNIT, Interp)
from ..facts import AnchorMissing
from .. import rx, tabulate
from . import tokens as T

POSITION = "itertools::Position"
GROUPING = "encode::Grouping"
POSITIONS = ["First", "Middle", "Last", "Only"]
SUPERPOSITIONS = [None, "First", "Middle", "Last", "Only"]
GROUPINGS = ["Capture", "NonCapture"]


def hl(p):
    return p in ("Middle", "Last")


def hr(p):
    return p in ("First", "Middle")


def alpha(sup, pos):
    return (hl(sup) or hl(pos), hr(sup) or hr(pos))


def encode_item(F):
    it = F.find("encode::encode")
    insts = F.instances_of(it, "token::Token<'_, ()>")
    if not insts:
        insts = F.instances_of(it)
    if not insts:
        raise AnchorMissing("a monomorphic instance of encode::encode")
    return it, insts[0]


_CALL_SHAPE = {}


def call_shape(F):
    """The argument list of `encode`, as makers: `compile` is evaluated once with `encode` intercepted, and the rules
    then call `encode` the way `compile` does, replacing grouping, superposition, pattern and tree.  With the four
    parameters of the pinned tree this is just their order; a further parameter (state threaded through the
    recursion, e.g. the case flag in force) starts with the value `compile` gives it."""
    if F.path in _CALL_SHAPE:
        return _CALL_SHAPE[F.path]
    from .. import models
    it, inst = encode_item(F)
    n = len(F.bodies[it.key]["thir"]["params"])
    shape = ["grouping", "superposition", "pattern", "tree"] if n == 4 else None
    if shape is None:
        comp = F.find("encode::compile")
        insts = F.instances_of(comp, "token::Token<'_, ()>") or F.instances_of(comp)
        seen = []

        def rec(I, a, fn, e):
            seen.append(list(a))
            return UNIT
        I = Interp(F, {"encode::encode": rec, "regex::Regex::new": lambda I, a, fn, e: Sym("regex-result")})
        tree = T.branch("cat", [T.leaf("lit", "probe")], "top")
        I.explore(lambda: I.call_item(comp, [Ref(Place(Cell(tree)))], inst=insts[0] if insts else None))
        if seen and len(seen[0]) == n:
            shape = []
            for a in seen[0]:
                v = strip(a)
                if isinstance(v, Adt) and v.path == GROUPING and "grouping" not in shape:
                    shape.append("grouping")
                elif isinstance(v, Adt) and v.path == "std::option::Option" and v.variant == "None" and not isinstance(a, Ref) and "superposition" not in shape:
                    shape.append("superposition")
                elif isinstance(a, Ref) and isinstance(v, (StrB, str)) and "pattern" not in shape:
                    shape.append("pattern")
                elif isinstance(v, Adt) and v.path == T.TOKEN and "tree" not in shape:
                    shape.append("tree")
                elif isinstance(a, Ref):
                    shape.append(lambda v=v: Ref(Place(Cell(models.deep_copy(v)))))
                else:
                    shape.append(lambda v=v: models.deep_copy(v))
            if not all(k in shape for k in ("grouping", "superposition", "pattern", "tree")):
                shape = None
    _CALL_SHAPE[F.path] = shape
    return shape


def position_value(p):
    return none() if p is None else some(Adt(POSITION, p, {}))


def marker(i):
    return T.leaf("lit", "M%d" % i)


def arrange(tok, position):
    """A concatenation in which `tok` sits at `position` (neighbours are marker literals)."""
    if position == "Only":
        return [tok], 0
    if position == "First":
        return [tok, marker(1)], 0
    if position == "Middle":
        return [marker(0), tok, marker(2)], 1
    if position == "Last":
        return [marker(0), tok], 1
    raise ValueError(position)


class Emission:
    def __init__(self, text, fragments, case):
        self.text = text            # whole pattern text (with holes)
        self.fragments = fragments  # per top-level token: text appended while it was encoded
        self.case = case

    def __repr__(self):
        return "Emission(%r, %r)" % (self.text, self.fragments)


def emit(F, grouping, superposition, toks, stubs=None, fuel=None):
    """Evaluate encode(grouping, superposition, &mut pattern, tree) -> list of Emission (one per
    decision vector, e.g. whether a class sub-expression compiles)."""
    it, inst = encode_item(F)
    I = Interp(F, stubs)
    out = []

    def run():
        tree = toks[0] if len(toks) == 1 else T.branch("cat", toks, "top")
        pat = StrB()
        holder = Cell(pat)
        I.top_pattern = pat
        shape = call_shape(F)
        if shape is None:
            return Top("the way compile calls encode could not be determined (parameters of encode changed)")
        known = {"grouping": Adt(GROUPING, grouping, {}), "superposition": position_value(superposition),
                 "pattern": Ref(Place(holder)), "tree": Ref(Place(Cell(tree)))}
        res = I.call_item(it, [known[k] if isinstance(k, str) else k() for k in shape], inst=inst)
        if isinstance(res, (Top, Panicked)):
            return res
        return holder.v
    for c in I.explore(run):
        if isinstance(c.result, (Top, Panicked)) or not isinstance(strip(c.result), (StrB, str)):
            out.append(Emission(None, None, c))
            continue
        final = strip(c.result)
        text = final.text() if isinstance(final, StrB) else final
        # fragment boundaries: length of the top-level pattern at each top-level iteration marker.
        # push events carry the text of the buffer they appended to; the top-level buffer is the one
        # whose text is a prefix of the final text and that is pushed to at nesting depth 0.
        bounds = []
        cur = ""
        depths = [ev[3] for ev in c.log if ev[0] == "iter"]
        top_depth = min(depths) if depths else 0
        for ev in c.log:
            if ev[0] == "push" and ev[2] == "top":
                cur = ev[1]
            if ev[0] == "iter" and ev[3] == top_depth:
                bounds.append(len(cur))
        bounds.append(len(text))
        frags = [text[bounds[i]:bounds[i + 1]] for i in range(len(bounds) - 1)]
        out.append(Emission(text, frags, c))
    return out


def fragment_for(F, grouping, superposition, position, tok, stubs=None):
    """Emissions of `tok` at `position`: list of (fragment text, Emission)."""
    toks, ix = arrange(tok, position)
    res = []
    for em in emit(F, grouping, superposition, toks, stubs):
        if em.text is None or len(em.fragments) != len(toks):
            res.append((None, em))
        else:
            res.append((em.fragments[ix], em))
    return res


# ---------------------------------------------------------------------------------------------------
# reference languages


def tree_reference(hl_, hr_, rooted):
    """Reference language of a tree wildcard fragment (README: zero or more complete components;
    adjacent separators belong to the wildcard).  Regex text over the symbolic alphabet, dot-all."""
    if not hl_ and not hr_:
        return "/.*" if rooted else ".*"
    if not hl_ and hr_:
        return "/|/.*/" if rooted else "(?:)|.*/"
    if hl_ and hr_:
        return "/|/.*/"
    return "(?:)|/.*"


def _w(word):
    """ASCII rendering of a witness word for instance names."""
    if word is None:
        return "none"
    return word.replace("/", "S").replace("\\n", "N").replace("(empty)", "empty")


def reachable_tree_case(sup, pos):
    # a branch consisting solely of a tree wildcard is rejected by the rule checker (C06.table:
    # singular tree), so `Only` under an enclosing branch does not occur in built globs
    return not (pos == "Only" and sup is not None)


def all_cases():
    for g in GROUPINGS:
        for sup in SUPERPOSITIONS:
            for pos in POSITIONS:
                yield g, sup, pos


def case_name(g, sup, pos, shape):
    return "%s/%s/sup=%s/pos=%s" % (shape, g, sup, pos)


def where_encode(F):
    return F.find("encode::encode").where()


def compile_pattern(F, toks):
    """Evaluate encode::compile on a tree: the text handed to Regex::new (anchored whole pattern)."""
    it = F.find("encode::compile")
    insts = F.instances_of(it, "token::Token<'_, ()>") or F.instances_of(it)
    if not insts:
        raise AnchorMissing("a monomorphic instance of encode::compile")
    out = []
    I = Interp(F)

    def run():
        tree = toks[0] if len(toks) == 1 else T.branch("cat", toks, "top")
        return I.call_item(it, [Ref(Place(Cell(tree)))], inst=insts[0])
    for c in I.explore(run):
        pats = [ev for ev in c.log if ev[0] == "regex.new"]
        # the last Regex::new is the whole program (class sub-expressions are compiled earlier)
        out.append((pats[-1][1].strip('"') if pats else None, c))
    return out


# ---------------------------------------------------------------------------------------------------
# rules


def rule_leaf(F, R):
    """C01.leaf: every non-tree leaf fragment has its documented language in every context."""
    where = where_encode(F)
    n = 0
    for g, sup, pos in all_cases():
        for shape in ("sep", "one", "zom", "zom-lazy", "class", "class-neg", "class-range", "class-multi", "lit", "lit-ci"):
            for frag, em in fragment_for(F, g, sup, pos, T.leaf(shape, "k")):
                n += 1
                inst = case_name(g, sup, pos, shape)
                if frag is None:
                    R.fail("C01.leaf", inst, "unanalysable emission: %r" % (em.case.result,), where)
                    continue
                try:
                    node, p = rx.parse(frag, {"i": None, "s": None})
                    ok_, why = check_leaf(shape, node, p, frag)
                except rx.RxError as e:
                    ok_, why = False, "emitted text %r is not understood: %s" % (frag, e)
                if ok_:
                    R.ok("C01.leaf", inst, "fragment %s: %s" % (frag, why), where, sample=(n % 53 == 0))
                else:
                    R.fail("C01.leaf", inst, "fragment %r: %s" % (frag, why), where)
    R.floor("C01.leaf", "leaf cases", n, 300)


def check_leaf(shape, node, p, frag):
    if shape == "sep":
        eq, o1, o2 = rx.compare(rx.to_dfa(node), rx.to_dfa(rx.parse("/")[0]))
        return eq, "exactly one separator" if eq else "language differs from a single separator (only emitted: %s, only reference: %s)" % (rx.show(o1), rx.show(o2))
    if shape == "one":
        eq, o1, o2 = rx.compare(rx.to_dfa(node), rx.to_dfa(rx.parse("[^/]")[0]))
        return eq, "exactly one non-separator character" if eq else "language differs from one non-separator character (only emitted: %s, only reference: %s)" % (rx.show(o1), rx.show(o2))
    if shape in ("zom", "zom-lazy"):
        eq, o1, o2 = rx.compare(rx.to_dfa(node), rx.to_dfa(rx.parse("[^/]*")[0]))
        return eq, "any number of non-separator characters" if eq else "language differs from [^/]* (only emitted: %s, only reference: %s)" % (rx.show(o1), rx.show(o2))
    if shape.startswith("class"):
        holes = sorted(set(p.holes))
        if any(not h.startswith("esc:") for h in holes):
            return False, "a class member reaches the pattern without regex::escape (%s)" % holes
        for choice in itertools.product(rx.ALPHABET, repeat=len(holes)):
            assign = dict(zip(holes, choice))
            if rx.contains_symbol(node, rx.SEP, assign):
                return False, "the class can match a separator when its member is %s" % rx.show(choice)
            ls = rx.lengths(node, assign)
            if not ls <= {1}:
                return False, "the class matches words of length %s, expected exactly one character" % sorted(map(str, ls))
        return True, "one character, never a separator (for every member)"
    if shape in ("lit", "lit-ci"):
        holes = [a for a in p.atoms if a[0] == "hole"]
        others = [a for a in p.atoms if a[0] != "hole"]
        if len(holes) != 1 or others:
            return False, "a literal must emit exactly its escaped text (atoms: %s)" % [(a[0], a[2]) for a in p.atoms]
        kind, flags, name = holes[0]
        if not name.startswith("esc:"):
            return False, "literal text reaches the pattern without regex::escape (%s)" % name
        want = (shape == "lit-ci")
        if flags.get("i") is not None and flags.get("i") is not want:
            return False, "the fragment sets the case flag to %r but the literal's own flag is %r" % (flags.get("i"), want)
        if rx.capturing_groups(node):
            return False, "a literal emits a capturing group"
        # whether the flag in force is right when the fragment does not set it itself is decided on whole
        # patterns (rule_literal_flags): an encoder that only emits flag *changes* is equally correct
        return True, "escaped text%s" % ("" if flags.get("i") is None else " under an explicit (?%si)" % ("" if want else "-"))
    return False, "unknown shape"


def rule_tree(F, R):
    """C01.tree: tree wildcard fragment language = R(hl, hr, rooted) in every reachable context."""
    where = where_encode(F)
    n = 0
    for g, sup, pos in all_cases():
        if not reachable_tree_case(sup, pos):
            continue
        for rooted in (False, True):
            shape = "tree-rooted" if rooted else "tree"
            h = alpha(sup, pos)
            for frag, em in fragment_for(F, g, sup, pos, T.leaf(shape)):
                n += 1
                inst = "tree/%s/sup=%s/pos=%s/rooted=%s" % (g, sup, pos, rooted)
                if frag is None:
                    R.fail("C01.tree", inst, "unanalysable emission: %r" % (em.case.result,), where)
                    continue
                ref = tree_reference(h[0], h[1], rooted)
                try:
                    eq, o1, o2 = rx.language_equal(frag, ref, {"i": False, "s": True})
                except rx.RxError as e:
                    R.fail("C01.tree", inst, "emitted text %r is not understood: %s" % (frag, e), where)
                    continue
                if eq:
                    R.ok("C01.tree", inst, "fragment %s = reference %s" % (frag, ref), where, sample=(n % 11 == 0))
                else:
                    # the witnesses are part of the instance (hence of the known-finding key): a different
                    # deviation in the same cell is a different violation
                    inst = "%s/extra=%s/missing=%s" % (inst, _w(o1), _w(o2))
                    R.fail("C01.tree", inst, "fragment %r differs from the documented language %r (left neighbour=%s, right "
                           "neighbour=%s, rooted=%s): accepted but should not be: %s; rejected but should match: %s" % (
                               frag, ref, h[0], h[1], rooted, o1, o2), where)
    R.floor("C01.tree", "tree cases", n, 60)


WHOLE_SEQUENCES = {
    "lit-ci,class": lambda: [T.leaf("lit-ci", "a"), T.leaf("class", "k")],
    "lit,class": lambda: [T.leaf("lit", "a"), T.leaf("class", "k")],
    "lit-ci,class-neg": lambda: [T.leaf("lit-ci", "a"), T.leaf("class-neg", "k")],
    "class": lambda: [T.leaf("class", "k")],
    "lit-ci,alt[class]": lambda: [T.leaf("lit-ci", "a"), T.branch("alt", [T.leaf("class", "k"), T.leaf("lit", "b")])],
    "lit-ci,rep[class]": lambda: [T.leaf("lit-ci", "a"), T.branch("rep", [T.leaf("class", "k")], lower=1, upper=2)],
    "alt[lit-ci class]": lambda: [T.branch("alt", [T.branch("cat", [T.leaf("lit-ci", "a"), T.leaf("class", "k")]), T.leaf("lit", "b")])],
    "lit-ci,sep,class": lambda: [T.leaf("lit-ci", "a"), T.leaf("sep"), T.leaf("class", "k")],
    "lit-ci,zom,class": lambda: [T.leaf("lit-ci", "a"), T.leaf("zom"), T.leaf("class", "k")],
    "tree": lambda: [T.leaf("tree")],
    "tree-rooted": lambda: [T.leaf("tree-rooted")],
    "tree,lit": lambda: [T.leaf("tree"), T.leaf("lit", "a")],
    "tree-rooted,lit": lambda: [T.leaf("tree-rooted"), T.leaf("lit", "a")],
    "lit,tree-rooted,lit": lambda: [T.leaf("lit", "a"), T.leaf("tree-rooted"), T.leaf("lit", "b")],
    "lit,tree-rooted": lambda: [T.leaf("lit", "a"), T.leaf("tree-rooted")],
    "lit,alt[tree lit]": lambda: [T.leaf("lit", "a"), T.branch("alt", [T.branch("cat", [T.leaf("tree"), T.leaf("lit", "b")]), T.leaf("lit", "c")])],
    "rep[lit tree-rooted sep]": lambda: [T.branch("rep", [T.branch("cat", [T.leaf("lit", "a"), T.leaf("tree-rooted")])], lower=1, upper=None), T.leaf("lit", "z")],
}


def whole_patterns(F):
    out = {}
    for name, mk in WHOLE_SEQUENCES.items():
        out[name] = compile_pattern(F, mk())
    return out


def rule_whole(F, R):
    """C01.anchor, C01.flag, C01.dotall on whole compiled patterns."""
    where = F.find("encode::compile").where()
    pats = whole_patterns(F)
    nflag = ndot = 0
    for name, results in pats.items():
        for text, c in results:
            if text is None:
                R.fail("C01.anchor", name, "no pattern reaches Regex::new (%r)" % (c.result,), where)
                continue
            try:
                node, p = rx.parse(text)
            except rx.RxError as e:
                R.fail("C01.anchor", name, "pattern %r not understood: %s" % (text, e), where)
                continue
            items = node.items if node.kind == "cat" else [node]
            anchored = len(items) >= 2 and items[0].kind == "bol" and items[-1].kind == "eol" and \
                not any(it.kind in ("bol", "eol") for it in items[1:-1]) and \
                not items[0].flags.get("m") and not items[-1].flags.get("m")     # under (?m) they are line anchors
            R.check(anchored, "C01.anchor", name, "pattern is ^...$ (whole-path match, capture 0 = whole path)", where,
                    fail_msg="the compiled pattern %r is not anchored at both ends: a partial match would be accepted" % text)
            for flags, cls in rx.classes(p):
                # the separator-exclusion operand [^/] is itself a class atom nested in the outer one: only
                # top-level class atoms are recorded by the parser
                nflag += 1
                holes = sorted(set(p.holes))
                nonempty = any(rx.class_syms(cls, dict(zip(holes, ch))) for ch in itertools.product(rx.ALPHABET, repeat=len(holes)))
                if not nonempty:
                    R.ok("C01.flag", "class in %s (empty class)" % name, "the never-matching fallback class: flags are immaterial", where, sample=False)
                    continue
                members = set()
                rx._class_chars(cls, members)
                if not any(m[0] == "hole" or m[1].lower() != m[1].upper() for m in members):
                    # e.g. the encoder's own [/] and [^/]: no member has case, folding cannot change the class
                    continue
                R.check(flags.get("i") is False, "C01.flag", "class in " + name,
                        "character class is matched case-sensitively", where,
                        fail_msg="in %r (tokens %s) the case-insensitive flag in force at the character class is %r: classes "
                                 "must stay case-sensitive whatever flags precede them (e.g. `(?i)a[b]` would match `aB`)" % (
                                     text, name, flags.get("i")))
            for kind, flags in rx.dots(p):
                ndot += 1
                R.check(flags.get("s") is True, "C01.dotall", "dot in " + name, "`.` matches every character including newline", where,
                        fail_msg="in %r (tokens %s) a `.` of a tree wildcard is compiled without the dot-all flag: `**` would "
                                 "not match a path containing a newline" % (text, name))
    R.floor("C01.flag", "class atoms in whole patterns", nflag, 9)
    R.floor("C01.dotall", "dot atoms in whole patterns", ndot, 8)


def rule_homo(F, R):
    """C01.homo / C07.union / C07.iterate: the branch arms are a homomorphism."""
    where = where_encode(F)
    lits = lambda *names: [T.leaf("lit", n) for n in names]
    H = lambda n: "⟦esc:text_%s⟧" % n
    for g in GROUPINGS:
        for sup in (None, "Middle"):
            for pos in POSITIONS:
                cases = {
                    "alt[x,y,z]": (T.branch("alt", lits("x", "y", "z")), "%s|%s|%s" % (H("x"), H("y"), H("z"))),
                    "alt[xy,z]": (T.branch("alt", [T.branch("cat", lits("x", "y")), T.leaf("lit", "z")]), "%s%s|%s" % (H("x"), H("y"), H("z"))),
                    "alt[x]": (T.branch("alt", lits("x")), H("x")),
                    "alt[x,alt[y,z]]": (T.branch("alt", [T.leaf("lit", "x"), T.branch("alt", lits("y", "z"))]), "%s|%s|%s" % (H("x"), H("y"), H("z"))),
                    "rep[x]{2,4}": (T.branch("rep", lits("x"), lower=2, upper=4), "(?:%s){2,4}" % H("x")),
                    "rep[x]{0,}": (T.branch("rep", lits("x"), lower=0, upper=None), "(?:%s)*" % H("x")),
                    "rep[x]{1,}": (T.branch("rep", lits("x"), lower=1, upper=None), "(?:%s)+" % H("x")),
                    "rep[x]{3,3}": (T.branch("rep", lits("x"), lower=3, upper=3), "(?:%s){3}" % H("x")),
                    "rep[x]{0,2}": (T.branch("rep", lits("x"), lower=0, upper=2), "(?:%s){0,2}" % H("x")),
                    "rep[xy]{1,2}": (T.branch("rep", [T.branch("cat", lits("x", "y"))], lower=1, upper=2), "(?:%s%s){1,2}" % (H("x"), H("y"))),
                    "rep[alt[x,y]]{2,2}": (T.branch("rep", [T.branch("alt", lits("x", "y"))], lower=2, upper=2), "(?:%s|%s){2}" % (H("x"), H("y"))),
                }
                # every shape of bounds: lower 0..3 x upper open / equal / one more / three more
                for lo_ in range(0, 4):
                    for hi_ in (None, lo_, lo_ + 1, lo_ + 3):
                        if hi_ == 0:
                            continue
                        nm = "rep[x]{%d,%s}" % (lo_, "" if hi_ is None else hi_)
                        if nm not in cases:
                            cases[nm] = (T.branch("rep", lits("x"), lower=lo_, upper=hi_), "(?:%s){%d,%s}" % (H("x"), lo_, "" if hi_ is None else hi_))
                for name, (tok, ref) in cases.items():
                    for frag, em in fragment_for(F, g, sup, pos, tok):
                        inst = "%s/%s/sup=%s/pos=%s" % (name, g, sup, pos)
                        if frag is None:
                            R.fail("C01.homo", inst, "unanalysable emission: %r" % (em.case.result,), where)
                            continue
                        try:
                            n1, p1 = rx.parse(frag, {"i": False, "s": True})
                            n2, p2 = rx.parse(ref, {"i": False, "s": True})
                            extra = tuple(sorted(set("H:" + h for h in p1.holes + p2.holes)))
                            eq, o1, o2 = rx.compare(rx.to_dfa(n1, None, extra), rx.to_dfa(n2, None, extra))
                        except rx.RxError as e:
                            R.fail("C01.homo", inst, "emitted text %r not understood: %s" % (frag, e), where)
                            continue
                        ncap = len(rx.capturing_groups(n1))
                        want_cap = 1 if g == "Capture" else 0
                        if eq and ncap == want_cap:
                            R.ok("C01.homo", inst, "%s = %s with %d capturing group(s)" % (frag, ref, ncap), where, sample=False)
                        elif not eq:
                            R.fail("C01.homo", inst, "branch %s is encoded as %r whose language differs from %r (only emitted: %s; "
                                   "missing: %s): an alternation must be the union of all its branches in place, a repetition "
                                   "its body the stated number of times" % (name, frag, ref, rx.show(o1), rx.show(o2)), where)
                        else:
                            R.fail("C04.one", inst, "branch %s emits %d capturing group(s) under grouping %s, expected %d" % (
                                name, ncap, g, want_cap), where)
    # concatenation order
    for em in emit(F, "Capture", None, lits("x", "y", "z")):
        try:
            n1, p1 = rx.parse(em.text, {"i": False, "s": True})
            ref = H("x") + H("y") + H("z")
            n2, p2 = rx.parse(ref)
            extra = tuple(sorted(set("H:" + h for h in p1.holes + p2.holes)))
            eq, o1, o2 = rx.compare(rx.to_dfa(n1, None, extra), rx.to_dfa(n2, None, extra))
        except (rx.RxError, TypeError) as e:
            eq, o1, o2 = False, str(e), None
        R.check(eq, "C01.homo", "concatenation[x,y,z]", "tokens are encoded in order, each exactly once", where,
                fail_msg="concatenation [x,y,z] is encoded as %r (only emitted: %s; missing: %s)" % (em.text, o1, o2))


def rule_ctx(F, R):
    """C07.ctx: the context a branch passes to its sub-expression preserves (has left neighbour, has right
    neighbour) at every nesting level.  Decided on the emitted text (no interception of the recursion, so a
    renamed or extracted helper is immaterial): a tree wildcard placed at every position of a sub-expression
    nested in a branch at every position under every enclosing context must be encoded with the reference
    language of the combined neighbourhood."""
    where = where_encode(F)
    H = lambda n: "⟦esc:text_%s⟧" % n
    n = 0
    for sup, pos, p2 in itertools.product(SUPERPOSITIONS, POSITIONS, ("First", "Middle", "Last")):
        for kind in ("alt", "rep"):
            for rooted in (False, True):
                tree = T.leaf("tree-rooted" if rooted else "tree")
                if p2 == "First":
                    body, inner_l, inner_r = [tree, T.leaf("lit", "I2")], "", H("I2")
                elif p2 == "Middle":
                    body, inner_l, inner_r = [T.leaf("lit", "I0"), tree, T.leaf("lit", "I2")], H("I0"), H("I2")
                else:
                    body, inner_l, inner_r = [T.leaf("lit", "I0"), tree], H("I0"), ""
                inner = T.branch("cat", body, "body")
                tok = T.branch("alt", [inner], "probe") if kind == "alt" else T.branch("rep", [inner], "probe", lower=1, upper=1)
                toks, ix = arrange(tok, pos)
                h = (hl(sup) or hl(pos) or hl(p2), hr(sup) or hr(pos) or hr(p2))
                if (not h[0]) and h[1] and rooted:
                    # rooted tree wildcard with nothing before and something after it: the form itself is decided by
                    # C01.tree (known finding on the pinned tree); it does not depend on the nesting
                    continue
                ref = ""
                for i, t in enumerate(toks):
                    if i == ix:
                        ref += "(?:%s(?:%s)%s)" % (inner_l, tree_reference(h[0], h[1], rooted), inner_r)
                    else:
                        ref += H(t.tag.split(":")[1])
                for em in emit(F, "Capture", sup, toks):
                    n += 1
                    inst = "nested-tree/%s/sup=%s/pos=%s/inner=%s/rooted=%s" % (kind, sup, pos, p2, rooted)
                    if em.text is None:
                        R.fail("C07.ctx", inst, "unanalysable emission: %r" % (em.case.result,), where)
                        continue
                    try:
                        n1, p1 = rx.parse(em.text, {"i": False, "s": True})
                        n2, pr = rx.parse(ref, {"i": False, "s": True})
                        extra = tuple(sorted(set("H:" + x for x in p1.holes + pr.holes)))
                        eq, o1, o2 = rx.compare(rx.to_dfa(n1, None, extra), rx.to_dfa(n2, None, extra))
                    except rx.RxError as e:
                        R.fail("C07.ctx", inst, "emitted text %r not understood: %s" % (em.text, e), where)
                        continue
                    if eq:
                        R.ok("C07.ctx", inst, "nested tree wildcard has the language of neighbourhood %s" % (h,), where, sample=(n % 61 == 0))
                    else:
                        R.fail("C07.ctx", inst + ("/extra=%s/missing=%s" % (_w(rx.show(o1)), _w(rx.show(o2)))),
                               "a tree wildcard at position %s of a sub-expression nested in a %s at position %s under context %s is encoded as %r; "
                               "with (left neighbour, right neighbour) = %s its language should be %r (extra: %s, missing: %s): the form "
                               "chosen inside a branch must depend on all enclosing levels (`{.A{**/A}}ba` vs `.A{**/A}ba`)" % (
                                   p2, kind, pos, sup, em.text, h, ref, rx.show(o1), rx.show(o2)), where)
    R.floor("C07.ctx", "nested tree cells", n, 200)


def rule_groups(F, R):
    """C04.one / C04.agree / C04.nested / C04.content."""
    where = where_encode(F)
    I = Interp(F)
    # reader side: is_capturing tables
    leaf_cap = F.find("token::LeafKind::is_capturing")
    br_cap = F.find("token::BranchKind::is_capturing")
    reader = {}
    for shape in ("sep", "lit", "class", "class-neg", "one", "zom", "zom-lazy", "tree", "tree-rooted"):
        res = strip(tabulate.single(I.explore(lambda: I.call_item(leaf_cap, [Ref(Place(Cell(T.leaf_kind(shape))))]))))
        reader[shape] = res
    for kind in ("alt", "rep", "cat"):
        tok = T.branch(kind, [T.leaf("lit", "x")])
        bk = strip(strip(tok.fields["topology"]).fields["0"])
        res = strip(tabulate.single(I.explore(lambda: I.call_item(br_cap, [Ref(Place(Cell(bk)))]))))
        reader[kind] = res
    n = 0
    for g, sup, pos in all_cases():
        for shape in ("sep", "lit", "class", "class-neg", "one", "zom", "zom-lazy", "tree", "tree-rooted", "alt", "rep"):
            if shape.startswith("tree") and not reachable_tree_case(sup, pos):
                continue
            tok = T.branch(shape, [T.leaf("lit", "x")]) if shape in ("alt", "rep") else T.leaf(shape, "k")
            for frag, em in fragment_for(F, g, sup, pos, tok):
                n += 1
                inst = case_name(g, sup, pos, shape)
                if frag is None:
                    R.fail("C04.one", inst, "unanalysable emission: %r" % (em.case.result,), where)
                    continue
                try:
                    node, p = rx.parse(frag, {"i": False, "s": True})
                except rx.RxError as e:
                    R.fail("C04.one", inst, "emitted text %r not understood: %s" % (frag, e), where)
                    continue
                groups = rx.capturing_groups(node)
                writer_captures = len(groups)
                want = 1 if (g == "Capture" and reader.get(shape) is True) else 0
                if g == "Capture":
                    R.check(writer_captures == want, "C04.agree", inst,
                            "%d capturing group(s); Glob::captures %s this kind" % (want, "lists" if want else "skips"), where,
                            fail_msg="at top level the encoder emits %d capturing group(s) for a %s token (fragment %r) but "
                                     "is_capturing says %r: capture indices shift for every later token" % (
                                         writer_captures, shape, frag, reader.get(shape)))
                else:
                    R.check(writer_captures == 0, "C04.nested", inst, "nested tokens never capture", where,
                            fail_msg="a nested %s token emits %d capturing group(s) (fragment %r): captures 1..n would no "
                                     "longer correspond to the top-level tokens" % (shape, writer_captures, frag))
                if g == "Capture" and writer_captures == 1:
                    content = groups[0].node
                    if shape in ("one", "zom", "zom-lazy", "class", "class-neg"):
                        holes = sorted(set(p.holes))
                        bad = None
                        for choice in itertools.product(rx.ALPHABET, repeat=len(holes)):
                            if rx.contains_symbol(content, rx.SEP, dict(zip(holes, choice))):
                                bad = choice
                        R.check(bad is None, "C04.content", inst, "captured text never contains a separator", where,
                                fail_msg="the capture of a %s token (fragment %r) can contain a separator" % (shape, frag))
                    if shape.startswith("tree"):
                        h = alpha(sup, pos)
                        check_tree_capture(R, inst, frag, node, groups[0], h, where)
    R.floor("C04.agree", "capture cases", n, 300)
    # nesting: whatever is nested inside a top-level token never adds a capturing group (decided on the emitted
    # text, not by intercepting the recursion)
    L = lambda nme: T.leaf("lit", nme)
    nested = {
        "alt[class]": T.branch("alt", [T.leaf("class", "k"), L("b")]),
        "alt[alt[one]]": T.branch("alt", [T.branch("alt", [T.leaf("one"), L("b")]), L("c")]),
        "rep[zom lit]": T.branch("rep", [T.branch("cat", [T.leaf("zom"), L("b")])], lower=1, upper=2),
        "rep[alt[lit tree-rooted lit]]": T.branch("rep", [T.branch("alt", [T.branch("cat", [L("a"), T.leaf("tree-rooted"), L("b")]), L("c")])], lower=1, upper=2),
        "alt[tree lit]": T.branch("alt", [T.branch("cat", [T.leaf("tree"), L("a")]), L("b")]),
        "alt[lit tree-rooted]": T.branch("alt", [T.branch("cat", [L("a"), T.leaf("tree-rooted")]), L("b")]),
        "alt[rep[class-neg]]": T.branch("alt", [T.branch("rep", [T.leaf("class-neg", "k")], lower=2, upper=2), L("b")]),
    }
    for name, tok in nested.items():
        for g, pos in itertools.product(GROUPINGS, POSITIONS):
            for frag, em in fragment_for(F, g, None, pos, tok):
                inst = "nested/%s/%s/pos=%s" % (name, g, pos)
                if frag is None:
                    R.fail("C04.nested", inst, "unanalysable emission: %r" % (em.case.result,), where)
                    continue
                try:
                    node, p = rx.parse(frag, {"i": False, "s": True})
                except rx.RxError as e:
                    R.fail("C04.nested", inst, "emitted text %r not understood: %s" % (frag, e), where)
                    continue
                ncap = len(rx.capturing_groups(node))
                want = 1 if g == "Capture" else 0
                R.check(ncap == want, "C04.nested", inst, "%d capturing group(s): nested tokens never capture" % want, where,
                        fail_msg="the top-level token %s is encoded as %r with %d capturing group(s), expected %d: a nested token that "
                                 "captures shifts every later capture index" % (name, frag, ncap, want))
    for text, c in compile_pattern(F, [T.leaf("zom"), L("x"), T.branch("alt", [T.leaf("one"), L("y")])]):
        if text is None:
            R.fail("C04.nested", "compile", "no pattern reaches Regex::new", where)
            continue
        node, p = rx.parse(text)
        R.check(len(rx.capturing_groups(node)) == 2, "C04.nested", "compile", "top-level capturing tokens capture (2 groups for `*x{?,y}`)", where,
                fail_msg="compile encodes [*, x, {?,y}] as %r with %d capturing groups, expected 2" % (text, len(rx.capturing_groups(node))))


def check_tree_capture(R, inst, frag, node, group, h, where):
    """Captured text of a tree wildcard is a run of complete components: when something follows
    (hr) every non-empty captured word ends with a separator; when something precedes (hl) the text
    before the capture inside the fragment ends with a separator."""
    content = group.node
    d = rx.to_dfa(content)
    problems = []
    witnesses = []
    if h[1]:
        # exists non-empty accepted word not ending with SEP?
        bad = _word_not_ending_with_sep(d)
        if bad is not None:
            witnesses.append("capture=" + _w(rx.show(bad)))
            problems.append("with a right neighbour the capture can be %r, which does not end at a component boundary "
                            "(half a component is captured, e.g. `/home/nobody/.` for `/**/.var`)" % rx.show(bad))
    if h[0]:
        pre = _prefix_nodes(node, group)
        if pre is None:
            problems.append("cannot locate the capture inside the fragment")
        else:
            pd = rx.to_dfa(rx.Node("cat", items=pre))
            bad = _word_not_ending_with_sep(pd, allow_empty=False)
            if bad is not None:
                witnesses.append("before=" + _w(rx.show(bad)))
                problems.append("with a left neighbour the text before the capture can be %r, which does not end with a separator" % rx.show(bad))
    if problems:
        R.fail("C04.content", inst + "/" + "+".join(witnesses), "fragment %r: %s" % (frag, "; ".join(problems)), where)
    else:
        R.ok("C04.content", inst, "tree capture is a run of complete components", where, sample=False)


def _word_not_ending_with_sep(d, allow_empty=True):
    """Shortest accepted word that is non-empty and does not end with SEP (or is empty when not allowed)."""
    start = (d.start, None)
    seen = {start: ()}
    todo = [start]
    while todo:
        nxt = []
        for (st, last) in todo:
            w = seen[(st, last)]
            if st in d.accept:
                if last is None and not allow_empty:
                    return w
                if last is not None and last != rx.SEP:
                    return w
            for s in d.alphabet:
                key = (d.trans[(st, s)], s)
                if key not in seen:
                    seen[key] = w + (s,)
                    nxt.append(key)
        todo = nxt
    return None


def _prefix_nodes(node, group):
    """Nodes that precede `group` on the path from the fragment root (None if not found)."""
    if node is group:
        return []
    if node.kind == "cat":
        for i, it in enumerate(node.items):
            sub = _prefix_nodes(it, group)
            if sub is not None:
                return list(node.items[:i]) + sub
        return None
    if node.kind == "alt":
        for it in node.items:
            sub = _prefix_nodes(it, group)
            if sub is not None:
                return sub
        return None
    if node.kind == "group":
        return _prefix_nodes(node.node, group)
    if node.kind == "rep":
        return _prefix_nodes(node.node, group)
    return None


def rule_begin(F, R):
    """C12.begin: every rooting leaf at an initial position only matches text beginning with a separator."""
    where = where_encode(F)
    n = 0
    for g in GROUPINGS:
        for sup in (None, "First", "Only"):
            for pos in ("First", "Only"):
                for shape in ("sep", "tree-rooted"):
                    if shape.startswith("tree") and not reachable_tree_case(sup, pos):
                        continue
                    for frag, em in fragment_for(F, g, sup, pos, T.leaf(shape)):
                        n += 1
                        inst = "begin/" + case_name(g, sup, pos, shape)
                        if frag is None:
                            R.fail("C12.begin", inst, "unanalysable emission", where)
                            continue
                        try:
                            node, p = rx.parse(frag, {"i": False, "s": True})
                            d = rx.to_dfa(node)
                        except rx.RxError as e:
                            R.fail("C12.begin", inst, "emitted text %r not understood: %s" % (frag, e), where)
                            continue
                        bad = None
                        if d.start in d.accept:
                            bad = ()
                        else:
                            for s in (rx.NL, rx.OTH):
                                st = d.trans[(d.start, s)]
                                # can reach accept?
                                if _can_accept(d, st):
                                    bad = (s,)
                        R.check(bad is None, "C12.begin", inst, "language is inside SEP.Sigma*", where,
                                fail_msg="a %s token at the beginning of the expression is encoded as %r, which matches text not "
                                         "beginning with a separator (%s) although has_root reports `always` (`/**` matches `a`)" % (
                                             shape, frag, rx.show(bad) if bad else ""))
    R.floor("C12.begin", "initial rooting cases", n, 12)


def _can_accept(d, st):
    seen = {st}
    todo = [st]
    while todo:
        x = todo.pop()
        if x in d.accept:
            return True
        for s in d.alphabet:
            y = d.trans[(x, s)]
            if y not in seen:
                seen.add(y)
                todo.append(y)
    return False


def rule_whole_anchor_only(F, R):
    """C04.whole: the program is anchored, hence capture 0 is the whole path."""
    where = F.find("encode::compile").where()
    for name in ("lit,class", "tree,lit", "lit,tree-rooted"):
        for text, c in compile_pattern(F, WHOLE_SEQUENCES[name]()):
            if text is None:
                R.fail("C04.whole", "anchor/" + name, "no pattern reaches Regex::new", where)
                continue
            node, p = rx.parse(text)
            items = node.items if node.kind == "cat" else [node]
            anchored = len(items) >= 2 and items[0].kind == "bol" and items[-1].kind == "eol" and \
                not items[0].flags.get("m") and not items[-1].flags.get("m")
            R.check(anchored, "C04.whole", "anchor/" + name, "capture 0 is the whole path (pattern is ^...$)", where,
                    fail_msg="pattern %r is not anchored at both ends" % text)


def literal_flag_sequences():
    L = lambda n, ci: T.leaf("lit-ci" if ci else "lit", n)
    alt = lambda *b: T.branch("alt", list(b))
    cat = lambda *t: T.branch("cat", list(t))
    rep = lambda body, lo=1, hi=2: T.branch("rep", [body], lower=lo, upper=hi)
    seqs = {}
    for a, b in itertools.product((False, True), repeat=2):
        t = "%s%s" % ("I" if a else "s", "I" if b else "s")
        seqs["lit,lit/" + t] = [L("a", a), L("b", b)]
        seqs["lit,alt[lit]/" + t] = [L("a", a), alt(L("b", b))]
        seqs["lit,alt[lit,lit]/" + t] = [L("a", a), alt(L("b", b), L("c", a))]
        seqs["lit,rep[lit]/" + t] = [L("a", a), rep(L("b", b))]
        seqs["lit,alt[alt[lit]]/" + t] = [L("a", a), alt(alt(L("b", b)), L("c", b))]
        seqs["alt[lit],lit/" + t] = [alt(L("a", a)), L("b", b)]
        seqs["alt[lit lit]/" + t] = [alt(cat(L("a", a), L("b", b)), L("c", b))]
        seqs["lit,sep,lit/" + t] = [L("a", a), T.leaf("sep"), L("b", b)]
        seqs["lit,zom,lit/" + t] = [L("a", a), T.leaf("zom"), L("b", b)]
        seqs["lit,class,lit/" + t] = [L("a", a), T.leaf("class", "k"), L("b", b)]
        seqs["lit,tree,lit/" + t] = [L("a", a), T.leaf("tree-rooted"), L("b", b)]
        seqs["rep[lit lit],lit/" + t] = [rep(cat(L("a", a), L("b", b))), L("c", a)]
        seqs["lit,rep[alt[lit]]/" + t] = [L("a", a), rep(alt(L("b", b), L("c", a)))]
    return seqs


def _literal_flags(tok, acc):
    topo = strip(tok.fields["topology"])
    v = strip(topo.fields["0"])
    if topo.variant == "Leaf":
        if v.variant == "Literal":
            lit = strip(v.fields["0"])
            t = strip(lit.fields["text"])
            acc["esc:" + t.name] = strip(lit.fields["is_case_insensitive"])
        return
    inner = strip(v.fields["0"])
    if v.variant == "Repetition":
        _literal_flags(strip(inner.fields["token"]), acc)
    else:
        for ch in strip(inner.fields["0"]).items:
            _literal_flags(strip(ch), acc)


def rule_literal_flags(F, R, rule="C01.flag"):
    """In whole compiled patterns, the case flag in force at every literal equals the literal's own
    flag, whatever precedes it and however deeply it is nested (flags set in an enclosing group are
    inherited by nested groups; flags set inside a group do not escape it)."""
    where = where_encode(F)
    n = 0
    for name, toks in literal_flag_sequences().items():
        want = {}
        for t in toks:
            _literal_flags(t, want)
        for text, c in compile_pattern(F, toks):
            if text is None:
                R.fail(rule, "literal flags in " + name, "no pattern reaches Regex::new (%r)" % (c.result,), where)
                continue
            try:
                node, p = rx.parse(text)
            except rx.RxError as e:
                R.fail(rule, "literal flags in " + name, "pattern %r not understood: %s" % (text, e), where)
                continue
            bad = []
            seen = set()
            for kind, flags, hname in p.atoms:
                if kind != "hole" or hname not in want:
                    continue
                seen.add(hname)
                if flags.get("i") is not want[hname]:
                    bad.append((hname, flags.get("i"), want[hname]))
            n += 1
            if bad or seen != set(want):
                R.fail(rule, "literal flags in " + name,
                       "in %r the literals %s are matched with case-insensitivity %s (in force, own flag): a literal's casing must not "
                       "depend on what precedes or encloses it (`(?i)a{(?-i)b}` must not match `aB`)" % (
                           text, [b[0] for b in bad] or sorted(set(want) - seen), [(b[1], b[2]) for b in bad]), where)
            else:
                R.ok(rule, "literal flags in " + name, "every literal is matched under its own case flag", where, sample=(n % 17 == 0))
    R.floor(rule, "whole patterns with literal flags", n, 40)
