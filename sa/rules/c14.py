"""C14 — Walk entries describe their file consistently (plumbing only)."""
import itertools

from ..teval import (Adt, Tup, Ref, Place, Cell, Sym, RList, Top, Panicked, strip, some, none, ok, err, Interp)
from .. import tabulate, models
from . import c13, c20
from . import pathmodel as PM

EXPLANATION = (
    "Decided on abstract paths (component sequences with an optional RootDir / CurDir lead, `..` as an ordinary component) by "
    "evaluating the THIR of the functions involved: (join) split_at_depth returns (a, self.strip_prefix(a)) for an ancestor a "
    "of the same path, for every depth including depths beyond the number of components, so joining the two segments gives "
    "the path back; (pivot) for every base directory shape (empty, `.`, `proj` = `proj/` = `proj/.`, `a/b`, `./proj`, `/`, "
    "`/abs`, `/abs/dir`) x prefix shape (none, one or two literal components, rooted with 0..2 components, `..`, `../p`, "
    "`p/..`, `./p`) x traversal depth 0..2, the pivot computed by join_and_get_depth makes the root segment the directory "
    "given to the walk (empty for a rooted glob), the relative segment the prefix as written plus the traversed names (the "
    "whole path for a rooted glob), and depth() = traversal depth + pivot equal to the number of components of the relative "
    "segment - GlobEntry's own root_relative_paths and depth are evaluated on an entry built from (path, traversal depth, "
    "pivot), so the rule does not depend on which helpers they use; (tree) the same for TreeEntry (walks without a glob); "
    "(matched) to_candidate_path returns the complete matched text, which is the relative segment "
    "the complete program was matched on (C02.gate).")
RULES = "C14.join (PROV), C14.pivot (TABLE), C14.tree (TABLE), C14.matched (PROV, with C02.gate)"


def run(ctx):
    F = ctx.facts()
    R = ctx.report
    R.assume("std::path ancestors / strip_prefix semantics; walkdir depth = number of components below the walk root")
    R.assume("std::path semantics as modelled in sa/rules/pathmodel.py; textual variants of one component sequence (trailing separator, trailing `.`) behave alike")
    R.undecided("Windows path prefixes; bases that contain `..`")
    rule_join(F, R)
    rule_same(F, R)
    rule_pivot(F, R)


def P(comps):
    return Adt("Path", "Path", {"c": tuple(comps)})


def rule_join(F, R):
    it = F.find("<std::path::Path as walk::SplitAtDepth>::split_at_depth")

    def comps(v):
        v = strip(v)
        return v.fields["c"] if isinstance(v, Adt) and v.path == "Path" else None
    stubs = {
        "std::path::Path::ancestors": lambda I, a, fn, e: models.iter_of(I, RList([P(comps(a[0])[:n]) for n in range(len(comps(a[0])), -1, -1)]), by_ref=False),
        "std::path::Path::new": lambda I, a, fn, e: P(()) if strip(a[0]) == "" else I.top("Path::new(%r)" % (strip(a[0]),)),
        "std::path::Path::strip_prefix": lambda I, a, fn, e: (ok(P(comps(a[0])[len(comps(a[1])):])) if comps(a[0])[:len(comps(a[1]))] == comps(a[1]) else err(Sym("StripPrefixError"))),
    }
    for n in range(0, 4):
        path = tuple("c%d" % i for i in range(n))
        for depth in range(0, n + 3):
            I = Interp(F, stubs)
            cases = I.explore(lambda: I.call_item(it, [Ref(Place(Cell(P(path)))), depth]))
            res = tabulate.single(cases)
            inst = "components=%d/depth=%d" % (n, depth)
            if isinstance(res, (Top, Panicked)) or not isinstance(strip(res), Tup):
                R.fail("C14.join", inst, "split_at_depth panics / is unanalysable: %r" % (res,), it.where())
                continue
            a, d = comps(strip(res).items[0]), comps(strip(res).items[1])
            k = min(depth, n)
            good = a is not None and d is not None and a + d == path and len(d) == k
            R.check(good, "C14.join", inst, "root + relative = path, relative has %d component(s)" % k, it.where(),
                    fail_msg="split_at_depth(%d) of a path with components %s gives (%s, %s): joining the segments must give the path "
                             "and the relative segment must have min(depth, len) components" % (depth, list(path), a, d))


def rule_same(F, R):
    """TreeEntry (PathExt::walk, no glob): the root segment is the walked directory, the relative segment the traversed
    names, the depth their number - by evaluating TreeEntry's own accessors on abstract entries."""
    rrp = F.find("<walk::TreeEntry as walk::Entry>::root_relative_paths")
    dep = F.find("<walk::TreeEntry as walk::Entry>::depth")
    stubs = PM.stubs()
    stubs["walkdir::DirEntry::path"] = lambda I, a, fn, e: strip(a[0]).fields["path"]
    stubs["walkdir::DirEntry::depth"] = lambda I, a, fn, e: strip(a[0]).fields["depth"]
    n = 0
    for bname, b in BASES.items():
        if b == ("", ()):
            continue
        base = PM.P(*b)
        for d in range(0, 4):
            below = tuple("e%d" % i for i in range(1, d + 1))
            path = PM.P(b[0], b[1] + below)
            entry = tree_entry(Adt("walkdir-model", "DirEntry", {"path": path, "depth": d}))
            I = Interp(F, stubs)
            r = strip(tabulate.single(I.explore(lambda: I.call_item(rrp, [Ref(Place(Cell(entry)))]))))
            I2 = Interp(F, stubs)
            got_d = strip(tabulate.single(I2.explore(lambda: I2.call_item(dep, [Ref(Place(Cell(entry)))]))))
            n += 1
            inst = "base=%s/traversal-depth=%d" % (bname, d)
            good = (isinstance(r, Tup) and PM.is_path(r.items[0]) and PM.is_path(r.items[1]) and PM.same(r.items[0], base)
                    and PM.same(r.items[1], PM.P("", below)) and got_d == d)
            R.check(good, "C14.tree", inst, "segments (%s, %s), depth %d" % (PM.show(base), PM.show(PM.P("", below)), d), rrp.where(),
                    fail_msg="entry %s of a walk of %s: root_relative_paths = %s, depth = %r; expected (%s, %s) and %d" % (
                        PM.show(path), PM.show(base), "(%s, %s)" % (PM.show(r.items[0]), PM.show(r.items[1])) if isinstance(r, Tup) else repr(r),
                        got_d, PM.show(base), PM.show(PM.P("", below)), d))
    R.floor("C14.tree", "base x depth cells", n, 28)
    ge = Adt("walk::glob::GlobEntry", "GlobEntry", {"entry": Sym("entry"), "pivot": Sym("pivot"), "matched": Sym("matched")})
    tc = F.find("walk::glob::GlobEntry::to_candidate_path")
    I7 = Interp(F, {"capture::MatchedText::to_candidate_path": lambda I8, a, fn, e: Sym("candidate(%s)" % c13._n(a[0]))})
    res = strip(tabulate.single(I7.explore(lambda: I7.call_item(tc, [Ref(Place(Cell(ge)))]))))
    R.check(isinstance(res, Sym) and res.name == "candidate(matched)", "C14.matched", "GlobEntry::to_candidate_path", "the candidate path is the stored matched text", tc.where(),
            fail_msg="GlobEntry::to_candidate_path returns %r" % (res,))
    mt = F.find("capture::MatchedText::to_candidate_path")
    I9 = Interp(F, {"capture::MatchedText::complete": lambda I8, a, fn, e: Sym("complete(%s)" % c13._n(a[0])),
                    "<CandidatePath as std::convert::From>::from": lambda I8, a, fn, e: Sym("cand(%s)" % c13._n(a[0]))})
    res = strip(tabulate.single(I9.explore(lambda: I9.call_item(mt, [Ref(Place(Cell(Sym("matched"))))]))))
    R.check(isinstance(res, Sym) and res.name == "cand(complete(matched))", "C14.matched", "MatchedText::to_candidate_path", "candidate = complete matched text (capture 0)", mt.where(),
            fail_msg="MatchedText::to_candidate_path returns %r" % (res,))


BASES = {
    # name -> (lead, components); `rel1` stands for `proj`, `proj/` and `proj/.` alike (std::path works on components)
    "empty": ("", ()), "dot": (".", ()), "rel1": ("", ("b1",)), "rel2": ("", ("b1", "b2")),
    "dot-rel1": (".", ("b1",)), "root": ("/", ()), "abs1": ("/", ("b1",)), "abs2": ("/", ("b1", "b2")),
}
PREFIXES = {
    # the invariant prefix of the glob as a native path; `..` is an ordinary (ParentDir) component, a leading `.` is CurDir
    "none": None, "rel1": ("", ("p1",)), "rel2": ("", ("p1", "p2")), "rooted0": ("/", ()), "rooted1": ("/", ("p1",)),
    "rooted2": ("/", ("p1", "p2")), "parent": ("", ("..",)), "parent-rel1": ("", ("..", "p1")), "rel1-parent": ("", ("p1", "..")),
    "dot-rel1": (".", ("p1",)),
}


def pivot_cells(F):
    """Evaluates join_and_get_depth and split_at_depth (THIR) on every base x prefix x traversal depth cell.
    -> list of (instance, cell description, problems: [(aspect, signature, text)], detail, where)"""
    jit = F.find("<std::path::Path as walk::JoinAndGetDepth>::join_and_get_depth")
    sit = F.find("<std::path::Path as walk::SplitAtDepth>::split_at_depth")
    rrp = F.find("<walk::glob::GlobEntry as walk::Entry>::root_relative_paths")
    dep = F.find("<walk::glob::GlobEntry as walk::Entry>::depth")
    stubs = PM.stubs()
    stubs["std::convert::AsRef::as_ref"] = lambda I, a, fn, e: strip(a[0])
    stubs["walkdir::DirEntry::path"] = lambda I, a, fn, e: strip(a[0]).fields["path"]
    stubs["walkdir::DirEntry::depth"] = lambda I, a, fn, e: strip(a[0]).fields["depth"]
    out = []
    for (bname, b), (pname, p) in itertools.product(BASES.items(), PREFIXES.items()):
        base = PM.P(*b)
        if b == ("", ()) and p is None:
            continue  # walking "" without a prefix is not a directory
        if p is None:
            root, pivot = base, 0   # Glob::anchor: no prefix -> (path, 0)
        else:
            I = Interp(F, stubs)
            res = tabulate.single(I.explore(lambda: I.call_item(jit, [Ref(Place(Cell(base))), PM.P(*p)], inst=False)))
            r = strip(res)
            if not (isinstance(r, Tup) and PM.is_path(r.items[0]) and isinstance(strip(r.items[1]), int)):
                out.append(("base=%s/prefix=%s" % (bname, pname), "", [("eval", "unanalysable", "join_and_get_depth panics / is unanalysable: %r" % (res,))], "", jit.where()))
                continue
            root, pivot = strip(r.items[0]), strip(r.items[1])
        rooted = p is not None and p[0] == "/"
        for d in range(0, 3):
            inst = "base=%s/prefix=%s/traversal-depth=%d" % (bname, pname, d)
            below = tuple("e%d" % i for i in range(1, d + 1))
            path = PM.P(PM.lead(root), PM.comps(root) + below)
            # the entry as the walker builds it: GlobEntry{entry: TreeEntry{entry: walkdir entry (path, depth)}, pivot, matched};
            # its own accessors are evaluated, so the rule does not depend on which helpers they use
            entry = glob_entry(F, path, d, pivot)
            I2 = Interp(F, stubs)
            res = tabulate.single(I2.explore(lambda: I2.call_item(rrp, [Ref(Place(Cell(entry)))])))
            r = strip(res)
            if not (isinstance(r, Tup) and PM.is_path(r.items[0]) and PM.is_path(r.items[1])):
                out.append((inst, "", [("eval", "unanalysable", "GlobEntry::root_relative_paths panics / is unanalysable: %r" % (res,))], "", rrp.where()))
                continue
            rootseg, rel = strip(r.items[0]), strip(r.items[1])
            I3 = Interp(F, stubs)
            reported = strip(tabulate.single(I3.explore(lambda: I3.call_item(dep, [Ref(Place(Cell(entry)))]))))
            if not isinstance(reported, int):
                out.append((inst, "", [("eval", "unanalysable", "GlobEntry::depth panics / is unanalysable: %r" % (reported,))], "", dep.where()))
                continue
            want_root = PM.P("", ()) if rooted else base
            # the relative segment is the text the glob is matched on: the prefix as written, then the traversed names
            want_rel = path if rooted else PM.P(p[0] if p else "", (p[1] if p else ()) + below)
            problems = []
            if not PM.same(PM.join(rootseg, rel), path):
                problems.append(("join", "segments do not join to the path", "joining the segments gives %s, not the path" % PM.show(PM.join(rootseg, rel))))
            if not PM.same(rootseg, want_root):
                problems.append(("root", "root segment differs", "the root segment is %s, expected %s" % (
                    PM.show(rootseg), PM.show(want_root) + (" (empty: the glob is rooted)" if rooted else " (the directory given to the walk)"))))
            if not PM.same(rel, want_rel):
                sig = "relative segment lacks the leading `.` of the prefix" if (
                    p and p[0] == "." and PM.same(rel, PM.P("", PM.comps(want_rel)))) else "relative segment differs"
                problems.append(("relative", sig, "the relative segment is %s, expected %s (the prefix as written in the glob, then the traversed "
                                 "names): the complete program is matched on this text" % (PM.show(rel), PM.show(want_rel))))
            if reported != PM.n_components(rel):
                problems.append(("depth", "depth differs from the component count by %+d" % (reported - PM.n_components(rel)),
                                 "depth() = %d (traversal depth %d, pivot %d), but the relative segment %s has %d component(s)" % (
                                     reported, d, pivot, PM.show(rel), PM.n_components(rel))))
            out.append((inst, "entry %s of a walk rooted at %s" % (PM.show(path), PM.show(root)), problems,
                        "segments (%s, %s), depth %d" % (PM.show(rootseg), PM.show(rel), reported), jit.where()))
    return out


def glob_entry(F, path, depth, pivot):
    """The GlobEntry the glob walker itself yields for the file `path` at traversal depth `depth` of a walk with the
    given pivot: the walker's closure is evaluated (THIR) on that entry with a program that has no component programs
    and whose complete program matches, so the value does not depend on which fields GlobEntry stores."""
    from ..teval import Closure
    from ..facts import AnchorMissing
    from . import c20, c13
    from . import walkfam as W
    have = [f["name"] for f in F.adt("walk::TreeEntry")["variants"][0]["fields"]]
    if have != ["entry"]:
        raise AnchorMissing("walk::TreeEntry with the field `entry` (has %s)" % have)
    dirent = Adt("walkdir-model", "DirEntry", {"path": path, "depth": depth})
    cl = c20.walker_closure(F)
    uv = c20.upvars(F, cl)
    stubs = PM.stubs()
    stubs.update({
        "walkdir::DirEntry::path": lambda I, a, fn, e: strip(a[0]).fields["path"],
        "walkdir::DirEntry::depth": lambda I, a, fn, e: strip(a[0]).fields["depth"],
        "<CandidatePath as std::convert::From>::from": lambda I, a, fn, e: strip(a[0]),
        "<CandidatePath as std::convert::AsRef>::as_ref": lambda I, a, fn, e: strip(a[0]),
        "std::path::Component::<'a>::as_os_str": lambda I, a, fn, e: Sym("name"),
        "regex::Regex::is_match": lambda I, a, fn, e: True,
        "regex::Regex::captures": lambda I, a, fn, e: some(Sym("captures")),
        "<capture::MatchedText as std::convert::From>::from": lambda I, a, fn, e: Sym("matched"),
        "capture::MatchedText::into_owned": lambda I, a, fn, e: strip(a[0]),
    })
    I = Interp(F, stubs)

    def run():
        env = {}
        program = Adt("walk::glob::WalkProgram", "WalkProgram", {"complete": Sym("complete"), "components": RList([])})
        walker = Adt("walk::glob::GlobWalker", "GlobWalker", {"anchor": Sym("anchor"), "program": program})
        for name, var in uv.items():
            env[var] = Cell(walker if name == "self" else (pivot if name == "pivot" else Sym(name)))
        sep = W.separation("filtrate", ok(tree_entry(dirent)))
        return I.call_closure(Closure(cl.key, env), [c13.cancellation(), sep])
    cases = I.explore(run)
    if len(cases) == 1:
        state, payload = W.classify(cases[0].result)
        p = strip(payload)
        if state == "filtrate" and isinstance(p, Adt) and p.variant == "Ok":
            g = strip(p.fields["0"])
            if isinstance(g, Adt) and g.path == "walk::glob::GlobEntry":
                return g
    raise AnchorMissing("a GlobEntry yielded by the glob walker's closure for %s at traversal depth %d (got %r)" % (
        PM.show(path), depth, [c.result for c in cases][:1]))


def tree_entry(dirent):
    return Adt("walk::TreeEntry", "TreeEntry", {"entry": dirent})


def report_cells(F, R, rule, aspects, floor):
    """One obligation per cell; deviations are grouped by (prefix shape, deviation) so that a known finding names the
    deviation and any other deviation of the same cell is still new."""
    n = 0
    grouped = {}
    for inst, desc, problems, detail, where in pivot_cells(F):
        n += 1
        mine = [p for p in problems if p[0] in aspects or p[0] == "eval"]
        if not mine:
            R.ok(rule, inst, detail, where, sample=(n % 23 == 0))
            continue
        prefix = inst.split("/")[1]
        for aspect, sig, text in mine:
            grouped.setdefault((prefix, sig), []).append((inst, desc, text, where))
    for (prefix, sig), cells in sorted(grouped.items()):
        inst, desc, text, where = cells[0]
        R.fail(rule, "%s/%s" % (prefix, sig), "%d cell(s), first: %s: %s: %s" % (len(cells), inst, desc, text), where)
    R.floor(rule, "base x prefix x depth cells", n, 230)


def rule_pivot(F, R):
    """C14.pivot (TABLE): the pivot computed by join_and_get_depth, fed through GlobEntry::depth's sum and
    split_at_depth, gives the segments and the depth the property states, for every shape of base directory and prefix
    and every traversal depth."""
    report_cells(F, R, "C14.pivot", ("join", "root", "relative", "depth"), 230)
