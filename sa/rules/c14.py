"""C14 — Walk entries describe their file consistently (plumbing only)."""
import itertools

from ..teval import (Adt, Tup, Ref, Place, Cell, Sym, RList, Top, Panicked, strip, some, none, ok, err, Interp)
from .. import tabulate, models
from . import c13, c20

EXPLANATION = (
    "NARROW: depth / pivot arithmetic, rooted bases and bases with a trailing `.` are NOT decided.  Decided: (join) "
    "split_at_depth returns (a, self.strip_prefix(a)) for an ancestor a of the same path, for every depth including "
    "depths beyond the number of components, so joining the two segments gives the path back - evaluated on abstract "
    "paths of 0..3 components; (same) GlobEntry::root_relative_paths, GlobEntry::depth and the walker's candidate "
    "computation use the same helper with (entry path, walkdir depth, the pivot stored in the entry) and the same sum "
    "depth + pivot; TreeEntry::root_relative_paths splits at its own depth; (matched) to_candidate_path returns the "
    "complete matched text, which is the relative segment the complete program was matched on (C02.gate).")
RULES = "C14.join (PROV), C14.same (SIBLING), C14.matched (= C02.gate)"


def run(ctx):
    F = ctx.facts()
    R = ctx.report
    R.assume("std::path ancestors / strip_prefix semantics; walkdir depth = number of components below the walk root")
    R.undecided("that depth equals the number of components of the relative segment for rooted globs and for bases with a "
                "trailing separator or `.` (pivot computed by counting components of a joined path)")
    rule_join(F, R)
    rule_same(F, R)


def P(comps):
    return Adt("Path", "Path", {"c": tuple(comps)})


def rule_join(F, R):
    it = F.find("<std::path::Path as walk::SplitAtDepth>::split_at_depth")

    def comps(v):
        v = strip(v)
        return v.fields["c"] if isinstance(v, Adt) and v.path == "Path" else None
    stubs = {
        "std::path::Path::ancestors": lambda I, a, fn, e: models.iter_of(I, RList([P(comps(a[0])[:n]) for n in range(len(comps(a[0])), -1, -1)]), by_ref=False),
        "std::path::Path::new": lambda I, a, fn, e: P(()) if strip(a[0]) == "" else I.top("Path::new(%r)" % (strip(a[0]),)),
        "std::path::Path::strip_prefix": lambda I, a, fn, e: (ok(P(comps(a[0])[len(comps(a[1])):])) if comps(a[0])[:len(comps(a[1]))] == comps(a[1]) else err(Sym("StripPrefixError"))),
    }
    for n in range(0, 4):
        path = tuple("c%d" % i for i in range(n))
        for depth in range(0, n + 3):
            I = Interp(F, stubs)
            cases = I.explore(lambda: I.call_item(it, [Ref(Place(Cell(P(path)))), depth]))
            res = tabulate.single(cases)
            inst = "components=%d/depth=%d" % (n, depth)
            if isinstance(res, (Top, Panicked)) or not isinstance(strip(res), Tup):
                R.fail("C14.join", inst, "split_at_depth panics / is unanalysable: %r" % (res,), it.where())
                continue
            a, d = comps(strip(res).items[0]), comps(strip(res).items[1])
            k = min(depth, n)
            good = a is not None and d is not None and a + d == path and len(d) == k
            R.check(good, "C14.join", inst, "root + relative = path, relative has %d component(s)" % k, it.where(),
                    fail_msg="split_at_depth(%d) of a path with components %s gives (%s, %s): joining the segments must give the path "
                             "and the relative segment must have min(depth, len) components" % (depth, list(path), a, d))


def rule_same(F, R):
    seen = []
    stubs = {"walk::glob::root_relative_paths": lambda I, a, fn, e: (seen.append(tuple(c13._n(x) for x in a)), Tup([Sym("root"), Sym("relative")]))[1],
             "<walk::TreeEntry as walk::Entry>::path": lambda I, a, fn, e: Sym("path(%s)" % c13._n(a[0])),
             "<walk::TreeEntry as walk::Entry>::depth": lambda I, a, fn, e: Sym("depth(%s)" % c13._n(a[0])),
             "<walk::glob::GlobEntry as walk::Entry>::path": lambda I, a, fn, e: Sym("path(entry)"),
             "walkdir::DirEntry::depth": lambda I, a, fn, e: Sym("wdepth(%s)" % c13._n(a[0])),
             "walkdir::DirEntry::path": lambda I, a, fn, e: Sym("wpath(%s)" % c13._n(a[0]))}
    ge = Adt("walk::glob::GlobEntry", "GlobEntry", {"entry": Sym("entry"), "pivot": Sym("pivot"), "matched": Sym("matched")})
    it = F.find("<walk::glob::GlobEntry as walk::Entry>::root_relative_paths")
    I = Interp(F, stubs)
    I.explore(lambda: I.call_item(it, [Ref(Place(Cell(ge)))]))
    R.check(seen == [("path(entry)", "depth(entry)", "pivot")], "C14.same", "GlobEntry::root_relative_paths",
            "helper called with (own path, walkdir depth of the entry, stored pivot)", it.where(),
            fail_msg="GlobEntry::root_relative_paths calls the helper with %s" % seen)
    # the helper splits at depth + pivot; GlobEntry::depth is the same sum
    helper = F.find("walk::glob::root_relative_paths")
    calls = []
    I2 = Interp(F, {"<std::path::Path as walk::SplitAtDepth>::split_at_depth": lambda I3, a, fn, e: (calls.append((c13._n(a[0]), strip(a[1]))), Tup([Sym("r"), Sym("s")]))[1]})
    for d, p in itertools.product((0, 1, 3), (0, 2)):
        del calls[:]
        I2.explore(lambda: I2.call_item(helper, [Sym("path"), d, p]))
        R.check(calls == [("path", d + p)], "C14.same", "root_relative_paths(depth=%d,pivot=%d)" % (d, p), "splits the path at depth + pivot", helper.where(),
                fail_msg="root_relative_paths(path, %d, %d) splits at %s" % (d, p, calls))
    dep = F.find("<walk::glob::GlobEntry as walk::Entry>::depth")
    for d, p in itertools.product((0, 1, 3), (0, 2)):
        I3 = Interp(F, {"<walk::TreeEntry as walk::Entry>::depth": lambda I4, a, fn, e: d})
        g = Adt("walk::glob::GlobEntry", "GlobEntry", {"entry": Sym("entry"), "pivot": p, "matched": Sym("matched")})
        res = strip(tabulate.single(I3.explore(lambda: I3.call_item(dep, [Ref(Place(Cell(g)))]))))
        R.check(res == d + p, "C14.same", "GlobEntry::depth(depth=%d,pivot=%d)" % (d, p), "walkdir depth + pivot = %d (the split depth)" % (d + p), dep.where(),
                fail_msg="GlobEntry::depth with walkdir depth %d and pivot %d is %r, but the relative segment is split at %d" % (d, p, res, d + p))
    te = F.find("<walk::TreeEntry as walk::Entry>::root_relative_paths")
    calls2 = []
    I5 = Interp(F, dict(stubs, **{"<std::path::Path as walk::SplitAtDepth>::split_at_depth": lambda I6, a, fn, e: (calls2.append((c13._n(a[0]), c13._n(a[1]))), Tup([Sym("r"), Sym("s")]))[1]}))
    t = Adt("walk::TreeEntry", "TreeEntry", {"entry": Sym("dirent")})
    I5.explore(lambda: I5.call_item(te, [Ref(Place(Cell(t)))]))
    good = len(calls2) == 1 and calls2[0][0].startswith("path(") and calls2[0][1].startswith("depth(")
    R.check(good, "C14.same", "TreeEntry::root_relative_paths", "splits its own path at its own depth", te.where(),
            fail_msg="TreeEntry::root_relative_paths splits %s" % calls2)
    tc = F.find("walk::glob::GlobEntry::to_candidate_path")
    I7 = Interp(F, {"capture::MatchedText::to_candidate_path": lambda I8, a, fn, e: Sym("candidate(%s)" % c13._n(a[0]))})
    res = strip(tabulate.single(I7.explore(lambda: I7.call_item(tc, [Ref(Place(Cell(ge)))]))))
    R.check(isinstance(res, Sym) and res.name == "candidate(matched)", "C14.matched", "GlobEntry::to_candidate_path", "the candidate path is the stored matched text", tc.where(),
            fail_msg="GlobEntry::to_candidate_path returns %r" % (res,))
    mt = F.find("capture::MatchedText::to_candidate_path")
    I9 = Interp(F, {"capture::MatchedText::complete": lambda I8, a, fn, e: Sym("complete(%s)" % c13._n(a[0])),
                    "<CandidatePath as std::convert::From>::from": lambda I8, a, fn, e: Sym("cand(%s)" % c13._n(a[0]))})
    res = strip(tabulate.single(I9.explore(lambda: I9.call_item(mt, [Ref(Place(Cell(Sym("matched"))))]))))
    R.check(isinstance(res, Sym) and res.name == "cand(complete(matched))", "C14.matched", "MatchedText::to_candidate_path", "candidate = complete matched text (capture 0)", mt.where(),
            fail_msg="MatchedText::to_candidate_path returns %r" % (res,))
