"""C14 — Walk entries describe their file consistently (plumbing only)."""
import itertools

from ..teval import (Adt, Tup, Ref, Place, Cell, Sym, RList, Top, Panicked, strip, some, none, ok, err, Interp)
from .. import tabulate, models
from . import c13, c20
from . import pathmodel as PM

EXPLANATION = (
    "Decided on abstract paths (component sequences with an optional RootDir / CurDir lead, `..` as an ordinary component) by "
    "evaluating the THIR of the functions involved: (join) split_at_depth returns (a, self.strip_prefix(a)) for an ancestor a "
    "of the same path, for every depth including depths beyond the number of components, so joining the two segments gives "
    "the path back; (pivot) for every base directory shape (empty, `.`, `proj` = `proj/` = `proj/.`, `a/b`, `./proj`, `/`, "
    "`/abs`, `/abs/dir`) x prefix shape (none, one or two literal components, rooted with 0..2 components, `..`, `../p`, "
    "`p/..`, `./p`) x traversal depth 0..2, the pivot computed by join_and_get_depth makes the root segment the directory "
    "given to the walk (empty for a rooted glob), the relative segment the prefix as written plus the traversed names (the "
    "whole path for a rooted glob), and depth() = traversal depth + pivot equal to the number of components of the relative "
    "segment; (same) GlobEntry::root_relative_paths, GlobEntry::depth and the walker's candidate computation use the same "
    "helper with (entry path, walkdir depth, the pivot stored in the entry) and the same sum; TreeEntry::root_relative_paths "
    "splits at its own depth; (matched) to_candidate_path returns the complete matched text, which is the relative segment "
    "the complete program was matched on (C02.gate).")
RULES = "C14.join (PROV), C14.pivot (TABLE), C14.same (SIBLING), C14.matched (= C02.gate)"


def run(ctx):
    F = ctx.facts()
    R = ctx.report
    R.assume("std::path ancestors / strip_prefix semantics; walkdir depth = number of components below the walk root")
    R.assume("std::path semantics as modelled in sa/rules/pathmodel.py; textual variants of one component sequence (trailing separator, trailing `.`) behave alike")
    R.undecided("Windows path prefixes; bases that contain `..`")
    rule_join(F, R)
    rule_same(F, R)
    rule_pivot(F, R)


def P(comps):
    return Adt("Path", "Path", {"c": tuple(comps)})


def rule_join(F, R):
    it = F.find("<std::path::Path as walk::SplitAtDepth>::split_at_depth")

    def comps(v):
        v = strip(v)
        return v.fields["c"] if isinstance(v, Adt) and v.path == "Path" else None
    stubs = {
        "std::path::Path::ancestors": lambda I, a, fn, e: models.iter_of(I, RList([P(comps(a[0])[:n]) for n in range(len(comps(a[0])), -1, -1)]), by_ref=False),
        "std::path::Path::new": lambda I, a, fn, e: P(()) if strip(a[0]) == "" else I.top("Path::new(%r)" % (strip(a[0]),)),
        "std::path::Path::strip_prefix": lambda I, a, fn, e: (ok(P(comps(a[0])[len(comps(a[1])):])) if comps(a[0])[:len(comps(a[1]))] == comps(a[1]) else err(Sym("StripPrefixError"))),
    }
    for n in range(0, 4):
        path = tuple("c%d" % i for i in range(n))
        for depth in range(0, n + 3):
            I = Interp(F, stubs)
            cases = I.explore(lambda: I.call_item(it, [Ref(Place(Cell(P(path)))), depth]))
            res = tabulate.single(cases)
            inst = "components=%d/depth=%d" % (n, depth)
            if isinstance(res, (Top, Panicked)) or not isinstance(strip(res), Tup):
                R.fail("C14.join", inst, "split_at_depth panics / is unanalysable: %r" % (res,), it.where())
                continue
            a, d = comps(strip(res).items[0]), comps(strip(res).items[1])
            k = min(depth, n)
            good = a is not None and d is not None and a + d == path and len(d) == k
            R.check(good, "C14.join", inst, "root + relative = path, relative has %d component(s)" % k, it.where(),
                    fail_msg="split_at_depth(%d) of a path with components %s gives (%s, %s): joining the segments must give the path "
                             "and the relative segment must have min(depth, len) components" % (depth, list(path), a, d))


def rule_same(F, R):
    seen = []
    stubs = {"walk::glob::root_relative_paths": lambda I, a, fn, e: (seen.append(tuple(c13._n(x) for x in a)), Tup([Sym("root"), Sym("relative")]))[1],
             "<walk::TreeEntry as walk::Entry>::path": lambda I, a, fn, e: Sym("path(%s)" % c13._n(a[0])),
             "<walk::TreeEntry as walk::Entry>::depth": lambda I, a, fn, e: Sym("depth(%s)" % c13._n(a[0])),
             "<walk::glob::GlobEntry as walk::Entry>::path": lambda I, a, fn, e: Sym("path(entry)"),
             "walkdir::DirEntry::depth": lambda I, a, fn, e: Sym("wdepth(%s)" % c13._n(a[0])),
             "walkdir::DirEntry::path": lambda I, a, fn, e: Sym("wpath(%s)" % c13._n(a[0]))}
    ge = Adt("walk::glob::GlobEntry", "GlobEntry", {"entry": Sym("entry"), "pivot": Sym("pivot"), "matched": Sym("matched")})
    it = F.find("<walk::glob::GlobEntry as walk::Entry>::root_relative_paths")
    I = Interp(F, stubs)
    I.explore(lambda: I.call_item(it, [Ref(Place(Cell(ge)))]))
    R.check(seen == [("path(entry)", "depth(entry)", "pivot")], "C14.same", "GlobEntry::root_relative_paths",
            "helper called with (own path, walkdir depth of the entry, stored pivot)", it.where(),
            fail_msg="GlobEntry::root_relative_paths calls the helper with %s" % seen)
    # the helper splits at depth + pivot; GlobEntry::depth is the same sum
    helper = F.find("walk::glob::root_relative_paths")
    calls = []
    I2 = Interp(F, {"<std::path::Path as walk::SplitAtDepth>::split_at_depth": lambda I3, a, fn, e: (calls.append((c13._n(a[0]), strip(a[1]))), Tup([Sym("r"), Sym("s")]))[1]})
    for d, p in itertools.product((0, 1, 3), (0, 2)):
        del calls[:]
        I2.explore(lambda: I2.call_item(helper, [Sym("path"), d, p]))
        R.check(calls == [("path", d + p)], "C14.same", "root_relative_paths(depth=%d,pivot=%d)" % (d, p), "splits the path at depth + pivot", helper.where(),
                fail_msg="root_relative_paths(path, %d, %d) splits at %s" % (d, p, calls))
    dep = F.find("<walk::glob::GlobEntry as walk::Entry>::depth")
    for d, p in itertools.product((0, 1, 3), (0, 2)):
        I3 = Interp(F, {"<walk::TreeEntry as walk::Entry>::depth": lambda I4, a, fn, e: d})
        g = Adt("walk::glob::GlobEntry", "GlobEntry", {"entry": Sym("entry"), "pivot": p, "matched": Sym("matched")})
        res = strip(tabulate.single(I3.explore(lambda: I3.call_item(dep, [Ref(Place(Cell(g)))]))))
        R.check(res == d + p, "C14.same", "GlobEntry::depth(depth=%d,pivot=%d)" % (d, p), "walkdir depth + pivot = %d (the split depth)" % (d + p), dep.where(),
                fail_msg="GlobEntry::depth with walkdir depth %d and pivot %d is %r, but the relative segment is split at %d" % (d, p, res, d + p))
    te = F.find("<walk::TreeEntry as walk::Entry>::root_relative_paths")
    calls2 = []
    I5 = Interp(F, dict(stubs, **{"<std::path::Path as walk::SplitAtDepth>::split_at_depth": lambda I6, a, fn, e: (calls2.append((c13._n(a[0]), c13._n(a[1]))), Tup([Sym("r"), Sym("s")]))[1]}))
    t = Adt("walk::TreeEntry", "TreeEntry", {"entry": Sym("dirent")})
    I5.explore(lambda: I5.call_item(te, [Ref(Place(Cell(t)))]))
    good = len(calls2) == 1 and calls2[0][0].startswith("path(") and calls2[0][1].startswith("depth(")
    R.check(good, "C14.same", "TreeEntry::root_relative_paths", "splits its own path at its own depth", te.where(),
            fail_msg="TreeEntry::root_relative_paths splits %s" % calls2)
    tc = F.find("walk::glob::GlobEntry::to_candidate_path")
    I7 = Interp(F, {"capture::MatchedText::to_candidate_path": lambda I8, a, fn, e: Sym("candidate(%s)" % c13._n(a[0]))})
    res = strip(tabulate.single(I7.explore(lambda: I7.call_item(tc, [Ref(Place(Cell(ge)))]))))
    R.check(isinstance(res, Sym) and res.name == "candidate(matched)", "C14.matched", "GlobEntry::to_candidate_path", "the candidate path is the stored matched text", tc.where(),
            fail_msg="GlobEntry::to_candidate_path returns %r" % (res,))
    mt = F.find("capture::MatchedText::to_candidate_path")
    I9 = Interp(F, {"capture::MatchedText::complete": lambda I8, a, fn, e: Sym("complete(%s)" % c13._n(a[0])),
                    "<CandidatePath as std::convert::From>::from": lambda I8, a, fn, e: Sym("cand(%s)" % c13._n(a[0]))})
    res = strip(tabulate.single(I9.explore(lambda: I9.call_item(mt, [Ref(Place(Cell(Sym("matched"))))]))))
    R.check(isinstance(res, Sym) and res.name == "cand(complete(matched))", "C14.matched", "MatchedText::to_candidate_path", "candidate = complete matched text (capture 0)", mt.where(),
            fail_msg="MatchedText::to_candidate_path returns %r" % (res,))


BASES = {
    # name -> (lead, components); `rel1` stands for `proj`, `proj/` and `proj/.` alike (std::path works on components)
    "empty": ("", ()), "dot": (".", ()), "rel1": ("", ("b1",)), "rel2": ("", ("b1", "b2")),
    "dot-rel1": (".", ("b1",)), "root": ("/", ()), "abs1": ("/", ("b1",)), "abs2": ("/", ("b1", "b2")),
}
PREFIXES = {
    # the invariant prefix of the glob as a native path; `..` is an ordinary (ParentDir) component, a leading `.` is CurDir
    "none": None, "rel1": ("", ("p1",)), "rel2": ("", ("p1", "p2")), "rooted0": ("/", ()), "rooted1": ("/", ("p1",)),
    "rooted2": ("/", ("p1", "p2")), "parent": ("", ("..",)), "parent-rel1": ("", ("..", "p1")), "rel1-parent": ("", ("p1", "..")),
    "dot-rel1": (".", ("p1",)),
}


def pivot_cells(F):
    """Evaluates join_and_get_depth and split_at_depth (THIR) on every base x prefix x traversal depth cell.
    -> list of (instance, cell description, problems: [(aspect, signature, text)], detail, where)"""
    jit = F.find("<std::path::Path as walk::JoinAndGetDepth>::join_and_get_depth")
    sit = F.find("<std::path::Path as walk::SplitAtDepth>::split_at_depth")
    stubs = PM.stubs()
    stubs["std::convert::AsRef::as_ref"] = lambda I, a, fn, e: strip(a[0])
    out = []
    for (bname, b), (pname, p) in itertools.product(BASES.items(), PREFIXES.items()):
        base = PM.P(*b)
        if b == ("", ()) and p is None:
            continue  # walking "" without a prefix is not a directory
        if p is None:
            root, pivot = base, 0   # Glob::anchor: no prefix -> (path, 0)
        else:
            I = Interp(F, stubs)
            res = tabulate.single(I.explore(lambda: I.call_item(jit, [Ref(Place(Cell(base))), PM.P(*p)], inst=False)))
            r = strip(res)
            if not (isinstance(r, Tup) and PM.is_path(r.items[0]) and isinstance(strip(r.items[1]), int)):
                out.append(("base=%s/prefix=%s" % (bname, pname), "", [("eval", "unanalysable", "join_and_get_depth panics / is unanalysable: %r" % (res,))], "", jit.where()))
                continue
            root, pivot = strip(r.items[0]), strip(r.items[1])
        rooted = p is not None and p[0] == "/"
        for d in range(0, 3):
            inst = "base=%s/prefix=%s/traversal-depth=%d" % (bname, pname, d)
            below = tuple("e%d" % i for i in range(1, d + 1))
            path = PM.P(PM.lead(root), PM.comps(root) + below)
            I2 = Interp(F, stubs)
            res = tabulate.single(I2.explore(lambda: I2.call_item(sit, [Ref(Place(Cell(path))), d + pivot])))
            r = strip(res)
            if not (isinstance(r, Tup) and PM.is_path(r.items[0]) and PM.is_path(r.items[1])):
                out.append((inst, "", [("eval", "unanalysable", "split_at_depth panics / is unanalysable: %r" % (res,))], "", sit.where()))
                continue
            rootseg, rel = strip(r.items[0]), strip(r.items[1])
            want_root = PM.P("", ()) if rooted else base
            # the relative segment is the text the glob is matched on: the prefix as written, then the traversed names
            want_rel = path if rooted else PM.P(p[0] if p else "", (p[1] if p else ()) + below)
            problems = []
            if not PM.same(PM.join(rootseg, rel), path):
                problems.append(("join", "segments do not join to the path", "joining the segments gives %s, not the path" % PM.show(PM.join(rootseg, rel))))
            if not PM.same(rootseg, want_root):
                problems.append(("root", "root segment differs", "the root segment is %s, expected %s" % (
                    PM.show(rootseg), PM.show(want_root) + (" (empty: the glob is rooted)" if rooted else " (the directory given to the walk)"))))
            if not PM.same(rel, want_rel):
                sig = "relative segment lacks the leading `.` of the prefix" if (
                    p and p[0] == "." and PM.same(rel, PM.P("", PM.comps(want_rel)))) else "relative segment differs"
                problems.append(("relative", sig, "the relative segment is %s, expected %s (the prefix as written in the glob, then the traversed "
                                 "names): the complete program is matched on this text" % (PM.show(rel), PM.show(want_rel))))
            if d + pivot != PM.n_components(rel):
                problems.append(("depth", "depth differs from the component count by %+d" % (d + pivot - PM.n_components(rel)),
                                 "depth() = traversal depth %d + pivot %d = %d, but the relative segment %s has %d component(s)" % (
                                     d, pivot, d + pivot, PM.show(rel), PM.n_components(rel))))
            out.append((inst, "entry %s of a walk rooted at %s" % (PM.show(path), PM.show(root)), problems,
                        "segments (%s, %s), depth %d" % (PM.show(rootseg), PM.show(rel), d + pivot), jit.where()))
    return out


def report_cells(F, R, rule, aspects, floor):
    """One obligation per cell; deviations are grouped by (prefix shape, deviation) so that a known finding names the
    deviation and any other deviation of the same cell is still new."""
    n = 0
    grouped = {}
    for inst, desc, problems, detail, where in pivot_cells(F):
        n += 1
        mine = [p for p in problems if p[0] in aspects or p[0] == "eval"]
        if not mine:
            R.ok(rule, inst, detail, where, sample=(n % 23 == 0))
            continue
        prefix = inst.split("/")[1]
        for aspect, sig, text in mine:
            grouped.setdefault((prefix, sig), []).append((inst, desc, text, where))
    for (prefix, sig), cells in sorted(grouped.items()):
        inst, desc, text, where = cells[0]
        R.fail(rule, "%s/%s" % (prefix, sig), "%d cell(s), first: %s: %s: %s" % (len(cells), inst, desc, text), where)
    R.floor(rule, "base x prefix x depth cells", n, 230)


def rule_pivot(F, R):
    """C14.pivot (TABLE): the pivot computed by join_and_get_depth, fed through GlobEntry::depth's sum and
    split_at_depth, gives the segments and the depth the property states, for every shape of base directory and prefix
    and every traversal depth."""
    report_cells(F, R, "C14.pivot", ("join", "root", "relative", "depth"), 230)
