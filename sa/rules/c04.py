"""C04 — Captures are consistent with the match and with the expression."""
from ..teval import Adt, Tup, Ref, Place, Cell, Sym, RList, Top, Panicked, strip, some, none, Interp
from .. import tabulate, models
from . import encoder

EXPLANATION = (
    "(count) On the expression catalogue (~22 000 expressions, ~8 000 buildable) the program encode::compile emits has exactly as "
    "many capturing groups as the top-level sequence has tokens for which Token::is_capturing answers true (both evaluated from "
    "THIR), so no encoding of any catalogue shape adds or drops a group.  For all expressions, by cases: "
    "Static decision of the positional correspondence between regex groups and capturing tokens, on the encoder's "
    "emission table (every grouping x context x position x token shape): (agree) the kinds for which the encoder opens a "
    "capturing group are exactly the kinds is_capturing reports, (one) exactly one capturing group per capturing token and "
    "none for literals / separators, (nested) the top level passes Capture and every recursive call NonCapture, (content) "
    "captures of `?`, `*`, `$` and classes are separator-free and a tree wildcard's capture is a run of complete "
    "components, (whole) the program is anchored so capture 0 is the whole path, and the owned and borrowed matched-text "
    "views index captures identically.  Order / non-overlap of captures follow from regex semantics and are not decided.")
RULES = "C04.count (TABLE on a catalogue: groups in the program vs. capturing tokens), C04.agree, C04.one, C04.nested, C04.content (EMIT+TABLE), C04.whole (SIBLING), C04.captures (EFFECT)"


def run(ctx):
    F = ctx.facts()
    R = ctx.report
    R.assume("regex crate semantics: group numbering by opening parenthesis, leftmost-first matching")
    R.undecided("order / non-overlap of captures and the text between captures (consequences of regex semantics + C01.homo)")
    encoder.rule_groups(F, R)
    encoder.rule_whole_anchor_only(F, R)
    rule_captures(F, R)
    rule_owned(F, R)
    from . import exhaust
    exhaust.report_query(F, R, "C04.count", ctx.tier, "captures", 15000, 6000)


def rule_captures(F, R):
    """Glob::captures lists exactly the top-level tokens with is_capturing, with 1-based indices in order."""
    it = F.find("Glob::captures")
    flags = [False, True, True, False, True]
    toks = [Adt("T", "T", {"cap": f, "name": "t%d" % i}) for i, f in enumerate(flags)]
    stubs = {
        "token::Token::concatenation": lambda I, a, fn, e: RList(toks),
        "token::Token::is_capturing": lambda I, a, fn, e: strip(strip(a[0]).fields["cap"]),
        "token::Token::annotation": lambda I, a, fn, e: Ref(Place(Cell(Sym("span(%s)" % strip(strip(a[0]).fields["name"]))))),
        "query::CapturingToken::new": lambda I, a, fn, e: Tup([strip(a[0]), strip(a[1])]),
    }
    I = Interp(F, stubs)
    me = Adt("Glob", "Glob", {"tree": Sym("tree"), "program": Sym("program")})

    def run():
        res = I.call_item(it, [Ref(Place(Cell(me)))])
        return RList(models.drain(I, models._as_iter(I, res)))
    res = tabulate.single(I.explore(run))
    got = None
    if isinstance(res, RList):
        got = []
        for x in res.items:
            x = strip(x)
            if isinstance(x, Tup):
                ix, sp = strip(x.items[0]), strip(x.items[1])
                got.append((ix, sp.name if isinstance(sp, Sym) else repr(sp)))
    want = [(1, "span(t1)"), (2, "span(t2)"), (3, "span(t4)")]
    R.check(got == want, "C04.captures", "Glob::captures", "capturing tokens get indices 1..n in expression order with their own spans", it.where(),
            fail_msg="for top-level tokens with is_capturing = %s Glob::captures yields %r, expected %r" % (flags, got, want))


def rule_owned(F, R):
    """OwnedText::get and the borrowed Captures::get agree: index 0 = whole match, index k = group k."""
    get = F.find("capture::OwnedText::get")
    conv = F.find("<capture::OwnedText as std::convert::From>::from", trait_ref="From<&")
    # From<BorrowedText>: matched = complete text, ranges = groups 1.. (skip(1)) as (start, end)
    groups = [("m0", 0, 9), ("m1", 0, 2), None, ("m3", 4, 9)]

    def cap_iter(I):
        items = []
        for g in groups:
            items.append(none() if g is None else some(Adt("M", "M", {"name": g[0], "start": g[1], "end": g[2]})))
        return models.iter_of(I, RList(items), by_ref=False)
    stubs = {
        "regex::Captures::<'h>::get": lambda I, a, fn, e: (some(Adt("M", "M", {"name": "m0", "start": 0, "end": 9})) if strip(a[1]) == 0 else none()),
        "regex::Captures::<'h>::iter": lambda I, a, fn, e: cap_iter(I),
        "regex::Match::<'h>::as_str": lambda I, a, fn, e: "abcdefghi"[strip(strip(a[0]).fields["start"]):strip(strip(a[0]).fields["end"])],
        "regex::Match::<'h>::start": lambda I, a, fn, e: strip(strip(a[0]).fields["start"]),
        "regex::Match::<'h>::end": lambda I, a, fn, e: strip(strip(a[0]).fields["end"]),
    }
    I = Interp(F, stubs)
    borrowed = Adt("capture::BorrowedText", "BorrowedText", {"captures": Sym("captures")})
    cases = I.explore(lambda: I.call_item(conv, [Ref(Place(Cell(borrowed)))]))
    owned = tabulate.single(cases)
    if not isinstance(strip(owned), Adt):
        R.fail("C04.whole", "OwnedText::from", "unanalysable conversion: %r" % (cases,), conv.where())
        return
    owned = strip(owned)
    for index, want in ((0, "abcdefghi"), (1, "ab"), (2, None), (3, "efghi"), (4, None)):
        def idx_model(I2, a, fn, e):
            s = strip(a[0])
            r = strip(a[1])
            lo, hi = strip(r.fields["start"]), strip(r.fields["end"])
            text = s if isinstance(s, str) else s.text()
            return text[lo:hi]
        I2 = Interp(F, dict(stubs, **{"std::ops::Index::index": idx_model}))
        res = strip(tabulate.single(I2.explore(lambda: I2.call_item(get, [Ref(Place(Cell(owned))), index]))))
        if want is None:
            good = isinstance(res, Adt) and res.variant == "None"
        else:
            v = strip(res.fields.get("0")) if isinstance(res, Adt) and res.variant == "Some" else None
            if hasattr(v, "text"):
                v = v.text()
            good = v == want
        R.check(good, "C04.whole", "OwnedText::get(%d)" % index, "same text as regex group %d (%r)" % (index, want), get.where(),
                fail_msg="owned matched text returns %r for capture %d, the borrowed view (regex group %d) gives %r: the offsets "
                         "of From<BorrowedText> (skip the whole match) and get (index - 1) must agree" % (res, index, index, want))
