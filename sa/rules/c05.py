"""C05 — Building and querying a glob is total."""
import collections
import itertools
import re

from ..teval import (Adt, Tup, Ref, Place, Cell, Sym, RList, Char, Top, Panicked, strip, some, none, ok, err, Interp, Closure)
from ..facts import AnchorMissing
from .. import mirq, tabulate
from ..refs import c05_sites
from . import tokens as T

EXPLANATION = (
    "Static inventory of every panic-capable construct in wax's own code (calls reaching core::panicking, "
    "unwrap / expect, indexing and slicing, range-taking collection methods, unchecked constructors, overloaded "
    "arithmetic, and the overflow / bounds / division asserts rustc inserts), taken from the MIR of all bodies in every "
    "feature configuration, and compared with an audited table that gives each site one reason: discharged (why it cannot "
    "fire; local arguments marked `guard:` are machine-checked by evaluating the function on a grid of shapes and small "
    "magnitudes), finding (the input that fires it; listed in KNOWN_FINDINGS.txt) or out of scope (walk-time code).  A site "
    "that is not in the table - a new way to panic - is a violation, reported with a call path from a public entry point.  "
    "Also decided: the error mapping in encode::compile (which regex errors become CompileError), that no nom streaming "
    "combinator is used, and the recursion SCCs of the exact monomorphic call graph.  That a non-locally discharged site is "
    "really unreachable is audited, not proven; panics inside dependencies are assumed away.")
RULES = "C05.inventory (INVENTORY), C05.guards (GUARD), C05.compile (TABLE), C05.recursion (INVENTORY), C05.syntax (EMIT)"

ENTRY_POINTS = ["Glob::new", "any", "Glob::partition", "Glob::partition_or_empty", "Glob::partition_or_tree", "Glob::captures",
                "Glob::has_semantic_literals", "Glob::is_empty", "Glob::into_owned", "escape", "is_meta_character",
                "<Glob as std::str::FromStr>::from_str", "<Glob as std::convert::TryFrom>::try_from",
                "<Glob as Program>::is_match", "<Glob as Program>::matched", "<Glob as Program>::depth", "<Glob as Program>::text",
                "<Glob as Program>::has_root", "<Glob as Program>::is_exhaustive", "<Any as Program>::is_match",
                "<Any as Program>::depth", "<Any as Program>::text", "<Any as Program>::is_exhaustive", "<Any as Program>::has_root"]


def run(ctx):
    R = ctx.report
    R.assume("dependencies (regex, nom, pori, itertools, walkdir, std) do not panic on the values wax passes them, other than as listed")
    R.undecided("that a site discharged by a non-local argument is unreachable for every input (audited); stack exhaustion "
                "is reported as recursion findings, not bounded")
    for cfg in ctx.configs():
        F = ctx.facts(cfg)
        rule_inventory(F, R, cfg)
    F = ctx.facts()
    rule_guards(F, R)
    rule_compile(F, R)
    rule_streaming(F, R)
    rule_recursion(F, R)
    rule_class_syntax(F, R)


def rel_file(item):
    f = item.file
    return f[f.index("src/"):] if "src/" in f else f


def table_keys():
    """(file, kind, contains) -> [total count, status, reasons]"""
    keys = {}
    for (f, fn, kind, contains, count, status, reason) in c05_sites.SITES:
        k = (f, kind, contains)
        if k in keys:
            keys[k][0] += count
            if keys[k][1] != status:
                # mixed statuses under one key: the worst decides (F > O > D) so that nothing is hidden
                order = {"D": 0, "O": 1, "F": 2}
                keys[k][1] = max(keys[k][1], status, key=lambda x: order[x])
            keys[k][2].append(reason)
        else:
            keys[k] = [count, status, [reason]]
    return keys


def match_key(site, keys):
    hay = "%s|%s" % (site["what"], site["msg"])
    f = rel_file(site["fn"])
    best = None
    for (kf, kind, contains) in keys:
        if kf == f and kind == site["kind"] and contains in hay:
            if best is None or len(contains) > len(best[2]):
                best = (kf, kind, contains)
    return best


def rule_inventory(F, R, cfg):
    sites = mirq.panic_sites(F)
    R.count("bodies_scanned[%s]" % cfg, len(F.items))
    R.count("panic_capable_sites[%s]" % cfg, len(sites))
    keys = table_keys()
    used = collections.Counter()
    roots = [F.find(q, optional=True) for q in ENTRY_POINTS]
    roots = [r for r in roots if r is not None]
    if cfg == "default":
        R.floor("C05.inventory", "public entry points found", len(roots), 10)
    reach, parent = mirq.reachable_from(F, roots)
    statuses = collections.Counter()
    pending_asserts = []
    by_file = collections.defaultdict(set)
    for k_, (_c, st_, _r) in keys.items():
        by_file[k_[0]].add(st_)
    out_of_scope_files = {f for f, sts in by_file.items() if sts == {"O"}}
    for s in sites:
        k = match_key(s, keys)
        where = "%s:%s" % (rel_file(s["fn"]), s["line"])
        key = mirq.site_key(s)
        if rel_file(s["fn"]) in out_of_scope_files and (k is None or used[k] >= keys[k][0]):
            # walk-time code is outside this property (building and querying a glob): a further site there is recorded only
            R.note("panic-capable construct in out-of-scope walk code, not in the table: %s in %s (%s)" % (s["what"], s["fn"].qname, where))
            R.count("out_of_scope_unlisted[%s]" % cfg)
            continue
        if k is None and s["kind"] == "assert":
            # compiler-inserted overflow / bounds assert that is not in the table: deferred (see below)
            pending_asserts.append(s)
            continue
        if k is None:
            path = [F.items[x].qname for x in mirq.path_to(parent, roots, s["fn"].key)] if s["fn"].key in reach else ["(not reached from the listed entry points)"]
            R.fail("C05.inventory", "unlisted:%s|%s|%s|%s" % (rel_file(s["fn"]), s["kind"], re_norm(s["what"]), s["msg"]),
                   "a panic-capable construct that is not in the audited table: %s in %s (%s); call path: %s" % (
                       s["what"] + (" `%s`" % s["msg"] if s["msg"] else ""), s["fn"].qname, s["kind"], " -> ".join(path[-6:])), where)
            continue
        used[k] += 1
        count, status, reasons = keys[k]
        if used[k] > count and s["kind"] == "assert":
            pending_asserts.append(s)
            continue
        if used[k] > count:
            R.fail("C05.inventory", "extra:%s|%s|%s" % k, "%s has %d sites of kind %s matching `%s`, the audited table allows %d: a new way "
                   "to panic has appeared (%s in %s)" % (k[0], used[k], k[1], k[2], count, s["what"], s["fn"].qname), where)
            continue
        statuses[status] += 1
        if status == "F":
            R.fail("C05.inventory", "finding:%s|%s|%s" % k, "reachable panic: %s (%s)" % (reasons[0], key), where)
        else:
            R.ok("C05.inventory", key, ("discharged: " if status == "D" else "out of scope: ") + reasons[0], where, sample=(len(R.samples) < 6))
    # A new overflow / bounds assert is reported only where it can be the trace of checked arithmetic that was
    # replaced by raw arithmetic: an audited expect / unwrap of the same file has fewer sites than audited.  Counters
    # and guarded indexing added by behaviour-preserving edits are recorded in the evidence, not raised.
    vanished = collections.Counter()
    for k, (count, status, reasons) in keys.items():
        if k[1] in ("expect", "unwrap") and used[k] < count:
            if cfg == "default" or any(s_["fn"] for s_ in sites if rel_file(s_["fn"]) == k[0]):
                vanished[k[0]] += count - used[k]
    for s in pending_asserts:
        f = rel_file(s["fn"])
        where = "%s:%s" % (f, s["line"])
        if vanished[f] > 0:
            R.fail("C05.inventory", "unchecked-arithmetic:%s|%s" % (f, s["what"]),
                   "a new %s assert in %s (%s) while %d audited expect/unwrap site(s) of the same file disappeared: checked arithmetic "
                   "seems to have been replaced by raw arithmetic, which panics on overflow instead of being handled" % (
                       s["what"], s["fn"].qname, where, vanished[f]), where)
        else:
            R.note("unlisted compiler-inserted %s assert in %s (%s): not raised (no audited checked-arithmetic site vanished)" % (s["what"], s["fn"].qname, where))
            R.count("unlisted_asserts_informational[%s]" % cfg)
    if cfg == "default":
        for k, (count, status, reasons) in keys.items():
            if used[k] == 0 and status != "F":
                R.note("audited entry without a site on this tree: %s|%s|%s" % k)
        R.floor("C05.inventory", "audited sites present", sum(used.values()), 60)
    R.count("discharged[%s]" % cfg, statuses["D"])
    R.count("out_of_scope[%s]" % cfg, statuses["O"])
    R.count("findings[%s]" % cfg, statuses["F"])


def re_norm(what):
    import re
    return re.sub(r"\{closure@[^}]*\}", "{closure}", what)


# ---------------------------------------------------------------------------------------------------


def no_panic(R, rule, inst, cases, where, what):
    bad = [c for c in cases if isinstance(c.result, (Panicked, Top))]
    if bad:
        R.fail(rule, inst, "%s: %r" % (what, bad[0].result), where)
    else:
        R.ok(rule, inst, what + ": no panic in %d case(s)" % len(cases), where, sample=False)
    return not bad


def ranges_grid():
    BVR = "token::variance::natural::BoundedVariantRange"
    out = {}
    for a in (1, 2, 3):
        out["Lower(%d)" % a] = Adt(BVR, "Lower", {"0": a})
        out["Upper(%d)" % a] = Adt(BVR, "Upper", {"0": a})
        for e in (1, 2):
            out["Both(%d+%d)" % (a, e)] = Adt(BVR, "Both", {"lower": a, "extent": e})
    return out


def rule_guards(F, R):
    I = Interp(F)
    # terminals: unwrap of first()/last() under len() arms
    it = F.find("<[T] as rule::SliceExt>::terminals")
    for n in range(0, 4):
        cases = I.explore(lambda: I.call_item(it, [Ref(Place(Cell(RList([Sym("t%d" % i) for i in range(n)]))))], inst=False))
        no_panic(R, "C05.guards", "terminals/len=%d" % n, cases, it.where(), "SliceExt::terminals on a slice of length %d" % n)
    # Adjacent::new + next on lists 0..3
    new = F.find("rule::Adjacent::new")
    nxt = F.find("<rule::Adjacent as std::iter::Iterator>::next")
    from .. import models
    for n in range(0, 4):
        def run(n=n):
            it0 = models.iter_of(I, RList([Sym("x%d" % i) for i in range(n)]), by_ref=False)
            adj = I.call_item(new, [it0], inst=False)
            out = []
            for _ in range(n + 1):
                out.append(I.call_item(nxt, [Ref(Place(Cell(adj)))], inst=False))
            return RList(out)
        cases = I.explore(run)
        if no_panic(R, "C05.guards", "Adjacent/len=%d" % n, cases, new.where(), "Adjacent::new / next on %d items" % n):
            res = cases[0].result
            kinds = [strip(strip(x).fields["0"]).variant if strip(x).variant == "Some" else "None" for x in res.items]
            want = {0: ["None"], 1: ["Only", "None"], 2: ["First", "Last", "None"], 3: ["First", "Middle", "Last", "None"]}[n]
            R.check(kinds == want, "C05.guards", "Adjacent/order/len=%d" % n, str(want), new.where(),
                    fail_msg="adjacent() over %d items yields %s" % (n, kinds))
    # try_from_lower_and_upper: never constructs NonZero(0), no panic
    tf = F.find("token::variance::natural::BoundedVariantRange::try_from_lower_and_upper")
    for lo in range(0, 4):
        for hi in [None, 0, 1, 2, 3]:
            cases = I.explore(lambda: I.call_item(tf, [lo, some(hi) if hi is not None else none()], inst=False))
            if no_panic(R, "C05.guards", "try_from_lower_and_upper/%s,%s" % (lo, hi), cases, tf.where(), "try_from_lower_and_upper(%s, %s)" % (lo, hi)):
                res = strip(cases[0].result)
                zero = False
                if isinstance(res, Adt) and res.variant == "Some":
                    r = strip(res.fields["0"])
                    zero = any(strip(v) == 0 for v in r.fields.values())
                R.check(not zero, "C05.guards", "nonzero/%s,%s" % (lo, hi), "no NonZero(0) is constructed", tf.where(),
                        fail_msg="try_from_lower_and_upper(%s, %s) = %r constructs a zero NonZeroUsize (undefined behaviour)" % (lo, hi, res))
    # range algebra on a grid of shapes x small magnitudes: the `unreachable!()` / `expect` arms
    grid = ranges_grid()
    ops = {
        "conjunction": F.find("<token::variance::natural::BoundedVariantRange as token::variance::ops::Conjunction>::conjunction", trait_ref="Conjunction>"),
        "product": F.find("<token::variance::natural::BoundedVariantRange as token::variance::ops::Product>::product", trait_ref="Product>"),
        "disjunction": F.find("<token::variance::natural::BoundedVariantRange as token::variance::ops::Disjunction>::disjunction", trait_ref="Disjunction>"),
    }
    for opname, it in ops.items():
        for (an, a), (bn, b) in itertools.product(grid.items(), repeat=2):
            cases = I.explore(lambda: I.call_item(it, [a, b]))
            bad = [c for c in cases if isinstance(c.result, (Panicked, Top))]
            if bad:
                R.fail("C05.guards", "range-%s:%s x %s" % (opname, an.split("(")[0], bn.split("(")[0]),
                       "BoundedVariantRange::%s(%s, %s) panics: %r (e.g. `<a:0,2><b:1,>` for Upper x Lower)" % (opname, an, bn, bad[0].result), it.where())
            else:
                R.ok("C05.guards", "range-%s:%s x %s" % (opname, an, bn), "no panic", it.where(), sample=False)
    pn = F.find("<token::variance::natural::BoundedVariantRange as token::variance::ops::Product>::product", trait_ref="Product<std::num::NonZero")
    for (an, a), n in itertools.product(grid.items(), (1, 2, 3)):
        cases = I.explore(lambda: I.call_item(pn, [a, n]))
        no_panic(R, "C05.guards", "range-product-n:%s x %d" % (an, n), cases, pn.where(), "product with a non-zero count")
    for name in ("opened_lower_bound",):
        it = F.find("token::variance::natural::BoundedVariantRange::" + name)
        for an, a in grid.items():
            no_panic(R, "C05.guards", "%s:%s" % (name, an), I.explore(lambda: I.call_item(it, [a])), it.where(), name)
    it = F.find("<token::variance::natural::BoundedVariantRange as token::variance::natural::OpenedUpperBound>::opened_upper_bound")
    for an, a in grid.items():
        no_panic(R, "C05.guards", "opened_upper_bound:%s" % an, I.explore(lambda: I.call_item(it, [a])), it.where(), "opened_upper_bound")
    un = F.find("token::variance::natural::BoundedVariantRange::union")
    VAR = "token::variance::Variance"
    un_inst = (F.instances_of(un, "usize") or [None])[0]
    for an, a in grid.items():
        for n in (0, 1, 2, 5):
            cases = I.explore(lambda: I.call_item(un, [a, n], inst=un_inst))
            no_panic(R, "C05.guards", "union:%s with %d" % (an, n), cases, un.where(), "union with an invariant")
    # pop_expression_bytes: index defined by min(len, n)
    pe = F.find("token::Tokenized::partition::pop_expression_bytes")
    for s, n in (("", 0), ("", 3), ("abc", 0), ("abc", 2), ("abc", 3), ("abc", 9)):
        stubs = {"std::ops::Index::index": lambda I2, a, fn, e: RList(strip(a[0]).items[strip(strip(a[1]).fields["start"]):]),
                 "core::str::<impl str>::as_bytes": lambda I2, a, fn, e: RList(list(strip(a[0]).encode())),
                 "std::str::from_utf8": lambda I2, a, fn, e: ok(bytes(strip(a[0]).items).decode())}
        I2 = Interp(F, stubs)
        cases = I2.explore(lambda: I2.call_item(pe, [s, n]))
        if no_panic(R, "C05.guards", "pop_expression_bytes/%r,%d" % (s, n), cases, pe.where(), "pop_expression_bytes(%r, %d)" % (s, n)):
            R.check(strip(cases[0].result) == s[min(len(s), n):], "C05.guards", "pop_expression_bytes/value/%r,%d" % (s, n), repr(s[min(len(s), n):]), pe.where(),
                    fail_msg="pop_expression_bytes(%r, %d) = %r" % (s, n, cases[0].result))
    # into_non_trivial: unwrap under len() == 1
    nt = F.find("token::Token::into_non_trivial")
    inst = (F.instances_of(nt) or [None])[0]
    for name, tok in (("alt[x]", T.branch("alt", [T.leaf("lit", "x")])), ("alt[x,y]", T.branch("alt", [T.leaf("lit", "x"), T.leaf("lit", "y")])),
                      ("cat[x]", T.branch("cat", [T.leaf("lit", "x")])), ("rep[x]{1,1}", T.branch("rep", [T.leaf("lit", "x")], lower=1, upper=1)),
                      ("rep[x]{1,2}", T.branch("rep", [T.leaf("lit", "x")], lower=1, upper=2)), ("alt[alt[x]]", T.branch("alt", [T.branch("alt", [T.leaf("lit", "x")])])),
                      ("leaf", T.leaf("lit", "x")),
                      # `any` of no patterns is an alternation without branches, the empty expression a concatenation without tokens
                      ("alt[]", T.branch("alt", [])), ("cat[]", T.branch("cat", [])), ("alt[cat[]]", T.branch("alt", [T.branch("cat", [])]))):
        cases = I.explore(lambda: I.call_item(nt, [tok], inst=inst))
        no_panic(R, "C05.guards", "into_non_trivial/" + name, cases, nt.where(), "into_non_trivial")
    # walk behaviour constructors (out of scope of C05 but guarded locally)
    fd = F.find("walk::behavior::DepthMinMax::from_depths_or_max", optional=True)
    if fd is not None:
        for p, q in itertools.product(range(0, 4), repeat=2):
            no_panic(R, "C05.guards", "from_depths_or_max/%d,%d" % (p, q), I.explore(lambda: I.call_item(fd, [p, q])), fd.where(), "from_depths_or_max")


def rule_compile(F, R):
    comp = F.find("encode::compile")
    cl = [c for c in F.closures_of(comp, recursive=False) if c.kind == "Closure"]
    if len(cl) != 1:
        raise AnchorMissing("the map_err closure of encode::compile")
    cl = cl[0]
    variants = F.variants("regex::Error")
    I = Interp(F)
    inst = (F.instances_of(comp) or [None])[0]
    for v in variants:
        payload = {"0": Sym("payload")} if v in ("Syntax", "CompiledTooBig") else {}
        cases = I.explore(lambda: I.call_closure(Closure(cl.key, {}, inst), [Adt("regex::Error", v, payload)]))
        res = tabulate.single(cases)
        if v == "CompiledTooBig":
            good = isinstance(strip(res), Adt) and strip(res).path == "encode::CompileError"
            R.check(good, "C05.compile", "regex::Error::" + v, "mapped to CompileError (oversized program)", cl.where(),
                    fail_msg="regex::Error::CompiledTooBig is mapped to %r" % (res,))
        else:
            if isinstance(res, Panicked):
                R.fail("C05.compile", "finding:regex::Error::" + v, "a regex error other than `too big` (%s) is turned into a panic: "
                       "`<a:0,4294967296>` and ~130 nested branches reach it" % v, cl.where())
            else:
                R.ok("C05.compile", "regex::Error::" + v, "returned as an error: %r" % (res,), cl.where())


DESC_CLASSES = {
    # name -> (negated, archetypes); a range whose start is greater than its end is rejected by the regex parser
    "[z-a]": (False, [("z", "a")]),
    "[!z-a]": (True, [("z", "a")]),
    "[!xz-a]": (True, ["x", ("z", "a")]),
    "[9-0k]": (False, [("9", "0"), "k"]),
}


def regex_escape(c):
    return "\\" + c if c in "\\.+*?()|[]{}^$#&-~" else c


def _class_leaf(neg, archetypes, name):
    arch = []
    for a in archetypes:
        if isinstance(a, tuple):
            arch.append(Adt("token::Archetype", "Range", {"0": Char(a[0]), "1": Char(a[1])}))
        else:
            arch.append(Adt("token::Archetype", "Character", {"0": Char(a)}))
    kind = Adt(T.LEAF, "Class", {"0": Adt("token::Class", "Class", {"is_negated": neg, "archetypes": RList(arch)})})
    t = Adt(T.TOKEN, "Token", {"topology": Adt(T.TOPO, "Leaf", {"0": kind}), "annotation": Sym("ann_" + name)})
    t.tag = "class:" + name
    return t


def rule_class_syntax(F, R):
    """C05.syntax (EMIT): a class whose range is descending (`[z-a]`: accepted by the parser, rejected by the regex
    crate) never reaches the final program as written: any regex syntax error is a panic in encode::compile."""
    from . import encoder
    from .. import rx
    from ..teval import StrB
    # precondition: such a token can be built (the conversion used by the parser keeps the endpoints as written, and the
    # parser's class rule does not compare them).  If it cannot, the rule has nothing to decide.
    conv = F.find("<token::Archetype as std::convert::From>::from", trait_ref="(char, char)", optional=True)
    if conv is None:
        R.undecided("C05.syntax: the (char, char) -> Archetype conversion was not found; whether descending ranges are representable is not decided")
        return
    I = Interp(F)
    res = tabulate.single(I.explore(lambda: I.call_item(conv, [Tup([Char("z"), Char("a")])], inst=False)))
    res = strip(res)
    keeps = isinstance(res, Adt) and res.variant == "Range" and [getattr(strip(res.fields.get(k)), "c", None) for k in ("0", "1")] == ["z", "a"]
    compares = False
    cls = F.find("token::parse::parse::class", optional=True)
    if cls is not None:
        for it in [cls] + F.closures_of(cls):
            for e in F.thir(it)["exprs"]:
                if e.get("kind") == "Binary" and e.get("op") in ("Lt", "Le", "Gt", "Ge"):
                    compares = True
    if not keeps or compares:
        R.undecided("C05.syntax: descending class ranges seem to be normalised or rejected before the encoder (conversion keeps "
                    "endpoints: %s, parser compares: %s); the emission rule is not applied" % (keeps, compares))
        return
    where = encoder.where_encode(F)
    n = 0
    for name, (neg, arch) in DESC_CLASSES.items():
        for g, sup, pos in (("Capture", "None", "Only"), ("NonCapture", "None", "Middle"), ("Capture", "First", "First")):
            for frag, em in encoder.fragment_for(F, g, sup, pos, _class_leaf(neg, arch, "k")):
                n += 1
                inst = "%s/%s/sup=%s/pos=%s" % (name, g, sup, pos)
                # the fragment of the class itself, with its concrete escaped members written out
                text = None if frag is None else re.sub(r"⟦esc:'(.)'⟧", lambda m: regex_escape(m.group(1)), frag)
                if text is None or "⟦" in text:
                    R.fail("C05.syntax", inst, "unanalysable emission for a class with a descending range: %r" % (em.case.result,), where)
                    continue
                try:
                    rx.parse(text)
                    R.ok("C05.syntax", inst, "emitted %s: accepted by the regex parser" % text, where, sample=(n % 7 == 1))
                except rx.RxSyntax as e:
                    R.fail("C05.syntax", inst, "the glob %s is encoded as %s, which the regex crate rejects (%s): encode::compile turns "
                           "that error into a panic" % (name, text, e), where)
                except rx.RxError as e:
                    R.fail("C05.syntax", inst, "emitted text %r is not understood: %s" % (text, e), where)
    R.floor("C05.syntax", "emissions of descending-range classes", n, 12)


def rule_streaming(F, R):
    bad = F.callers_of(lambda fn: "::streaming::" in fn["path"])
    n = len(F.callers_of(lambda fn: fn["path"].startswith("nom::")))
    R.floor("C05.guards", "nom calls in the parser", n, 50)
    R.check(not bad, "C05.guards", "nom-complete-only", "only nom `complete` combinators are used (Incomplete cannot be returned)", "src/token/parse.rs",
            fail_msg="a nom streaming combinator is used in %s: ParseError::new panics on Incomplete" % sorted(set(i.qname for i, _x, _b in bad)))


def rule_recursion(F, R):
    comps = mirq.instance_sccs(F)
    seen = set()
    for comp in comps:
        members = [F.items[F.instances[i]["def"]] for i in comp if F.instances[i]["local"] and F.instances[i]["def"] in F.items]
        if not members:
            continue
        files = sorted(set(rel_file(m) for m in members))
        key = "+".join(files) + ("+derived" if all(m.expn for m in members) else "")
        if key in seen:
            continue
        seen.add(key)
        names = sorted(set(m.qname for m in members))
        entry = c05_sites.RECURSION.get(key)
        if entry is None:
            R.fail("C05.recursion", "unlisted:" + key, "a recursion cycle that is not in the audited table: %s (stack depth may be "
                   "input-controlled)" % names[:6], members[0].where())
        elif entry[0] == "F":
            R.fail("C05.recursion", "finding:" + key, "unbounded recursion (%s): %s" % (", ".join(names[:4]), entry[1]), members[0].where())
        else:
            R.ok("C05.recursion", key, entry[1])
    R.floor("C05.recursion", "recursion cycles analysed", len(seen), 3)
    R.count("instances_in_call_graph", len(F.instances))
