"""C18 — Escaping turns any text into a glob that matches exactly that text."""
from ..teval import Adt, Tup, Ref, Place, Cell, Sym, RList, Char, StrB, Top, Panicked, strip, Interp
from ..facts import AnchorMissing
from .. import tabulate

EXPLANATION = (
    "Static decision that the escape function and the parser agree on what a meta-character is: M = the characters "
    "is_meta_character accepts (evaluated on every ASCII character, on non-ASCII characters whose low byte is an ASCII "
    "code, and on an unknown other character); the parser function is evaluated from its THIR with the nom combinators "
    "modelled (sa/nommodel.py) on probe texts for every printable ASCII character and some non-ASCII ones: S = the "
    "characters that end a literal when unescaped, E = the characters x for which `\\\\x` is read as the literal x: "
    "M within E (what escape emits is read back), S within M + {'/', '\\\\'} (every character the parser treats as a "
    "meta-character is reported), M within S; for classes, every character can be a member as written or escaped and "
    "the contextual meta-characters are escapable.  `escape` is evaluated on strings covering every meta-character: it "
    "emits '\\\\' before exactly the members of M and returns other input unchanged; (roundtrip) for ~300 strings "
    "(every ASCII character, every pair of meta-characters, path-like, pattern-like and non-ASCII texts) the parser reads "
    "escape(s) as literals and separators spelling s.  That the escaped text passes the rule checker and is invariant "
    "follows from C06/C11 and is not decided here.")
RULES = "C18.sets (TABLE), C18.escape (EFFECT), C18.roundtrip (TABLE: parser evaluated on escaped strings), C01.delegate (SIBLING: is_match / matched consult the compiled program only)"


def literal_of(th, eid):
    """Literal value of an expression, looking through scopes / borrows / derefs / coercions."""
    e = th["exprs"][eid]
    while e["k"] in ("Scope", "Borrow", "Deref", "Use", "PointerCoercion", "NeverToAny"):
        eid = e.get("value", e.get("arg", e.get("source")))
        e = th["exprs"][eid]
    if e["k"] == "Literal" and e.get("lit"):
        return e["lit"]["v"], e
    if e["k"] == "NamedConst" and e.get("val"):
        return e["val"]["v"], e
    return None, e


def calls_in(F, item, path):
    """(expr, [arg literal or None ...], [arg expr]) of every call to `path` in item and its nested closures/fns."""
    out = []
    for it in [item] + F.closures_of(item):
        th = F.thir(it)
        for e in th["exprs"]:
            if e["k"] == "Call" and e.get("fn") and e["fn"]["path"] == path:
                lits = []
                raws = []
                for a in e["args"]:
                    v, raw = literal_of(th, a)
                    lits.append(v)
                    raws.append((th, raw))
                out.append((it, e, lits, raws))
    return out


def value_tag_pairs(F, item):
    """[(x, y)] for every combinator::value(x, bytes::tag(y)) in item."""
    out = []
    for it, e, lits, raws in calls_in(F, item, "nom::combinator::value"):
        x = lits[0]
        th, raw = raws[1]
        y = None
        if raw["k"] == "Call" and raw.get("fn") and raw["fn"]["path"] == "nom::bytes::complete::tag":
            y, _ = literal_of(th, raw["args"][0])
        out.append((x, y, e["ln"]))
    return out


def run(ctx):
    F = ctx.facts()
    R = ctx.report
    R.assume("nom combinators behave as documented (is_not stops at the listed characters, escaped_transform replaces `\\\\x` by the value of the matching alternative)")
    R.undecided("that the escaped text passes the rule checker and is invariant (C06/C11); decided: it parses into literals and separators spelling the string (C18.roundtrip)")
    M = rule_meta(F, R)
    rule_sets(F, R, M)
    rule_escape(F, R, M)
    rule_roundtrip(F, R, M)
    # "matches that string and no other path": matching is the compiled program's, for invariant globs too - both
    # Program impls consult exactly their own program (C01.delegate); a shortcut that compares paths instead of text
    # (trailing separators, `.` components) would accept other paths
    from . import c01
    c01.rule_delegate(F, R)


def rule_meta(F, R):
    it = F.find("is_meta_character")
    I = Interp(F)
    M = set()
    probes = [chr(c) for c in range(0, 128)]
    # non-ASCII characters, in particular ones whose low byte / low 7 bits coincide with an ASCII character
    for base in (0x80, 0x100, 0x400, 0x3000, 0x1F600):
        probes += [chr(base + c) for c in range(0, 128) if base + c < 0x110000]
    for c in probes:
        res = tabulate.single(I.explore(lambda: I.call_item(it, [Char(c)])))
        if res is True:
            M.add(c)
        elif res is not False:
            R.fail("C18.sets", "is_meta_character(%r)" % c, "unanalysable: %r" % (res,), it.where())
    # an unknown character that differs from every constant mentioned is not a meta-character
    cases = I.explore(lambda: I.call_item(it, [Sym("x")]))
    other = [c for c in cases if all(d[3] == "false" for d in c.decisions)]
    R.check(len(other) == 1 and other[0].result is False, "C18.sets", "is_meta_character(other)",
            "characters not listed are not meta-characters", it.where(),
            fail_msg="a character different from all listed constants is classified %r" % ([c.result for c in other],))
    R.check(len(M) >= 1, "C18.sets", "M non-empty", "meta-character set has %d members" % len(M), it.where())
    R.count("meta_characters", len(M))
    R.note("M = %s" % "".join(sorted(M)))
    return M


def parser_fn(F, name):
    return F.find("token::parse::parse::" + name)


def rule_sets(F, R, M):
    """C18.sets: which characters the parser treats as meta-characters, decided on the parser itself (its THIR with the
    nom combinators modelled, sa/nommodel.py) and therefore independent of how the sets are spelled: S = characters that
    end a literal when written unescaped (`a<c>b` is not read as the one literal), E = characters x for which `\\x` is
    read as the literal x; for classes the characters that can be members as written and escaped."""
    from . import parsecat
    it = F.find("token::parse::parse", optional=True)
    if it is None:
        R.anchor_missing("C18.sets", "token::parse::parse")
        return
    err_item = None
    for cand in F.items.values():
        if cand.qname.startswith("token::parse::ParseError") and cand.name == "new":
            err_item = cand
    where = it.where()
    probes = [chr(c) for c in range(0x20, 0x7f)] + ["\u00e9", "\u015b", "\u017b", "\u012a", "\u672c", "\u611b", "\U0001f600"]

    def reads(text):
        ev = parsecat.evaluate(F, it, err_item, text)
        if ev["outcome"] == "unanalysable":
            R.fail("C18.sets", "parse(%r)" % text, "the parser could not be evaluated on %r: %s" % (text, ev["why"]), where)
            return None
        return ev["tree"][1] if ev["outcome"] == "ok" else False
    S, E, wrong = set(), set(), []
    plain, escapable = set(), set()
    for c in probes:
        t = reads("a" + c + "b")
        if t is None:
            continue
        if not (t and len(t) == 1 and t[0][0] == "lit" and t[0][1] == "a" + c + "b"):
            S.add(c)
        t = reads("\\" + c)
        if t and len(t) == 1 and t[0][0] == "lit":
            if t[0][1] == c:
                E.add(c)
            else:
                wrong.append((c, t[0][1]))
        t = reads("[a" + c + "]")
        if t and len(t) == 1 and t[0][0] == "class" and t[0][2] == [["c", "a"], ["c", c]]:
            plain.add(c)
        t = reads("[\\" + c + "]")
        if t and len(t) == 1 and t[0][0] == "class" and t[0][2] == [["c", c]]:
            escapable.add(c)
    R.floor("C18.sets", "characters probed through the parser", len(probes), 100)
    R.check(not wrong, "C18.sets", "escape yields the escaped character", "`\\x` is read as x", where,
            fail_msg="an escape is read as a different character: %s" % (wrong[:5],))
    R.check(M <= E, "C18.sets", "M within E", "every meta-character can be written escaped in a literal", where,
            fail_msg="is_meta_character accepts %s but the literal parser does not read `\\x` as x for %s: escape() emits an "
                     "escape the parser rejects" % (sorted(M), sorted(M - E)))
    want = M | {"/", "\\"}
    R.check(S <= want, "C18.sets", "S within M + {/,\\}", "every character that ends a literal is a meta-character, the separator or the escape character", where,
            fail_msg="the parser treats %s as pattern meta-characters (they end a literal when unescaped) but is_meta_character "
                     "does not report them: escape() leaves them unescaped" % sorted(S - want))
    R.check(M <= S, "C18.sets", "M within S", "meta-characters are not literal text when unescaped", where,
            fail_msg="is_meta_character reports %s but the parser reads them as literal text when unescaped" % sorted(M - S))
    R.note("parser: S = %s, E = %s; classes: written as is %d characters, escapable %s" % ("".join(sorted(S)), "".join(sorted(E)), len(plain), "".join(sorted(escapable))))
    every = [c for c in probes if c not in plain and c not in escapable and c != "\\"]
    R.check(not every, "C18.sets", "class members", "every character but `\\` can be a class member, as written or escaped", where,
            fail_msg="the characters %s can neither be written in a class as they are nor escaped" % every)
    ctxm = F.find("is_contextual_meta_character")
    I = Interp(F)
    C = set(chr(c) for c in range(128) if tabulate.single(I.explore(lambda c=c: I.call_item(ctxm, [Char(chr(c))]))) is True)
    R.check(C <= escapable and C, "C18.sets", "contextual meta-characters", "contextual meta-characters %s are escapable inside classes" % sorted(C), ctxm.where(),
            fail_msg="contextual meta-characters %s are not all escapable in classes (%s)" % (sorted(C), sorted(escapable)))
    notplain = set(probes) - plain - {"\\"}
    R.check(notplain <= C | {"/"} or notplain <= escapable, "C18.sets", "class control characters", "characters that cannot be class members as written are escapable", where,
            fail_msg="the characters %s cannot be written in a class as they are and are not all escapable (%s)" % (sorted(notplain), sorted(escapable)))


def rule_escape(F, R, M):
    it = F.find("escape")
    I = Interp(F)
    samples = [""] + sorted(M) + ["ab", "a*b?c", "愛", "a/b", "{a,b}", "[a-b]", "<a:1,2>", "(?i)", "*", "**", "a-b", "a b", "$x"]
    for s in samples:
        res = strip(tabulate.single(I.explore(lambda: I.call_item(it, [s]))))
        text = res.text() if isinstance(res, StrB) else res
        want = "".join(("\\" + c) if c in M else c for c in s)
        R.check(text == want, "C18.escape", "escape(%r)" % s, repr(want), it.where(),
                fail_msg="escape(%r) = %r, expected %r (a backslash before exactly the meta-characters, every character kept)" % (s, text, want))


ROUNDTRIP_EXTRA = ["", "ab", "a/b", "/a", "a/", "/", "a/b/c.d", "**", "a/**/b", "**/a", "*.rs", "$x?", "(?i)a", "(?-i)", "[a-b]", "[!a]", "{a,b}",
                   "{a,b}/<c:1,2>", "<a:1,>", "a:b", "a,b", "a-b", "a!b", "!", "-", "a b", "\u611b", "\u611b/\u30b0*", "\u015b", "\u017b\u00f3\u0142w",
                   "\u012a", "\u672c", "\U0001f600", "x\u015b{y}", "zdj\u0119cia/\u017b\u00f3\u0142w/\u015bnieg.png", "?*$:<>()[]{},", ",}{][)(><:$*?",
                   "a?b*c$d:e<f>g(h)i[j]k{l}m,n"]


def rule_roundtrip(F, R, M):
    """C18.roundtrip: for strings covering every ASCII character, every meta-character in context, path-like texts,
    pattern-like texts and non-ASCII characters (among them characters whose low byte is the code of a meta-character),
    `escape` is evaluated from its THIR and the parser (its THIR, nom combinators modelled, sa/nommodel.py) is evaluated
    on the escaped text: it must accept it and read it as literals and separators only, whose text is the original
    string.  This decides `the escaped string builds into a glob whose tokens spell exactly that string` for the
    listed strings however the escape set and the parser's escape alternatives are spelled."""
    from . import parsecat
    esc = F.find("escape")
    it = F.find("token::parse::parse", optional=True)
    if it is None:
        R.anchor_missing("C18.roundtrip", "token::parse::parse")
        return
    err_item = None
    for cand in F.items.values():
        if cand.qname.startswith("token::parse::ParseError") and cand.name == "new":
            err_item = cand
    strings = [chr(c) for c in range(0x20, 0x7f) if chr(c) != "\\"]
    strings += ["a%sb" % c for c in sorted(M)] + ["%s%s" % (c, d) for c in sorted(M) for d in sorted(M) if c + d != "**"]
    strings += ROUNDTRIP_EXTRA
    n = 0
    seen = set()
    for s in strings:
        if s in seen or "\\" in s or "//" in s:
            continue
        seen.add(s)
        I = Interp(F)
        res = strip(tabulate.single(I.explore(lambda: I.call_item(esc, [s]))))
        text = res.text() if isinstance(res, StrB) else res
        if not isinstance(text, str):
            R.fail("C18.roundtrip", "escape(%r)" % s, "escape(%r) could not be evaluated: %r" % (s, res), esc.where())
            continue
        ev = parsecat.evaluate(F, it, err_item, text)
        n += 1
        problem = None
        if ev["outcome"] == "unanalysable":
            problem = "the parser could not be evaluated on the escaped text %r: %s" % (text, ev["why"])
        elif ev["outcome"] == "reject":
            problem = "escape(%r) = %r is rejected by the parser: the escaped string does not build" % (s, text)
        else:
            toks = ev["tree"][1]
            spelled = ""
            for t in toks:
                if t[0] == "lit":
                    spelled += t[1]
                elif t[0] == "sep":
                    spelled += "/"
                else:
                    problem = "escape(%r) = %r is read with a pattern token (%s): the escaped text is not a literal" % (s, text, parsecat.show(ev["tree"]))
                    break
            if problem is None and spelled != s:
                problem = "escape(%r) = %r is read as the literal text %r, not as the string itself" % (s, text, spelled)
        R.check(problem is None, "C18.roundtrip", "escape+parse(%r)" % s, "reads back as literals and separators spelling the string", esc.where(), fail_msg=problem)
    R.floor("C18.roundtrip", "strings escaped and parsed", n, 300)
