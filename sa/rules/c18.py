"""C18 — Escaping turns any text into a glob that matches exactly that text."""
from ..teval import Adt, Tup, Ref, Place, Cell, Sym, RList, Char, StrB, Top, Panicked, strip, Interp
from ..facts import AnchorMissing
from .. import tabulate

EXPLANATION = (
    "Static decision that the escape function and the parser agree on what a meta-character is: M = the characters "
    "is_meta_character accepts (evaluated on every ASCII character and on an unknown other character), E = the literal "
    "parser's escape alternatives value(x, tag(y)) (x = y required), S = its is_not stop set, read from the resolved nom "
    "calls in the THIR of the parser (not from text): E = M, S = M + {'/', '\\\\'}, the escape character of both sides is "
    "'\\\\'; for classes, the none_of set = escapable + {'\\\\'} and the contextual meta-characters are escapable.  "
    "`escape` is evaluated on strings covering every meta-character: it emits '\\\\' before exactly the members of M and "
    "returns other input unchanged.  That the escaped text builds and is invariant follows from C01/C06/C11 and is not "
    "decided here.")
RULES = "C18.sets (TABLE), C18.escape (EFFECT)"


def literal_of(th, eid):
    """Literal value of an expression, looking through scopes / borrows / derefs / coercions."""
    e = th["exprs"][eid]
    while e["k"] in ("Scope", "Borrow", "Deref", "Use", "PointerCoercion", "NeverToAny"):
        eid = e.get("value", e.get("arg", e.get("source")))
        e = th["exprs"][eid]
    if e["k"] == "Literal" and e.get("lit"):
        return e["lit"]["v"], e
    if e["k"] == "NamedConst" and e.get("val"):
        return e["val"]["v"], e
    return None, e


def calls_in(F, item, path):
    """(expr, [arg literal or None ...], [arg expr]) of every call to `path` in item and its nested closures/fns."""
    out = []
    for it in [item] + F.closures_of(item):
        th = F.thir(it)
        for e in th["exprs"]:
            if e["k"] == "Call" and e.get("fn") and e["fn"]["path"] == path:
                lits = []
                raws = []
                for a in e["args"]:
                    v, raw = literal_of(th, a)
                    lits.append(v)
                    raws.append((th, raw))
                out.append((it, e, lits, raws))
    return out


def value_tag_pairs(F, item):
    """[(x, y)] for every combinator::value(x, bytes::tag(y)) in item."""
    out = []
    for it, e, lits, raws in calls_in(F, item, "nom::combinator::value"):
        x = lits[0]
        th, raw = raws[1]
        y = None
        if raw["k"] == "Call" and raw.get("fn") and raw["fn"]["path"] == "nom::bytes::complete::tag":
            y, _ = literal_of(th, raw["args"][0])
        out.append((x, y, e["ln"]))
    return out


def run(ctx):
    F = ctx.facts()
    R = ctx.report
    R.assume("nom combinators behave as documented (is_not stops at the listed characters, escaped_transform replaces `\\\\x` by the value of the matching alternative)")
    R.undecided("that the escaped text builds and is invariant (C01/C06/C11 + the rest of the grammar)")
    M = rule_meta(F, R)
    rule_sets(F, R, M)
    rule_escape(F, R, M)


def rule_meta(F, R):
    it = F.find("is_meta_character")
    I = Interp(F)
    M = set()
    probes = [chr(c) for c in range(0, 128)]
    # non-ASCII characters, in particular ones whose low byte / low 7 bits coincide with an ASCII character
    for base in (0x80, 0x100, 0x400, 0x3000, 0x1F600):
        probes += [chr(base + c) for c in range(0, 128) if base + c < 0x110000]
    for c in probes:
        res = tabulate.single(I.explore(lambda: I.call_item(it, [Char(c)])))
        if res is True:
            M.add(c)
        elif res is not False:
            R.fail("C18.sets", "is_meta_character(%r)" % c, "unanalysable: %r" % (res,), it.where())
    # an unknown character that differs from every constant mentioned is not a meta-character
    cases = I.explore(lambda: I.call_item(it, [Sym("x")]))
    other = [c for c in cases if all(d[3] == "false" for d in c.decisions)]
    R.check(len(other) == 1 and other[0].result is False, "C18.sets", "is_meta_character(other)",
            "characters not listed are not meta-characters", it.where(),
            fail_msg="a character different from all listed constants is classified %r" % ([c.result for c in other],))
    R.check(len(M) >= 1, "C18.sets", "M non-empty", "meta-character set has %d members" % len(M), it.where())
    R.count("meta_characters", len(M))
    R.note("M = %s" % "".join(sorted(M)))
    return M


def parser_fn(F, name):
    return F.find("token::parse::parse::" + name)


def rule_sets(F, R, M):
    lit = parser_fn(F, "literal")
    pairs = value_tag_pairs(F, lit)
    R.floor("C18.sets", "escape alternatives in the literal parser", len(pairs), 1)
    E = set()
    for x, y, ln in pairs:
        R.check(x is not None and x == y, "C18.sets", "value(%r, tag(%r))" % (x, y), "an escape yields the character that was escaped", "%s:%s" % (lit.where().split(":")[0], ln),
                fail_msg="the escape alternative value(%r, tag(%r)) maps an escaped character to a different one" % (x, y))
        if x is not None:
            E.add(x)
    R.check(E == M, "C18.sets", "E = M", "escapable characters of the literal parser = meta-characters", lit.where(),
            fail_msg="the literal parser can unescape %s but is_meta_character accepts %s: only in parser %s, only in "
                     "is_meta_character %s (escape() would emit an escape the parser rejects, or leave a meta-character "
                     "unescaped)" % (sorted(E), sorted(M), sorted(E - M), sorted(M - E)))
    stops = calls_in(F, lit, "nom::bytes::complete::is_not")
    R.floor("C18.sets", "is_not in the literal parser", len(stops), 1)
    for it, e, lits, _raws in stops:
        S = set(lits[0] or "")
        want = M | {"/", "\\"}
        R.check(S == want, "C18.sets", "S = M + {/,\\}", "literal text stops exactly at meta-characters, separators and the escape character",
                "%s:%s" % (lit.where().split(":")[0], e["ln"]),
                fail_msg="the literal parser's stop set is %s, expected %s: missing %s, extra %s (a meta-character that does not "
                         "stop a literal is taken literally unescaped; an extra one cannot be written at all)" % (
                             "".join(sorted(S)), "".join(sorted(want)), sorted(want - S), sorted(S - want)))
    et = calls_in(F, lit, "nom::bytes::complete::escaped_transform")
    R.floor("C18.sets", "escaped_transform in the literal parser", len(et), 1)
    for it, e, lits, _raws in et:
        R.check(lits[1] == "\\", "C18.sets", "parser escape character", "`\\`", lit.where(),
                fail_msg="the literal parser's escape character is %r" % (lits[1],))
    # classes
    cls = parser_fn(F, "class")
    none_of = calls_in(F, cls, "nom::character::complete::none_of")
    cpairs = value_tag_pairs(F, cls)
    R.floor("C18.sets", "class escape alternatives", len(cpairs), 1)
    R.floor("C18.sets", "none_of in the class parser", len(none_of), 1)
    esc = set()
    for x, y, ln in cpairs:
        R.check(x is not None and y == "\\" + x, "C18.sets", "class value(%r, tag(%r))" % (x, y), "`\\x` yields x", cls.where(),
                fail_msg="the class escape alternative value(%r, tag(%r)) is inconsistent" % (x, y))
        if x is not None:
            esc.add(x)
    for it, e, lits, _raws in none_of:
        N = set(lits[0] or "")
        R.check(N == esc | {"\\"}, "C18.sets", "class none_of", "plain class members exclude exactly the escapable characters and `\\`", cls.where(),
                fail_msg="none_of(%r) but the escapable class characters are %s" % (lits[0], sorted(esc)))
    ctxm = F.find("is_contextual_meta_character")
    I = Interp(F)
    C = set(chr(c) for c in range(128) if tabulate.single(I.explore(lambda c=c: I.call_item(ctxm, [Char(chr(c))]))) is True)
    R.check(C <= esc and C, "C18.sets", "contextual meta-characters", "contextual meta-characters %s are escapable inside classes" % sorted(C), ctxm.where(),
            fail_msg="contextual meta-characters %s are not all escapable in classes (%s)" % (sorted(C), sorted(esc)))


def rule_escape(F, R, M):
    it = F.find("escape")
    I = Interp(F)
    samples = [""] + sorted(M) + ["ab", "a*b?c", "愛", "a/b", "{a,b}", "[a-b]", "<a:1,2>", "(?i)", "*", "**", "a-b", "a b", "$x"]
    for s in samples:
        res = strip(tabulate.single(I.explore(lambda: I.call_item(it, [s]))))
        text = res.text() if isinstance(res, StrB) else res
        want = "".join(("\\" + c) if c in M else c for c in s)
        R.check(text == want, "C18.escape", "escape(%r)" % s, repr(want), it.where(),
                fail_msg="escape(%r) = %r, expected %r (a backslash before exactly the meta-characters, every character kept)" % (s, text, want))
