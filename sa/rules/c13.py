"""C13 — Discarded directory trees are never read, and only they are skipped."""
from ..teval import Adt, Tup, Ref, Place, Cell, Sym, PyFn, Top, Panicked, strip, some, none, ok, err, UNIT
from ..facts import AnchorMissing
from . import walkfam as W

EXPLANATION = (
    "Static decision of the cancellation plumbing: (skip) walkdir's skip_current_dir has exactly one caller and that "
    "call happens iff the most recently yielded entry was a directory; (isdir) WalkTree::next assigns the is_dir flag on "
    "every outcome of the underlying iterator; (forward) every combinator's CancelWalk impl is exactly one "
    "cancel_walk_tree call on the iterator it feeds from; (pair) every function that owns a WalkCancellation uses it "
    "once iff the entry becomes tree residue from a non-tree state and never for an entry that already is tree residue "
    "(walkdir pops one more directory per extra call); (target) the cancellation handed to a verdict wraps the iterator "
    "whose feed() produced the entry, with exactly one feed() per call.  Decided by evaluating the THIR of each function "
    "on every member of {filtrate-ok, filtrate-err, node residue, tree residue, end} x {no verdict, file, tree}; the "
    "behaviour on real directory trees is not executed.  "
    "Also run here: the verdict table of `not` (C03.verdict), the decision cells of the glob walker - a directory whose own component fails the program of its depth is discarded as a tree, every other non-matching entry as a file (C02.prune) - and that every combinator yields the filtrate of its own feed (C16.next).")
RULES = "C13.skip (WHO+GUARD), C13.isdir (EFFECT), C13.forward (SIBLING), C13.pair (EFFECT), C13.target (PROV+WHO), C03.verdict (TABLE), C02.prune (GUARD: decision cells of the glob walker), C16.next"

SKIP = "walkdir::IntoIter::skip_current_dir"
WALKTREE_CANCEL = "<walk::WalkTree as filter::CancelWalk>::cancel_walk_tree"


def run(ctx):
    F = ctx.facts()
    R = ctx.report
    R.assume("walkdir::IntoIter::skip_current_dir skips exactly the most recently yielded directory, and pops one more level per additional call")
    R.assume("Unix configuration; default features (walk)")
    R.undecided("that the pruned set is correct for a concrete directory tree (needs running a walk); decided here is the plumbing every such run goes through")
    rule_skip(F, R)
    rule_isdir(F, R)
    feeds = rule_forward(F, R)
    rule_pair(F, R)
    rule_feeds(F, R, "C13")
    # a directory that matches an exhaustive negation is discarded as a tree (and so not read): the verdict table of `not`
    from . import c03
    c03.rule_verdict(F, R)
    # a directory that the glob's component program of its own depth rejects is discarded as a tree, any other
    # non-matching entry as a file: the decision cells of the glob walker (C02.prune)
    from . import c02
    c02.rule_walker(F, R)
    from . import c16
    c16.rule_next(F, R)      # what a combinator yields is the filtrate of its own feed
    R.count("functions_evaluated", 0)


# ---------------------------------------------------------------------------------------------------


def rule_skip(F, R):
    callers = F.callers_of(lambda fn: fn["path"] == SKIP)
    R.count("mir_bodies_scanned", len(F.items))
    names = sorted(set(it.qname for it, _i, _b in callers))
    R.floor("C13.skip", "callers of skip_current_dir", len(callers), 1)
    for it, _i, b in callers:
        R.check(it.qname == WALKTREE_CANCEL, "C13.skip", "caller:" + it.qname,
                "skip_current_dir is called only from WalkTree's CancelWalk impl", "%s:%s" % (it.where(), b["ln"]),
                fail_msg="walkdir::IntoIter::skip_current_dir is called from %s: a second caller can skip a directory "
                         "other than the one a verdict was given for" % it.qname)
    # GUARD: the call happens iff is_dir is true
    item = F.find(WALKTREE_CANCEL)
    I = W.new_interp(F, W.walkdir_stubs())
    for flag in (True, False):
        def run(flag=flag):
            me = W.walk_tree(F, I, is_dir=flag)
            return I.call_item(item, [Ref(Place(Cell(me)))])
        cases = I.explore(run)
        for c in cases:
            n = len([e for e in c.log if e[0] == "ext" and e[1] == SKIP])
            bad = isinstance(c.result, (Top, Panicked))
            R.check(not bad and n == (1 if flag else 0), "C13.skip", "guard:is_dir=%s" % flag,
                    "skip_current_dir called %d time(s) when is_dir=%s" % (n, flag), item.where(),
                    fail_msg="cancel_walk_tree with is_dir=%s calls skip_current_dir %d time(s) (result %r): cancelling "
                             "after a non-directory entry would skip the rest of the parent directory" % (flag, n, c.result))


def rule_isdir(F, R):
    item = F.find("<walk::WalkTree as std::iter::Iterator>::next")
    outcomes = {
        "ok": lambda: some(ok(Sym("entry"))),
        "err": lambda: some(err(Sym("error"))),
        "end": lambda: none(),
    }
    for name, mk in outcomes.items():
        for prev in (True, False):
            stubs = W.walkdir_stubs(on_next=lambda I, f, mk=mk: mk())
            stubs.update({
                "walkdir::DirEntry::file_type": lambda I, a, fn, e: Sym("file_type(%s)" % _n(a[0])),
                "std::fs::FileType::is_dir": lambda I, a, fn, e: Sym("is_dir(%s)" % _n(a[0])),
                "<walk::WalkError as std::convert::From>::from": lambda I, a, fn, e: Sym("WalkError::from(%s)" % _n(a[0])),
            })
            I = W.new_interp(F, stubs)

            def run(prev=prev):
                me = W.walk_tree(F, I, is_dir=prev)
                res = I.call_item(item, [Ref(Place(Cell(me)))])
                return Tup([res, strip(me).fields["is_dir"]])
            cases = I.explore(run)
            for c in cases:
                inst = "next=%s,prev_is_dir=%s" % (name, prev)
                if isinstance(c.result, (Top, Panicked)):
                    R.fail("C13.isdir", inst, "unanalysable: %r" % c.result, item.where())
                    continue
                res, flag = strip(c.result.items[0]), strip(c.result.items[1])
                if name == "ok":
                    good = isinstance(flag, Sym) and flag.name == "is_dir(file_type(entry))"
                    want = "is_dir of the yielded entry's file type"
                else:
                    good = flag is False
                    want = "false"
                R.check(good, "C13.isdir", inst, "is_dir := %s" % want, item.where(),
                        fail_msg="after next() = %s the flag is %r, expected %s: a stale flag lets a later cancellation "
                                 "skip the parent of a non-directory (or fail to skip a directory)" % (name, flag, want))
                # the item handed out must be the same entry / an error made from the same error
                if name == "end":
                    R.check(isinstance(res, Adt) and res.variant == "None", "C13.isdir", inst + ":item", "yields None", item.where())
                elif name == "ok":
                    inner = _unwrap(res, ["Some", "Ok"])
                    e = strip(inner.fields.get("entry")) if isinstance(inner, Adt) else None
                    R.check(isinstance(e, Sym) and e.name == "entry", "C13.isdir", inst + ":item",
                            "yields Ok(TreeEntry{entry}) of the entry whose type was read", item.where(),
                            fail_msg="next() yields %r, not the entry whose file type set the flag" % (res,))
                else:
                    inner = _unwrap(res, ["Some", "Err"])
                    R.check(isinstance(inner, Sym) and inner.name == "WalkError::from(error)", "C13.isdir", inst + ":item",
                            "yields Err(WalkError::from(error))", item.where(),
                            fail_msg="next() yields %r for an error item" % (res,))


def _unwrap(v, variants):
    v = strip(v)
    for name in variants:
        if isinstance(v, Adt) and v.variant == name:
            v = strip(v.fields.get("0"))
        else:
            return None
    return v


def _n(v):
    v = strip(v)
    return v.name if isinstance(v, Sym) else repr(v)


def struct_with_sym_fields(F, adt_path, overrides=None):
    a = F.adt(adt_path)
    fields = {}
    for f in a["variants"][0]["fields"]:
        fields[f["name"]] = Sym(f["name"])
    fields.update(overrides or {})
    return Adt(adt_path, a["variants"][0]["name"], fields)


def cancel_impls(F):
    out = [it for it in F.items.values() if it.kind == "AssocFn" and it.impl_trait == "filter::CancelWalk"
           and it.name == "cancel_walk_tree"]
    return sorted(out, key=lambda it: it.qname)


def feed_impls(F):
    out = [it for it in F.items.values() if it.kind == "AssocFn" and it.impl_trait == "filter::SeparatingFilter"
           and it.name == "feed" and it.impl_adt]
    return sorted(out, key=lambda it: it.qname)


def rule_forward(F, R):
    fed_adts = set(it.impl_adt for it in feed_impls(F))
    # combinators = types that implement both CancelWalk and SeparatingFilter::feed (the token-tree walker
    # `token::walk::Walk` also implements CancelWalk but is not part of a directory walk)
    impls = [it for it in cancel_impls(F) if it.qname != WALKTREE_CANCEL and it.impl_adt in fed_adts]
    R.floor("C13.forward", "forwarding CancelWalk impls", len(impls), 4)
    for it in impls:
        I = W.new_interp(F)

        def run(it=it):
            me = struct_with_sym_fields(F, it.impl_adt)
            return I.call_item(it, [Ref(Place(Cell(me)))])
        cases = I.explore(run)
        R.count("functions_evaluated")
        for c in cases:
            recv = W.cancel_events(c)
            others = [e for e in c.log if e[0] == "ext" and e[1] != W.CANCEL]
            fed = feed_field(F, it.impl_adt)
            good = (not isinstance(c.result, (Top, Panicked))) and len(recv) == 1 and not others and \
                (fed is None or recv[0] == fed)
            R.check(good, "C13.forward", it.qname,
                    "exactly one cancel_walk_tree on %s (the iterator this combinator feeds from)" % (recv[0] if recv else "?"),
                    it.where(),
                    fail_msg="CancelWalk impl performs %d cancellation(s) on %r (feeds from %r), other calls %r, result %r: "
                             "a combinator must forward exactly one cancellation to its own input" % (
                                 len(recv), recv, fed, others, c.result))
    return impls


_FEED_FIELD = {}


def feed_field(F, adt_path):
    """Receiver (field) on which the combinator type's feed() calls input.feed()."""
    key = (id(F), adt_path)
    if key in _FEED_FIELD:
        return _FEED_FIELD[key]
    res = None
    for it in feed_impls(F):
        if it.impl_adt != adt_path:
            continue
        stubs = {W.FEED: lambda I, a, fn, e: none()}
        I = W.new_interp(F, stubs)
        seen = []
        stubs[W.FEED] = lambda I, a, fn, e: (seen.append(_n(a[0])), none())[1]
        I.rule_stubs.update(stubs)

        def run(it=it):
            me = struct_with_sym_fields(F, adt_path)
            return I.call_item(it, [Ref(Place(Cell(me)))])
        I.explore(run)
        if seen:
            res = "?" + seen[0]
    _FEED_FIELD[key] = res
    return res


# ---------------------------------------------------------------------------------------------------
# pairing of cancellations with state transitions (shared with C16.lattice)


def cancellation():
    """A WalkCancellation wrapping an opaque iterator named CANCEL_TARGET."""
    return Adt("filter::WalkCancellation", "WalkCancellation", {"0": Ref(Place(Cell(Sym("CANCEL_TARGET"))))})


def check_transition(R, rule, inst, state, verdict, c, where, payload_name="entry"):
    """One cell: result state must be max(state, verdict); cancellations as in R-lattice."""
    if isinstance(c.result, (Top, Panicked)):
        R.fail(rule, inst, "unanalysable / panicking cell: %r" % (c.result,), where)
        return
    got, payload = W.classify(c.result)
    want = W.expected_state(state, verdict)
    ncancel = len(W.cancel_events(c))
    wantc = W.expected_cancels(state, verdict)
    ok_state = got == want
    ok_cancel = ncancel == wantc
    ok_payload = isinstance(payload, Sym) and payload.name == payload_name
    if ok_state and ok_cancel and ok_payload:
        R.ok(rule, inst, "(%s, verdict %s) -> %s with %d cancellation(s)" % (state, verdict, got, ncancel), where)
    else:
        why = []
        if not ok_state:
            why.append("state becomes %s, expected %s (filtrate < node < tree, never backwards)" % (got, want))
        if not ok_cancel:
            why.append("%d cancellation(s), expected %d (a cancellation without a tree label lets a later tree verdict "
                       "cancel again and skip the parent directory; a tree label without cancellation reads a discarded "
                       "tree)" % (ncancel, wantc))
        if not ok_payload:
            why.append("payload is %r, expected the same entry" % (payload,))
        R.fail(rule, inst, "(%s, verdict %s): %s" % (state, verdict, "; ".join(why)), where)


def rule_pair(F, R, prefix="C13.pair"):
    # Filtrate::filter_map_tree / filter_tree: input is filtrate by type.
    for q, nargs in (("filter::Product::filter_map_tree", 3), ("filter::Product::filter_tree", 2)):
        it = F.find(q)
        I = W.new_interp(F)

        def run(it=it, nargs=nargs):
            args = [W.product(Sym("entry")), cancellation()]
            if nargs == 3:
                args.append(W.identity_from())
            return I.call_item(it, args)
        for c in I.explore(run):
            check_transition(R, prefix, "%s/filtrate" % q, "filtrate", "tree", c, it.where())
        R.count("functions_evaluated")
    # Filtrate::filter_map_node / filter_node
    for q, nargs in (("filter::Product::filter_map_node", 2), ("filter::Product::filter_node", 1)):
        it = F.find(q)
        I = W.new_interp(F)

        def run(it=it, nargs=nargs):
            args = [W.product(Sym("entry"))]
            if nargs == 2:
                args.append(W.identity_from())
            return I.call_item(it, args)
        for c in I.explore(run):
            check_transition(R, prefix, "%s/filtrate" % q, "filtrate", "node", c, it.where())
        R.count("functions_evaluated")
    # Separation::filter_map_tree / filter_map_node
    for q, verdict, with_cancel in (("filter::Separation::filter_map_tree", "tree", True),
                                    ("filter::Separation::filter_map_node", "node", False)):
        it = F.find(q)
        for state in W.STATES:
            I = W.new_interp(F)

            def run(it=it, state=state, with_cancel=with_cancel):
                args = [W.separation(state, Sym("entry"))]
                if with_cancel:
                    args.append(cancellation())
                args.append(W.identity_from())
                return I.call_item(it, args)
            for c in I.explore(run):
                check_transition(R, prefix, "%s/%s" % (q, state), state, verdict, c, it.where())
        R.count("functions_evaluated")
    # Separation::filter_tree_by_substituent: 3 states x 3 verdicts
    it = F.find("filter::Separation::filter_tree_by_substituent")
    for state in W.STATES:
        for verdict in ("none", "node", "tree"):
            stubs = {"filter::Isomeric::substituent": lambda I, a, fn, e: Sym("substituent")}
            I = W.new_interp(F, stubs)

            def run(state=state, verdict=verdict):
                f = PyFn(lambda I2, a, verdict=verdict: W.verdict_value(verdict), "verdict")
                return I.call_item(it, [W.separation(state, Sym("entry")), cancellation(), f])
            for c in I.explore(run):
                check_transition(R, prefix, "filter::Separation::filter_tree_by_substituent/%s/%s" % (state, verdict),
                                 state, verdict, c, it.where())
    R.count("functions_evaluated")
    R.floor(prefix, "transition cells", len([o for o in R.obligations if o[0] == prefix]), 19)


# ---------------------------------------------------------------------------------------------------
# feed() of the combinators: FilterTreeBySubstituent, FilterEntry, Not, FilterMapTree


ITEM_KINDS = ["filtrate-ok", "filtrate-err", "node", "tree", "end"]


def fed_item(kind, wrapped_result):
    if kind == "end":
        return none()
    if kind == "filtrate-ok":
        return some(W.separation("filtrate", ok(Sym("entry")) if wrapped_result else Sym("entry")))
    if kind == "filtrate-err":
        return some(W.separation("filtrate", err(Sym("error"))))
    return some(W.separation(kind, Sym("entry")))


def eval_feed(F, it, kind, verdict, wrapped_result, verdict_field=None, extra_stubs=None):
    """Evaluate a combinator's feed() for one fed item kind and one verdict.  Returns (cases, info)."""
    info = {"feeds": [], "verdict_calls": 0}

    def feed_stub(I, a, fn, e):
        info["feeds"].append("?" + _n(a[0]))
        I.emit("ext", W.FEED, ["?" + _n(a[0])])
        return fed_item(kind, wrapped_result)

    def verdict_fn(I, a):
        info["verdict_calls"] += 1
        I.emit("verdict", verdict)
        return W.verdict_value(verdict, as_entry_residue=wrapped_result)
    stubs = {W.FEED: feed_stub,
             "filter::Isomeric::substituent": lambda I, a, fn, e: Sym("substituent"),
             "walk::glob::FilterAny::residue": lambda I, a, fn, e: verdict_fn(I, a)}
    stubs.update(extra_stubs or {})
    I = W.new_interp(F, stubs)

    def run():
        info["feeds"] = []
        info["verdict_calls"] = 0
        overrides = {}
        if verdict_field:
            overrides[verdict_field] = PyFn(verdict_fn, "verdict")
        me = struct_with_sym_fields(F, it.impl_adt, overrides)
        return I.call_item(it, [Ref(Place(Cell(me)))])
    cases = I.explore(run)
    return cases, info


def rule_feeds(F, R, pid):
    """FilterTreeBySubstituent::feed, FilterEntry::feed, Not::feed.  Records obligations for
    `<pid>.target`, `<pid>.pair` (C13) or `<pid>.apply` / `<pid>.lattice` (C16) / `<pid>.forward` (C20)."""
    specs = [
        ("<filter::FilterTreeBySubstituent as filter::SeparatingFilter>::feed", False, "f"),
        ("<walk::FilterEntry as filter::SeparatingFilter>::feed", True, "f"),
        ("<walk::Not as filter::SeparatingFilter>::feed", True, None),
    ]
    n = 0
    for q, wrapped, vfield in specs:
        it = F.find(q)
        kinds = ITEM_KINDS if wrapped else [k for k in ITEM_KINDS if k != "filtrate-err"]
        for kind in kinds:
            for verdict in ("none", "node", "tree"):
                cases, info = eval_feed(F, it, kind, verdict, wrapped, vfield)
                for c in cases:
                    n += 1
                    inst = "%s/%s/%s" % (q, kind, verdict)
                    judge_feed(R, pid, inst, it, kind, verdict, wrapped, c)
        R.count("functions_evaluated")
    R.floor(pid + ".feeds", "feed cells", n, 39)


def judge_feed(R, pid, inst, it, kind, verdict, wrapped, c):
    where = it.where()
    rule_t = pid + (".target" if pid == "C13" else ".forward" if pid == "C20" else ".apply")
    if isinstance(c.result, (Top, Panicked)):
        R.fail(rule_t, inst, "unanalysable / panicking cell: %r" % (c.result,), where)
        return
    feeds = [e[2][0] for e in c.log if e[0] == "ext" and e[1] == W.FEED]
    cancels = W.cancel_events(c)
    verdicts = [e for e in c.log if e[0] == "verdict"]
    res = strip(c.result)
    problems = []
    if len(feeds) != 1:
        problems.append("%d feed() calls per call, expected exactly 1 (a second feed() moves the iterator so that the "
                        "cancellation no longer refers to the judged entry)" % len(feeds))
    if kind == "end":
        if not (isinstance(res, Adt) and res.variant == "None"):
            problems.append("end of input yields %r" % (res,))
        if cancels or verdicts:
            problems.append("verdict / cancellation at end of input")
    elif kind == "filtrate-err":
        inner = _unwrap(res, ["Some"])
        state, payload = W.classify(inner)
        e = strip(payload.fields.get("0")) if isinstance(payload, Adt) and payload.variant == "Err" else None
        if not (state == "filtrate" and isinstance(e, Sym) and e.name == "error"):
            problems.append("an error item becomes %r, expected the same error as filtrate" % (inner,))
        if verdicts:
            problems.append("the verdict function is applied to an error item")
        if cancels:
            problems.append("an error item triggers a cancellation")
    else:
        inner = _unwrap(res, ["Some"])
        state0 = "filtrate" if kind == "filtrate-ok" else kind
        got, payload = W.classify(inner)
        want = W.expected_state(state0, verdict)
        if got == "filtrate" and wrapped:
            payload = strip(payload.fields.get("0")) if isinstance(payload, Adt) and payload.variant == "Ok" else payload
        if got != want:
            problems.append("state becomes %s, expected %s" % (got, want))
        if not (isinstance(payload, Sym) and payload.name == "entry"):
            problems.append("payload is %r, expected the same entry" % (payload,))
        if len(verdicts) != 1:
            problems.append("verdict applied %d times, expected once for filtrate and residue alike" % len(verdicts))
        wantc = W.expected_cancels(state0, verdict)
        if len(cancels) != wantc:
            problems.append("%d cancellation(s), expected %d" % (len(cancels), wantc))
        if cancels and feeds and cancels[0] != feeds[0]:
            problems.append("cancellation goes to %s but the entry came from %s" % (cancels[0], feeds[0]))
    if problems:
        R.fail(rule_t, inst, "; ".join(problems), where)
    else:
        R.ok(rule_t, inst, "one feed() on %s; verdict %s on %s handled per lattice; cancellation target = fed iterator" % (
            feeds[0] if feeds else "?", verdict, kind), where)
