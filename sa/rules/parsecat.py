"""C01.parse and its siblings: wax's parser evaluated from its THIR on a catalogue of expression texts, against the
reference reading of the README in parseref.py.

`token::parse::parse` is evaluated by the THIR evaluator with every nom / pori combinator it is written with replaced by
the model in sa/nommodel.py (tag, alt, many0/1, delimited, tuple, preceded, terminated, separated_list1, value, peek,
verify, opt, map, map_res, escaped_transform, is_not, none_of, all_consuming, eof, digit1, pori::span, the stateful
located input).  Everything that is wax's own - which combinators are composed in which order, the closures that build
tokens, the flag state threaded through the input, the beginning-of-expression test - comes from the THIR.  Nothing of
wax is compiled or run.  For each text the outcome (accepted / rejected), the token tree (kinds, literal text after
unescaping, case flag in force at each literal, class members and negation, bounds, which separators a tree wildcard
absorbed) and every annotation (byte span) are compared with the reference.

Results are cached under .cache/parsecat keyed by the facts file and the evaluator sources."""
import hashlib
import json
import os
import sys

from ..teval import Interp, strip, Adt, Tup, RList, Char, StrB, Sym
from .. import nommodel as N
from . import parseref

CACHE = os.path.join(os.path.dirname(os.path.dirname(os.path.dirname(os.path.abspath(__file__)))), ".cache", "parsecat")


def _text(v):
    v = strip(v)
    if isinstance(v, str):
        return v
    if isinstance(v, StrB) and v.is_concrete():
        return v.concrete()
    if isinstance(v, Char):
        return v.c
    if isinstance(v, Adt) and v.variant in ("Borrowed", "Owned"):
        return _text(v.fields["0"])
    raise ValueError("text %r" % (v,))


def _list(v):
    v = strip(v)
    if isinstance(v, RList):
        return v.items
    if isinstance(v, Adt) and "0" in v.fields:
        return _list(v.fields["0"])
    raise ValueError("list %r" % (v,))


def _unwrap(v, *variants):
    """Looks through single-field wrappers (Topology::Leaf(LeafKind::Literal(..)))."""
    v = strip(v)
    while isinstance(v, Adt) and v.variant in variants and "0" in v.fields:
        v = strip(v.fields["0"])
    return v


def convert(tok, path, spans):
    """evaluator Token value -> (reference-shaped tree); appends (path, start, length) to spans."""
    tok = strip(tok)
    if not (isinstance(tok, Adt) and tok.path.endswith("Token")):
        raise ValueError("not a token: %r" % (tok,))
    ann = strip(tok.fields["annotation"])
    if isinstance(ann, Tup):
        spans.append((path, strip(ann.items[0]), strip(ann.items[1])))
    else:
        spans.append((path, None, None))
    top = strip(tok.fields["topology"])
    kind = strip(top.fields["0"])        # LeafKind::X(..) / BranchKind::X(..)
    inner = strip(kind.fields["0"]) if "0" in kind.fields else None
    k = kind.variant
    if k == "Literal":
        return ("lit", _text(inner.fields["text"]), strip(inner.fields["is_case_insensitive"]))
    if k == "Separator":
        return ("sep",)
    if k == "Wildcard":
        if inner.variant == "One":
            return ("one",)
        if inner.variant == "ZeroOrMore":
            ev = strip(inner.fields["0"])
            return ("zom", ev.variant.lower())
        if inner.variant == "Tree":
            return ("tree", strip(inner.fields["has_root"]))
        raise ValueError("wildcard %r" % (inner,))
    if k == "Class":
        arch = []
        for a in _list(inner.fields["archetypes"]):
            a = strip(a)
            if a.variant == "Character":
                arch.append(("c", _text(a.fields["0"])))
            else:
                arch.append(("r", _text(a.fields["0"]), _text(a.fields["1"])))
        return ("class", strip(inner.fields["is_negated"]), arch)
    if k == "Concatenation":
        return ("cat", [convert(t, path + (i,), spans) for i, t in enumerate(_list(inner))])
    if k == "Alternation":
        # every branch is a sub-glob; the reference numbers branches the same way
        return ("alt", [convert(t, path + (i,), spans) for i, t in enumerate(_list(inner))])
    if k == "Repetition":
        up = strip(inner.fields["upper"])
        up = None if up.variant == "None" else strip(up.fields["0"])
        body = inner.fields["token"]
        return ("rep", convert(body, path + (0,), spans), strip(inner.fields["lower"]), up)
    raise ValueError("token kind %r" % (k,))


def jsonable(x):
    if isinstance(x, tuple):
        return [jsonable(y) for y in x]
    if isinstance(x, list):
        return [jsonable(y) for y in x]
    return x


def evaluate(F, it, err_item, text):
    """-> {"outcome": "ok", "tree": .., "spans": [..]} | {"outcome": "reject"} | {"outcome": "unanalysable", "why": ..}"""
    stubs = N.stubs()
    if err_item is not None:
        stubs[err_item.qname] = lambda I, a, fn, e: Adt("parse-error", "ParseError", {})
    I = Interp(F, stubs, fuel=2000000)
    try:
        cases = I.explore(lambda: I.call_item(it, [text], inst=False))
    except RecursionError:
        return {"outcome": "unanalysable", "why": "recursion limit"}
    if I.tops:
        return {"outcome": "unanalysable", "why": str(I.tops[0])[:300]}
    if len(cases) != 1:
        return {"outcome": "unanalysable", "why": "%d outcomes for a concrete text (%s)" % (len(cases), [c.decided() for c in cases][:2])}
    r = strip(cases[0].result)
    if isinstance(r, Adt) and r.variant == "Err":
        return {"outcome": "reject"}
    if not (isinstance(r, Adt) and r.variant == "Ok"):
        return {"outcome": "unanalysable", "why": "result %r" % (r,)}
    tz = strip(r.fields["0"])
    if text == "":
        # the empty expression: Token::empty (a constant); only the outcome is compared
        return {"outcome": "ok", "tree": ["cat", []], "spans": [], "expression": ""}
    try:
        spans = []
        tree = convert(tz.fields["token"], (), spans)
        expr = _text(tz.fields["expression"])
    except (ValueError, KeyError, AttributeError) as ex:
        return {"outcome": "unanalysable", "why": "result shape: %s" % (str(ex)[:200],)}
    return {"outcome": "ok", "tree": jsonable(tree), "spans": [[list(p), s, l] for p, s, l in spans], "expression": expr}


def _sources_hash():
    h = hashlib.sha256()
    base = os.path.dirname(os.path.dirname(os.path.abspath(__file__)))
    for rel in ("teval.py", "models.py", "nommodel.py", "rules/parsecat.py", "rules/parseref.py"):
        with open(os.path.join(base, rel), "rb") as f:
            h.update(f.read())
    return h.hexdigest()[:16]


def _worker(args):
    F, it, err_item, texts = args
    return [(t, evaluate(F, it, err_item, t)) for t in texts]


def judged(F, tier="quick"):
    """{text: evaluation} for the whole catalogue of the tier (cached; computed on all cores with fork)."""
    texts = parseref.catalogue(tier)
    key = "%s-%s-%s" % (os.path.basename(F.path).replace(".json", ""), tier, _sources_hash())
    os.makedirs(CACHE, exist_ok=True)
    cp = os.path.join(CACHE, key + ".json")
    if os.path.exists(cp):
        try:
            with open(cp) as f:
                d = json.load(f)
            if set(d) == set(texts):
                return d
        except Exception:
            pass
    it = F.find("token::parse::parse", optional=True)
    if it is None:
        return None
    err_item = None
    for cand in F.items.values():
        if cand.qname.startswith("token::parse::ParseError") and cand.name == "new":
            err_item = cand
    sys.setrecursionlimit(20000)
    import multiprocessing as mp
    n = min(16, os.cpu_count() or 4)
    chunks = [texts[i::n * 4] for i in range(n * 4)]
    global _G
    _G = (F, it, err_item)
    ctx = mp.get_context("fork")
    with ctx.Pool(n) as pool:
        parts = pool.map(_chunk, chunks)
    d = {}
    for p in parts:
        for t, r in p:
            d[t] = r
    tmp = cp + ".%d.tmp" % os.getpid()
    with open(tmp, "w") as f:
        json.dump(d, f)
    os.replace(tmp, cp)
    return d


_G = None


def _chunk(texts):
    F, it, err_item = _G
    return [(t, evaluate(F, it, err_item, t)) for t in texts]


def compare(text, ev, default_ci=False):
    """-> list of (aspect, message) deviations of the evaluated parser from the reference reading; [] when they agree;
    None when the reference does not care."""
    ref = parseref.read(text, default_ci)
    if ref == parseref.DONTCARE:
        return None
    if ev["outcome"] == "unanalysable":
        return [("unanalysable", "the parser could not be evaluated on `%s`: %s" % (text, ev["why"]))]
    if ref == parseref.REJECT:
        if ev["outcome"] == "ok":
            return [("accepts", "`%s` is not in the documented syntax but the parser accepts it as %s" % (text, show(ev["tree"])))]
        return []
    tree, spans = ref
    if ev["outcome"] == "reject":
        return [("rejects", "`%s` is in the documented syntax (%s) but the parser rejects it" % (text, show(jsonable(tree))))]
    out = []
    if ev["tree"] != jsonable(tree):
        out.append(("tokens", "`%s` is parsed as %s, the documented reading is %s" % (text, show(ev["tree"]), show(jsonable(tree)))))
        return out
    if ev.get("expression") != text:
        out.append(("expression", "the token tree of `%s` is stored with the expression `%s`" % (text, ev.get("expression"))))
    want = {tuple(p): (s0, s1, e) for p, s0, s1, e in spans}
    tb = text.encode()
    for p, s, l in ev["spans"]:
        w = want.get(tuple(p))
        if w is None:
            continue
        s0, s1, e = w
        good = isinstance(s, int) and isinstance(l, int) and s in (s0, s1) and s + l == e
        if not good:
            got = tb[s:s + l].decode(errors="replace") if isinstance(s, int) and isinstance(l, int) else "?"
            out.append(("span", "in `%s` the token at %s is annotated (%r, %r) = `%s`; its text is `%s` (bytes %d..%d%s)" % (
                text, list(p), s, l, got, tb[s1:e].decode(errors="replace"), s1, e, ", or from %d with its flags" % s0 if s0 != s1 else "")))
            break
    return out


def show(t):
    k = t[0]
    if k == "cat":
        return "".join(show(x) for x in t[1]) if t[1] else "<empty>"
    if k == "lit":
        return "%s'%s'" % ("i" if t[2] else "", t[1])
    if k == "sep":
        return "/"
    if k == "one":
        return "?"
    if k == "zom":
        return "*" if t[1] == "eager" else "$"
    if k == "tree":
        return "(/**)" if t[1] else "(**)"
    if k == "class":
        return "[%s%s]" % ("!" if t[1] else "", "".join(a[1] if a[0] == "c" else "%s-%s" % (a[1], a[2]) for a in t[2]))
    if k == "alt":
        return "{%s}" % ",".join(show(x) for x in t[1])
    if k == "rep":
        return "<%s:%s,%s>" % (show(t[1]), t[2], "" if t[3] is None else t[3])
    return repr(t)


ASPECT_TEXT = {
    "tokens": "the token tree the parser builds is the documented reading of the text (kinds, literal text after unescaping, the case "
              "flag in force at each literal, class members and negation, bounds, separators absorbed by tree wildcards)",
    "accepts": "a text outside the documented syntax is rejected",
    "rejects": "a text in the documented syntax is accepted",
    "span": "every token's annotation is the byte span of its text in the expression (optionally from its preceding flags)",
    "expression": "the stored expression is the text that was parsed",
}


def report(F, R, rule, tier, aspects, floor, default_ci=False, max_reports=6):
    """Runs the catalogue (cached) and records one obligation per text and per requested aspect."""
    d = judged(F, tier)
    if d is None:
        R.anchor_missing(rule, "token::parse::parse")
        return
    n = 0
    per_aspect = {}
    for text in sorted(d):
        dev = compare(text, d[text], default_ci)
        if dev is None:
            continue
        n += 1
        mine = [(a, m) for a, m in dev if a in aspects or a == "unanalysable"]
        if not mine:
            R.ok(rule, "`%s`" % text, "parsed as documented" if d[text]["outcome"] == "ok" else "rejected as documented", "src/token/parse.rs", sample=(n % 997 == 1))
            continue
        for a, m in mine:
            per_aspect.setdefault(a, []).append((text, m))
    for a, lst in per_aspect.items():
        lst.sort(key=lambda x: (len(x[0]), x[0]))
        for text, m in lst[:max_reports]:
            R.fail(rule, "%s:%s~%s" % (a, text, hashlib.sha1(text.encode()).hexdigest()[:6]), m + (" [%d texts of the catalogue deviate in this way; the shortest are reported]" % len(lst) if len(lst) > max_reports else ""), "src/token/parse.rs")
        for text, m in lst[max_reports:]:
            R.obligations.append((rule, "%s:%s" % (a, text), False, m))
    R.floor(rule, "catalogue texts compared with the documented reading", n, floor)
    R.count("parser catalogue texts", n)


# ---------------------------------------------------------------------------------------------------------------------
# C08.text: parse, then partition, both evaluated from THIR, on texts with invariant prefixes

PREFIXES = ["a", "ab/cd", "é/b", "a/b/c", "(?-i)photos", "(?-i)a/(?-i)b", "(?i)1/2", "(?-i)a/(?i)1", "a/(?-i)b", "\\*a", "a\\,b/c", "{a}", "{a/b}", "<a:2>",
            "<a/:2>b", "a/[b]", "/a", "/a/b", "/(?-i)a", "..", "../a", "./a", "a/..", "愛/グ"]
POSTFIXES = ["*", "**", "**/x", "*.rs", "(?i)*.x", "(?i){jpg,jpeg}", "?", "[ab]", "{a,b}", "<x:1,>", "(?-i)*", "$a", "**/*.(?i){jpg,jpeg}", "x*", "{a,b}/c", "(?i)b*",
             "b(?i)c*", "*/(?-i)d"]


def partition_texts():
    out = []
    for p in PREFIXES:
        out.append(p)
        for q in POSTFIXES:
            out.append(p + "/" + q)
            if not q.startswith("**"):
                out.append(p + q)
    for q in POSTFIXES:
        out.append(q)
        out.append("/" + q)
    return sorted(set(out))


def _expr_text(v):
    v = strip(v)
    if isinstance(v, Adt) and v.variant in ("Borrowed", "Owned"):
        v = strip(v.fields["0"])
    return _text(v)


def partition_case(F, parse_item, err_item, part_item, part_inst, text, owned):
    """-> None (the parser rejects the text) | {"problems": [...]} | {"unanalysable": why}"""
    stubs = N.stubs()
    if err_item is not None:
        stubs[err_item.qname] = lambda I, a, fn, e: Adt("parse-error", "ParseError", {})
    I = Interp(F, stubs, fuel=2000000)
    cases = I.explore(lambda: I.call_item(parse_item, [text], inst=False))
    if I.tops or len(cases) != 1:
        return {"unanalysable": "parse: %s" % (I.tops[:1] or len(cases),)}
    r = strip(cases[0].result)
    if not (isinstance(r, Adt) and r.variant == "Ok"):
        return None
    tz = strip(r.fields["0"])
    try:
        spans0 = []
        tree0 = convert(tz.fields["token"], (), spans0)
    except (ValueError, KeyError, AttributeError) as ex:
        return {"unanalysable": "parse result: %s" % ex}
    if owned:
        tz.fields["expression"] = Adt("std::borrow::Cow", "Owned", {"0": text})
    I2 = Interp(F, fuel=2000000)
    cases = I2.explore(lambda: I2.call_item(part_item, [tz], inst=part_inst))
    if I2.tops or len(cases) != 1:
        return {"unanalysable": "partition: %s" % (I2.tops[:1] or len(cases),)}
    res = strip(cases[0].result)
    if not (isinstance(res, Tup) and len(res.items) == 2):
        return {"unanalysable": "partition result %r" % (res,)}
    prefix, rest = strip(res.items[0]), strip(res.items[1])
    try:
        prefix = _text(prefix)
    except ValueError:
        return {"unanalysable": "prefix %r" % (prefix,)}
    top0 = tree0[1]
    span_of = {tuple(p): (s, l) for p, s, l in spans0}
    tb = text.encode()
    problems = []
    if not (isinstance(rest, Adt) and rest.variant in ("Some", "None")):
        return {"unanalysable": "postfix %r" % (rest,)}
    if rest.variant == "None":
        return {"problems": [], "prefix": prefix, "postfix": None}
    tzn = strip(rest.fields["0"])
    try:
        new_expr = _expr_text(tzn.fields["expression"])
        spans1 = []
        tree1 = convert(tzn.fields["token"], (), spans1)
    except (ValueError, KeyError, AttributeError) as ex:
        return {"unanalysable": "postfix shape: %s" % ex}
    nb = new_expr.encode()
    if not tb.endswith(nb):
        problems.append("the postfix is displayed as `%s`, which is not a suffix of `%s`" % (new_expr, text))
    top1 = tree1[1]
    npop = len(top0) - len(top1)
    if npop < 0 or [strip_root(t) for t in top0[npop:]] != [strip_root(t) for t in top1]:
        problems.append("the postfix tokens %s are not the remaining tokens of %s" % (show(tree1), show(tree0)))
        return {"problems": problems, "prefix": prefix, "postfix": new_expr}
    span1 = {tuple(p): (s, l) for p, s, l in spans1}
    for i in range(len(top1)):
        o = span_of.get((npop + i,))
        n_ = span1.get((i,))
        if o is None or n_ is None or not all(isinstance(x, int) for x in o + n_):
            problems.append("token %d of the postfix has no concrete span (%r -> %r)" % (i, o, n_))
            break
        old = tb[o[0]:o[0] + o[1]]
        new = nb[n_[0]:n_[0] + n_[1]] if n_[0] + n_[1] <= len(nb) else None
        unrooted = i == 0 and top0[npop][0] == "tree" and top0[npop][1] is True and top1[0][1] is False
        ok_ = new is not None and (new == old or (unrooted and old.endswith(new) and len(old) - len(new) == 1))
        if not ok_:
            problems.append("token %d of the postfix `%s` is annotated (%d, %d) = `%s`; in `%s` it was (%d, %d) = `%s`" % (
                i, new_expr, n_[0], n_[1], "out of range" if new is None else new.decode(errors="replace"), text, o[0], o[1], old.decode(errors="replace")))
            break
    # what Display writes for the postfix, built again: the same tokens with the same annotations (the case flags of
    # literals are not compared: a flag written among the popped tokens is lost for the displayed postfix, recorded as
    # not decided under C08)
    if not problems:
        ev = evaluate(F, parse_item, err_item, new_expr)
        if ev["outcome"] == "unanalysable":
            return {"unanalysable": "re-parse of `%s`: %s" % (new_expr, ev["why"])}
        if ev["outcome"] == "reject":
            problems.append("the postfix is displayed as `%s`, which the parser rejects" % new_expr)
        elif no_case(ev["tree"]) != no_case(jsonable(tree1)):
            problems.append("the postfix is displayed as `%s`, which reads as %s; its tokens are %s" % (new_expr, show(ev["tree"]), show(jsonable(tree1))))
        else:
            again = {tuple(p): (s_, l_) for p, s_, l_ in ev["spans"]}
            for p_, (s_, l_) in sorted(span1.items()):
                if p_ == ():
                    continue    # the annotation of the whole expression is not observable (captures are its tokens)
                if again.get(p_) != (s_, l_):
                    problems.append("in the postfix `%s` the token at %s is annotated (%r, %r); building the displayed text gives %r" % (new_expr, list(p_), s_, l_, again.get(p_)))
                    break
    return {"problems": problems, "prefix": prefix, "postfix": new_expr}


def no_case(t):
    if isinstance(t, (list, tuple)):
        if t and t[0] == "lit":
            return ["lit", t[1]]
        return [no_case(x) for x in t]
    return t


def strip_root(t):
    return ("tree", False) if t[0] == "tree" else t


def report_partition(F, R, rule):
    """C08.text: for texts with an invariant prefix (flags before and inside the prefix, escapes, multi-byte text, invariant
    groups, rooted and `..` prefixes) in front of variant postfixes, the parser and Tokenized::partition are both evaluated
    from their THIR, borrowed and owned: the expression of the postfix is a suffix of the text, its tokens are the
    remaining tokens, and every remaining token's span delimits in the new expression the text it delimited before."""
    parse_item = F.find("token::parse::parse", optional=True)
    part_item = F.find("token::Tokenized::partition", optional=True)
    if parse_item is None or part_item is None:
        R.anchor_missing(rule, "token::parse::parse / token::Tokenized::partition")
        return
    insts = F.instances_of(part_item)
    err_item = None
    for cand in F.items.values():
        if cand.qname.startswith("token::parse::ParseError") and cand.name == "new":
            err_item = cand
    import sys as _sys
    _sys.setrecursionlimit(20000)
    global _PG
    _PG = (F, parse_item, err_item, part_item, (insts or [False])[0])
    jobs = [(t, o) for t in partition_texts() for o in (False, True)]
    import multiprocessing as mp
    nproc = min(16, os.cpu_count() or 4)
    with mp.get_context("fork").Pool(nproc) as pool:
        results = pool.map(_pjob, jobs, chunksize=16)
    n = 0
    bad = []
    for (text, owned), c in zip(jobs, results):
        if c is None:
            continue
        n += 1
        name = "`%s`%s" % (text, "/owned" if owned else "")
        if "unanalysable" in c:
            bad.append((name, "parse + partition of `%s` could not be evaluated: %s" % (text, c["unanalysable"])))
        elif c["problems"]:
            bad.append((name, "; ".join(c["problems"])))
        else:
            R.ok(rule, name, "prefix `%s`, postfix `%s`: a suffix of the text with the same token texts" % (c["prefix"], c["postfix"]), part_item.where(), sample=(n % 211 == 1))
    bad.sort(key=lambda x: (len(x[0]), x[0]))
    for name, msg in bad[:8]:
        R.fail(rule, name, msg + (" [%d texts deviate; the shortest are reported]" % len(bad) if len(bad) > 8 else ""), part_item.where())
    for name, msg in bad[8:]:
        R.obligations.append((rule, name, False, msg))
    R.floor(rule, "texts parsed and partitioned", n, 1500)


_PG = None


def _pjob(job):
    text, owned = job
    F, parse_item, err_item, part_item, inst = _PG
    try:
        return partition_case(F, parse_item, err_item, part_item, inst, text, owned)
    except RecursionError:
        return {"unanalysable": "recursion limit"}


# ---------------------------------------------------------------------------------------------------------------------
# C01.text: from the text to the language of the program, end to end

_TG = None


def _tjob(text):
    from . import exhaust
    F, J, parse_item, err_item = _TG
    stubs = N.stubs()
    if err_item is not None:
        stubs[err_item.qname] = lambda I, a, fn, e: Adt("parse-error", "ParseError", {})
    I = Interp(F, stubs, fuel=2000000)
    try:
        cases = I.explore(lambda: I.call_item(parse_item, [text], inst=False))
    except RecursionError:
        return {"text": text, "status": "unanalysable", "what": "recursion limit in the parser"}
    if I.tops or len(cases) != 1:
        return {"text": text, "status": "unanalysable", "what": "the parser: %s" % (I.tops[:1] or len(cases),)}
    r = strip(cases[0].result)
    if not (isinstance(r, Adt) and r.variant == "Ok"):
        return {"text": text, "status": "rejected"}
    tz = strip(r.fields["0"])
    try:
        toks = list(_list(strip(strip(strip(tz.fields["token"]).fields["topology"]).fields["0"]).fields["0"]))
    except (ValueError, KeyError, AttributeError) as ex:
        return {"text": text, "status": "unanalysable", "what": "parse result shape: %s" % ex}
    try:
        return exhaust.judge_semantics(J, text, toks)
    except RecursionError:
        return {"text": text, "status": "unanalysable", "what": "recursion limit"}


def text_semantics_catalogue(tier):
    """Accepted-looking texts that carry what the token catalogue of C01.whole lacks: flags anywhere, classes, escapes,
    multi-byte text, the README's examples."""
    out = []
    for t in parseref.catalogue("quick"):
        if t == "" or len(t) > 24:
            continue
        if not any(x in t for x in ("(?", "[", "\\", "é", "愛", "$")):
            continue
        if parseref.read(t) in (parseref.REJECT, parseref.DONTCARE):
            continue
        out.append(t)
    if tier != "thorough":
        out = [t for i, t in enumerate(sorted(out)) if i % 3 == 0 or len(t) <= 8] + [t for t in parseref.EXTRA_OK if parseref.read(t) not in (parseref.REJECT, parseref.DONTCARE)]
    # outside the automaton construction: bounds of two digits; a descending class range (matches nothing: C05.syntax)
    import re as _re
    return sorted(t for t in set(out) if not _re.search(r"[0-9]{2}", t) and "z-a" not in t)


def judged_semantics(F, tier):
    from . import exhaust
    texts = text_semantics_catalogue(tier)
    h = hashlib.sha256(_sources_hash().encode())
    base = os.path.dirname(os.path.dirname(os.path.abspath(__file__)))
    for rel in ("rules/exhaust.py", "rules/encoder.py", "rx.py", "rxc.py", "rules/tokens.py"):
        with open(os.path.join(base, rel), "rb") as f:
            h.update(f.read())
    key = "sem-%s-%s-%s" % (os.path.basename(F.path).replace(".json", ""), tier, h.hexdigest()[:16])
    os.makedirs(CACHE, exist_ok=True)
    cp = os.path.join(CACHE, key + ".json")
    if os.path.exists(cp) and os.environ.get("VERIF_NO_CACHE") != "1":
        try:
            with open(cp) as f:
                d = json.load(f)
            if [r["text"] for r in d] == texts:
                return d
        except Exception:
            pass
    parse_item = F.find("token::parse::parse", optional=True)
    if parse_item is None:
        return None
    err_item = None
    for cand in F.items.values():
        if cand.qname.startswith("token::parse::ParseError") and cand.name == "new":
            err_item = cand
    global _TG
    _TG = (F, exhaust.Judge(F), parse_item, err_item)
    sys.setrecursionlimit(20000)
    import multiprocessing as mp
    with mp.get_context("fork").Pool(min(16, os.cpu_count() or 4)) as pool:
        d = pool.map(_tjob, texts, chunksize=8)
    tmp = cp + ".%d.tmp" % os.getpid()
    with open(tmp, "w") as f:
        json.dump(d, f)
    os.replace(tmp, cp)
    return d


def report_semantics(F, R, rule, tier, floor):
    """C01.text: for texts with flags, classes, escapes and multi-byte characters the whole route - parser (THIR, nom
    model), rule checker, encode::compile - is evaluated and the program text it arrives at is compared, as an
    automaton, with the language the README gives to the tokens (exhaust.reference_regex: literals under their own case
    flag, classes case-sensitive and separator-free, ...)."""
    d = judged_semantics(F, tier)
    if d is None:
        R.anchor_missing(rule, "token::parse::parse")
        return
    n = decided = 0
    bad = []
    for r in d:
        n += 1
        st = r.get("status")
        if st in ("sound", "explained"):
            decided += 1
            R.ok(rule, "`%s`" % r["text"], r.get("verdict", ""), "src/encode.rs", sample=(decided % 199 == 1))
        elif st == "unsound":
            decided += 1
            bad.append((r["text"], "`%s`: %s (program %s, reference %s)" % (r["text"], r.get("why"), r.get("pattern"), r.get("reference"))))
        elif st == "unanalysable":
            bad.append((r["text"], "`%s` could not be evaluated: %s" % (r["text"], r.get("what"))))
    bad.sort(key=lambda x: (len(x[0]), x[0]))
    for text, msg in bad[:8]:
        R.fail(rule, "%s~%s" % (text, hashlib.sha1(text.encode()).hexdigest()[:6]), msg + (" [%d texts deviate; the shortest are reported]" % len(bad) if len(bad) > 8 else ""), "src/encode.rs")
    for text, msg in bad[8:]:
        R.obligations.append((rule, text, False, msg))
    R.floor(rule, "texts taken from the parser to the program", n, floor)
    R.floor(rule, "texts whose program was compared with the reference language", decided, floor // 3)


# ---------------------------------------------------------------------------------------------------------------------
# C06.text: the rule checker on parsed texts: two groups around a middle, groups in groups

RULE_GROUPS = ["{a/}", "{/a}", "{a/,b}", "{a,/b}", "<a/:2>", "</a:2>", "<a/:1,>", "</a:1,>", "{a}", "<a:2>", "{a*,b}", "{*a,b}"]


def rule_texts():
    out = set()
    for g1 in RULE_GROUPS:
        for g2 in RULE_GROUPS:
            for mid in ("", "x", "/", "*"):
                for pre in ("", "x", "x/"):
                    for post in ("", "y", "/y"):
                        out.add(pre + g1 + mid + g2 + post)
    for g in RULE_GROUPS:
        for w in ("{%s,b}", "{b,%s}", "<%s:2>", "<%s:1,>", "<%s>", "<%sc/:2>", "<%sc:2>", "</c%s:2>", "<%s/:1,>", "{%sc,d}", "{c%s,d}"):
            for pre in ("", "x", "x/"):
                for post in ("", "y", "/y"):
                    out.add(pre + (w % g) + post)
    return sorted(t for t in out if parseref.read(t) not in (parseref.REJECT, parseref.DONTCARE))


_RG = None


def _rjob(text):
    from . import exhaust
    F, J, parse_item, err_item = _RG
    stubs = N.stubs()
    if err_item is not None:
        stubs[err_item.qname] = lambda I, a, fn, e: Adt("parse-error", "ParseError", {})
    I = Interp(F, stubs, fuel=2000000)
    try:
        cases = I.explore(lambda: I.call_item(parse_item, [text], inst=False))
        if I.tops or len(cases) != 1:
            return {"text": text, "status": "unanalysable", "what": "the parser: %s" % (I.tops[:1] or len(cases),)}
        r = strip(cases[0].result)
        if not (isinstance(r, Adt) and r.variant == "Ok"):
            return {"text": text, "status": "unanalysable", "what": "the parser rejects a text of the documented syntax"}
        tz = strip(r.fields["0"])
        toks = list(_list(strip(strip(strip(tz.fields["token"]).fields["topology"]).fields["0"]).fields["0"]))
        r = exhaust.judge_rules(J, text, toks)
        if r.get("verdict") == "accepted":
            r["has_root"] = J.has_root(J.tree(toks))
        return r
    except RecursionError:
        return {"text": text, "status": "unanalysable", "what": "recursion limit"}
    except (ValueError, KeyError, AttributeError) as ex:
        return {"text": text, "status": "unanalysable", "what": "parse result shape: %s" % ex}


def judged_rules(F):
    from . import exhaust
    texts = rule_texts()
    h = hashlib.sha256(_sources_hash().encode())
    base = os.path.dirname(os.path.dirname(os.path.abspath(__file__)))
    for rel in ("rules/exhaust.py", "rules/tokens.py"):
        with open(os.path.join(base, rel), "rb") as f:
            h.update(f.read())
    key = "rules-%s-%s" % (os.path.basename(F.path).replace(".json", ""), h.hexdigest()[:16])
    os.makedirs(CACHE, exist_ok=True)
    cp = os.path.join(CACHE, key + ".json")
    if os.path.exists(cp) and os.environ.get("VERIF_NO_CACHE") != "1":
        try:
            with open(cp) as f:
                d = json.load(f)
            if [r["text"] for r in d] == texts:
                return d
        except Exception:
            pass
    parse_item = F.find("token::parse::parse", optional=True)
    if parse_item is None:
        return None
    err_item = None
    for cand in F.items.values():
        if cand.qname.startswith("token::parse::ParseError") and cand.name == "new":
            err_item = cand
    global _RG
    _RG = (F, exhaust.Judge(F), parse_item, err_item)
    sys.setrecursionlimit(20000)
    import multiprocessing as mp
    with mp.get_context("fork").Pool(min(16, os.cpu_count() or 4)) as pool:
        d = pool.map(_rjob, texts, chunksize=8)
    tmp = cp + ".%d.tmp" % os.getpid()
    with open(tmp, "w") as f:
        json.dump(d, f)
    os.replace(tmp, cp)
    return d


RULE_FAMILY_CEILINGS = {"rooted-through-a-nested-group": 24, "wrap-around-through-a-nested-group": 40}


def rule_family(r):
    """Known deviation families of the rule checker (KNOWN_FINDINGS.txt), by what the documented rules say."""
    if r.get("verdict") == "accepted" and "can root the expression" in (r.get("why") or ""):
        return "rooted-through-a-nested-group"
    if r.get("verdict") == "accepted" and "two component boundaries become adjacent" in (r.get("why") or ""):
        return "wrap-around-through-a-nested-group"
    return None


def report_rules(F, R, rule):
    """C06.text: the rule checker (its four rule functions, THIR) on texts taken through the parser (THIR, nom model):
    two groups around nothing / a literal / a separator / a wildcard with every combination of leading and trailing
    separators, and groups inside groups (~6 400 texts), against the documented rules computed by expansion
    (exhaust.documented_verdict), both directions."""
    d = judged_rules(F)
    if d is None:
        R.anchor_missing(rule, "token::parse::parse")
        return
    n = 0
    fam = {}
    bad = []
    for r in d:
        n += 1
        st = r.get("status")
        if st == "sound":
            R.ok(rule, "`%s`" % r["text"], r.get("verdict", ""), "src/rule.rs", sample=(n % 499 == 1))
        elif st == "unsound":
            f = rule_family(r)
            if f:
                fam.setdefault(f, []).append(r)
            else:
                bad.append((r["text"], "`%s` is %s by the rule checker; %s" % (r["text"], r.get("verdict"), r.get("why"))))
        elif st == "unanalysable":
            bad.append((r["text"], "`%s` could not be judged: %s" % (r["text"], r.get("what"))))
    for f, lst in sorted(fam.items()):
        lst.sort(key=lambda r: (len(r["text"]), r["text"]))
        ex = ", ".join("`%s`" % r["text"] for r in lst[:4])
        R.fail(rule, "group:" + f, "%d text(s) of the catalogue build although the documented rules reject them (%s), e.g. %s" % (len(lst), lst[0].get("why"), ex), "src/rule.rs")
        for r in lst[1:]:
            R.obligations.append((rule, "`%s`" % r["text"], False, f))
        ceil = RULE_FAMILY_CEILINGS.get(f, 0)
        R.check(len(lst) <= ceil, rule, "group-size:" + f, "the known family has at most %d members (it has %d)" % (ceil, len(lst)), "src/rule.rs",
                fail_msg="the known family `%s` grew from at most %d to %d texts: a further deviation inside it, e.g. %s" % (f, ceil, len(lst), ex))
    bad.sort(key=lambda x: (len(x[0]), x[0]))
    for text, msg in bad[:8]:
        R.fail(rule, "%s~%s" % (text, hashlib.sha1(text.encode()).hexdigest()[:6]), msg + (" [%d texts deviate; the shortest are reported]" % len(bad) if len(bad) > 8 else ""), "src/rule.rs")
    for text, msg in bad[8:]:
        R.obligations.append((rule, text, False, msg))
    R.floor(rule, "texts judged by the rule checker and by the documented rules", n, 6000)


def report_sometimes(F, R, rule):
    """C12.text: on the ~3 700 texts of the C06.text catalogue that the rule checker accepts, Token::has_root never
    answers `sometimes` (a glob is rooted or it is not)."""
    d = judged_rules(F)
    if d is None:
        R.anchor_missing(rule, "token::parse::parse")
        return
    n = 0
    some_ = []
    for r in d:
        if r.get("verdict") != "accepted" or r.get("status") == "unanalysable":
            continue
        n += 1
        hr = r.get("has_root")
        if hr is None:
            R.fail(rule, "`%s`" % r["text"], "Token::has_root could not be evaluated on `%s`" % r["text"], "src/token/mod.rs")
        elif hr == "Sometimes":
            some_.append(r["text"])
        else:
            R.ok(rule, "`%s`" % r["text"], "has_root = %s" % hr, "src/token/mod.rs", sample=(n % 499 == 1))
    if some_:
        some_.sort(key=lambda t: (len(t), t))
        R.fail(rule, "group:sometimes-through-a-nested-group", "%d buildable text(s) report has_root = sometimes, e.g. %s" % (
            len(some_), ", ".join("`%s`" % t for t in some_[:4])), "src/token/mod.rs")
        for t in some_[1:]:
            R.obligations.append((rule, "`%s`" % t, False, "sometimes"))
        R.check(len(some_) <= 24, rule, "group-size:sometimes-through-a-nested-group", "at most 24 members (%d)" % len(some_), "src/token/mod.rs",
                fail_msg="the known family grew from at most 24 to %d texts, e.g. %s" % (len(some_), ", ".join("`%s`" % t for t in some_[:6])))
    R.floor(rule, "buildable texts whose has_root verdict was read", n, 3500)


# ---------------------------------------------------------------------------------------------------------------------
# C09.text: exhaustiveness of alternations of alternations (and `any` of `any`), through the parser

def exhaustive_texts():
    import itertools
    subs = ["a/**", "**/b", "c/**", "d", "*", "**"]
    out = set()
    for x, y, z, w in itertools.product(subs, repeat=4):
        if "**" in (x, y, z, w) and (x, y, z, w).count("**") > 1:
            continue
        out.add("{{%s,%s},{%s,%s}}" % (x, y, z, w))
        out.add("x/{{%s,%s},{%s,%s}}" % (x, y, z, w))
    for x, y, z in itertools.product(subs, repeat=3):
        out.add("{{%s,%s},%s}" % (x, y, z))
        out.add("{%s,{%s,%s}}" % (x, y, z))
        out.add("{{{%s,%s}},{{%s}}}" % (x, y, z))
    return sorted(t for t in out if parseref.read(t) not in (parseref.REJECT, parseref.DONTCARE))


_EG = None


def _ejob(text):
    from . import exhaust
    F, J, parse_item, err_item = _EG
    stubs = N.stubs()
    if err_item is not None:
        stubs[err_item.qname] = lambda I, a, fn, e: Adt("parse-error", "ParseError", {})
    I = Interp(F, stubs, fuel=2000000)
    try:
        cases = I.explore(lambda: I.call_item(parse_item, [text], inst=False))
        if I.tops or len(cases) != 1:
            return {"text": text, "status": "unanalysable", "what": "the parser: %s" % (I.tops[:1] or len(cases),)}
        r = strip(cases[0].result)
        if not (isinstance(r, Adt) and r.variant == "Ok"):
            return {"text": text, "status": "rejected"}
        tz = strip(r.fields["0"])
        toks = list(_list(strip(strip(strip(tz.fields["token"]).fields["topology"]).fields["0"]).fields["0"]))
        return exhaust.judge_one(J, text, toks)
    except RecursionError:
        return {"text": text, "status": "unanalysable", "what": "recursion limit"}
    except (ValueError, KeyError, AttributeError) as ex:
        return {"text": text, "status": "unanalysable", "what": "parse result shape: %s" % ex}


def report_exhaustive(F, R, rule):
    """C09.text: alternations whose alternatives are alternations themselves (exhaustive, non-exhaustive and mixed
    inner branches in every arrangement, bare and behind a prefix), taken through the parser: a verdict `always` of
    Token::is_exhaustive is compared with the language of the emitted program, as C09.sound does on its catalogue."""
    from . import exhaust
    texts = exhaustive_texts()
    h = hashlib.sha256(_sources_hash().encode())
    base = os.path.dirname(os.path.dirname(os.path.abspath(__file__)))
    for rel in ("rules/exhaust.py", "rules/tokens.py", "rx.py", "rxc.py"):
        with open(os.path.join(base, rel), "rb") as f:
            h.update(f.read())
    key = "exh-%s-%s" % (os.path.basename(F.path).replace(".json", ""), h.hexdigest()[:16])
    os.makedirs(CACHE, exist_ok=True)
    cp = os.path.join(CACHE, key + ".json")
    d = None
    if os.path.exists(cp) and os.environ.get("VERIF_NO_CACHE") != "1":
        try:
            with open(cp) as f:
                d = json.load(f)
            if [r["text"] for r in d] != texts:
                d = None
        except Exception:
            d = None
    if d is None:
        parse_item = F.find("token::parse::parse", optional=True)
        if parse_item is None:
            R.anchor_missing(rule, "token::parse::parse")
            return
        err_item = None
        for cand in F.items.values():
            if cand.qname.startswith("token::parse::ParseError") and cand.name == "new":
                err_item = cand
        global _EG
        _EG = (F, exhaust.Judge(F), parse_item, err_item)
        sys.setrecursionlimit(20000)
        import multiprocessing as mp
        with mp.get_context("fork").Pool(min(16, os.cpu_count() or 4)) as pool:
            d = pool.map(_ejob, texts, chunksize=8)
        tmp = cp + ".%d.tmp" % os.getpid()
        with open(tmp, "w") as f:
            json.dump(d, f)
        os.replace(tmp, cp)
    n = always = 0
    bad = []
    for r in d:
        st = r.get("status")
        if st == "rejected":
            continue
        n += 1
        if st == "sound":
            always += 1
            R.ok(rule, "`%s`" % r["text"], "always exhaustive, and every path beneath a matched path is matched", "src/token/variance/mod.rs", sample=(always % 97 == 1))
        elif st == "unsound":
            always += 1
            w = r.get("witness") or ["?", "?"]
            bad.append((r["text"], "`%s` reports that it is always exhaustive but matches `%s` and not `%s` beneath it (program %s)" % (r["text"], w[0], w[1], r.get("pattern"))))
        elif st == "unanalysable":
            bad.append((r["text"], "`%s` could not be judged: %s" % (r["text"], r.get("what"))))
        else:
            R.ok(rule, "`%s`" % r["text"], "verdict %s (nothing demanded)" % r.get("verdict"), "src/token/variance/mod.rs", sample=False)
    bad.sort(key=lambda x: (len(x[0]), x[0]))
    for text, msg in bad[:8]:
        R.fail(rule, "%s~%s" % (text, hashlib.sha1(text.encode()).hexdigest()[:6]), msg + (" [%d texts deviate; the shortest are reported]" % len(bad) if len(bad) > 8 else ""), "src/token/variance/mod.rs")
    for text, msg in bad[8:]:
        R.obligations.append((rule, text, False, msg))
    R.floor(rule, "buildable nested alternations judged", n, 1000)
    R.floor(rule, "of them with the verdict `always`", always, 50)
