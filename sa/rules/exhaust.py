"""Soundness of the exhaustiveness verdict on a catalogue of small expressions (C09.sound, used by C03).

For every token tree of the catalogue that the rule checker accepts:
  verdict  = Token::is_exhaustive, by evaluating the THIR of the whole fold (sequencer, terms, fold, finalize)
  language = the program text encode::compile produces for the same tree (THIR evaluation), turned into an automaton
             over a concrete alphabet (sa/rxc.py)
and `always` requires: every canonical path beneath a matched canonical path is matched.  Nothing is run; the
comparison is between two artefacts computed from the source.  The catalogue is finite: the rule decides soundness
for these shapes only (every shape of top-level sequences up to three segments with at most one branch token, whose
sub-expressions have up to two segments), which is where a flaw of the fold's case structure shows."""
import itertools
import re

from ..teval import (Adt, Ref, Place, Cell, Sym, Top, Panicked, strip, Interp, StrB, RList, ok, err, UNIT)
from ..facts import AnchorMissing
from .. import rxc, rx
from . import tokens as T


def lit(ch):
    t = T.leaf("lit", ch)
    strip(strip(strip(t.fields["topology"]).fields["0"]).fields["0"]).fields["text"] = ch
    return t


CLASS_ATOMS = {"[x]": (False, ["x"]), "[xy]": (False, ["x", "y"]), "[!x]": (True, ["x"]), "[x-z]": (False, [("x", "z")])}


def klass(negated, members, name):
    from ..teval import Char
    arch = []
    for m in members:
        if isinstance(m, tuple):
            arch.append(Adt("token::Archetype", "Range", {"0": Char(m[0]), "1": Char(m[1])}))
        else:
            arch.append(Adt("token::Archetype", "Character", {"0": Char(m)}))
    kind = Adt(T.LEAF, "Class", {"0": Adt("token::Class", "Class", {"is_negated": negated, "archetypes": RList(arch)})})
    t = Adt(T.TOKEN, "Token", {"topology": Adt(T.TOPO, "Leaf", {"0": kind}), "annotation": Sym("ann_" + name)})
    t.tag = "class:" + name
    return t


ATOMS = {
    "a": lambda n: lit(n), "*": lambda n: T.leaf("zom", n), "?": lambda n: T.leaf("one", n),
}


class Gen:
    """Builds token lists from a small expression syntax: segments joined by separators; `**` is a tree wildcard,
    which takes the place of the separators around it, as the parser builds it."""

    def __init__(self):
        self.k = 0
        self.letters = iter("abcdefghijklmnopqrstuvw")

    def fresh(self):
        self.k += 1
        return "n%d" % self.k

    def atom(self, a):
        if a == "a":
            return lit(next(self.letters)), None
        if a == "(?i)a":
            t = T.leaf("lit-ci", "i")
            strip(strip(strip(t.fields["topology"]).fields["0"]).fields["0"]).fields["text"] = next(self.letters)
            return t, None
        if a in CLASS_ATOMS:
            return klass(*CLASS_ATOMS[a], name=self.fresh()), None
        return ATOMS[a](self.fresh()), None

    def tokens(self, segments, lead=False, trail=False):
        """segments: list of 'TREE' | list of atoms / branch tokens.  -> (token list, text)"""
        toks, text = [], ""
        if lead and segments and segments[0] != "TREE":
            toks.append(T.leaf("sep", self.fresh()))
            text += "/"
        for i, seg in enumerate(segments):
            if seg == "TREE":
                rooted = lead and i == 0
                toks.append(T.leaf("tree-rooted" if rooted else "tree", self.fresh()))
                text += ("/" if rooted else "") + ("" if text == "" or text.endswith("/") else "/") + "**" + ("/" if i + 1 < len(segments) or trail else "")
                continue
            if i > 0 and segments[i - 1] != "TREE":
                toks.append(T.leaf("sep", self.fresh()))
                text += "/"
            for a in seg:
                if isinstance(a, tuple):
                    toks.append(a[0])
                    text += a[1]
                else:
                    tok, _ = self.atom(a)
                    toks.append(tok)
                    ltext = strip(strip(strip(strip(tok.fields["topology"]).fields["0"]).fields["0"]).fields.get("text")) if a in ("a", "(?i)a") else None
                    text += ltext if a == "a" else ("(?i)" + ltext + "(?-i)" if a == "(?i)a" else a)
        if trail and segments and segments[-1] != "TREE":
            toks.append(T.leaf("sep", self.fresh()))
            text += "/"
        return toks, text


def sub_expressions(max_segments, with_one=True):
    """Shapes of branch bodies: (segments, lead separator, trailing separator)."""
    leafsegs = [["a"], ["*"], ["?"], "TREE"] if with_one else [["a"], ["*"], "TREE"]
    out = []
    for n in range(1, max_segments + 1):
        for segs in itertools.product(leafsegs, repeat=n):
            if any(segs[i] == "TREE" and segs[i + 1] == "TREE" for i in range(n - 1)):
                continue
            for lead, trail in itertools.product((False, True), repeat=2):
                if lead and segs[0] == "TREE" or trail and segs[-1] == "TREE":
                    continue
                out.append((list(segs), lead, trail))
    return out


def literal_catalogue(tier):
    """Expressions made of literals, separators, alternations and exactly bounded repetitions of literals: the shapes
    for which invariant text is plausible (C11)."""
    out = []
    bodies = [[["a"]], [["a"], ["a"]], [["a", "a"]], [["[x]"]], [["a", "[xy]"]], [["[!x]"]], [["[x-z]", "a"]], [["(?i)a"]], [["(?i)a", "a"]]]

    def branch_variants():
        yield None
        for b1 in bodies:
            yield ("alt", [b1])
            for b2 in bodies:
                yield ("alt", [b1, b2])
                yield ("alt-same", [b1, b2])
            for bounds in ((1, 1), (2, 2), (0, 1), (1, 2), (1, None)):
                yield ("rep", [b1], bounds)

    def make(before, bv, after, glue_before, glue_after, lead):
        def build():
            g = Gen()
            segs = [list(x) for x in before]
            if bv is not None:
                kind = bv[0]
                texts, toks_list = [], []
                for j, body in enumerate(bv[1]):
                    if kind == "alt-same" and j == 1:
                        # the same text as the first branch, spelled again
                        g2 = Gen()
                        toks, text = g2.tokens([list(x) for x in bv[1][0]])
                    else:
                        toks, text = g.tokens([list(x) for x in body])
                    toks_list.append(toks)
                    texts.append(text)
                if kind.startswith("alt"):
                    tok = T.branch("alt", [T.branch("cat", b, g.fresh()) for b in toks_list], g.fresh())
                    btext = "{%s}" % ",".join(texts)
                else:
                    lo, hi = bv[2]
                    b = toks_list[0]
                    tok = T.branch("rep", [T.branch("cat", b, g.fresh())], g.fresh(), lower=lo, upper=hi)
                    btext = "<%s:%s,%s>" % (texts[0], lo, "" if hi is None else hi)
                mid = [(tok, btext)]
                if glue_before and segs:
                    segs[-1] = segs[-1] + mid
                else:
                    segs.append(mid)
            rest = [list(x) for x in after]
            if bv is not None and glue_after and rest:
                segs[-1] = segs[-1] + rest[0]
                rest = rest[1:]
            segs += rest
            return g.tokens(segs, lead=lead)
        return build
    # an invariant group nested in an invariant group (text of several fragments joined inside a fold): `{a/{b/c}}/*`,
    # `<a/{b/c}:2,2>`, `{a<b/:2,2>}c/*`
    def nested(outer, inner, pre, post, tail):
        def build():
            g = Gen()
            ikind, ibody, ibounds = inner
            itoks, itext = g.tokens([list(x) for x in ibody[0]], False, ibody[1])
            if ikind == "alt":
                itok = (T.branch("alt", [T.branch("cat", itoks, g.fresh())], g.fresh()), "{%s}" % itext)
            else:
                itok = (T.branch("rep", [T.branch("cat", itoks, g.fresh())], g.fresh(), lower=ibounds[0], upper=ibounds[1]), "<%s:%d,%d>" % (itext, ibounds[0], ibounds[1]))
            segs = []
            if pre == "sep":
                segs = [["a"], [itok]]
            elif pre == "glue":
                segs = [["a", itok]]
            else:
                segs = [[itok]]
            if post:
                segs[-1] = segs[-1] + ["a"]
            btoks, btext = g.tokens(segs)
            if outer[0] == "alt":
                otok = (T.branch("alt", [T.branch("cat", btoks, g.fresh())], g.fresh()), "{%s}" % btext)
            else:
                otok = (T.branch("rep", [T.branch("cat", btoks, g.fresh())], g.fresh(), lower=outer[1][0], upper=outer[1][1]), "<%s:%d,%d>" % (btext, outer[1][0], outer[1][1]))
            top = [[otok]]
            if tail == "sep-star":
                top.append(["*"])
            elif tail == "glue-lit-star":
                top[-1] = top[-1] + ["a"]
                top.append(["*"])
            return g.tokens(top)
        return build
    inners = [("alt", ([["a"], ["a"]], False), None), ("alt", ([["a"]], True), None), ("rep", ([["a"]], True), (2, 2)), ("rep", ([["a"], ["a"]], False), (2, 2))]
    for outer in (("alt", None), ("rep", (2, 2)), ("rep", (1, 1))):
        for inner in inners:
            for pre in ("sep", "glue", None):
                for post in (False, True):
                    for tail in (None, "sep-star", "glue-lit-star"):
                        out.append(nested(outer, inner, pre, post, tail))
    ctx = [(), (["a"],)] + ([(["a"], ["a"])] if tier == "thorough" else [])
    for bv in branch_variants():
        for before, after in itertools.product(ctx, repeat=2):
            if bv is None and not before and not after:
                continue
            for gb, ga, lead in itertools.product((False, True), repeat=3):
                if (gb and not before) or (ga and not after) or (bv is None and (gb or ga)):
                    continue
                out.append(make(before, bv, after, gb, ga, lead))
    return out


def pair_catalogue(tier):
    """Two branch tokens in one sequence (joined by a separator, glued, or around a tree wildcard): terms of two
    alternations / repetitions meet, which is where an order-sensitive combination shows."""
    thorough = False     # the same shapes in both tiers (the thorough tier deepens the general catalogue)
    subs = [([["a"]], False, False), ([["a"], ["a"]], False, False), ([["a"]], False, True), ([["a"]], True, False), ([["*"]], False, False)]
    if thorough:
        subs += [([["*"]], False, True), (["TREE"], False, False), ([["a"], "TREE"], False, False)]
    shapes = [("alt", [s1, s2], None) for s1, s2 in itertools.product(subs, repeat=2)]
    shapes += [("rep", [s], b) for s in subs for b in (((1, 2), (2, 2), (1, None)) if thorough else ((1, 2),))]
    out = []

    def make(sh1, sh2, joiner, tail):
        def build():
            g = Gen()

            def branch(shape):
                kind, subs_, bounds = shape
                bodies, texts = [], []
                for (segs, lead, trail) in subs_:
                    toks, text = g.tokens([list(x) if x != "TREE" else "TREE" for x in segs], lead, trail)
                    bodies.append(toks)
                    texts.append(text)
                if kind == "alt":
                    return (T.branch("alt", [T.branch("cat", b, g.fresh()) for b in bodies], g.fresh()), "{%s}" % ",".join(texts))
                lo, hi = bounds
                b = bodies[0]
                return (T.branch("rep", [T.branch("cat", b, g.fresh())], g.fresh(), lower=lo, upper=hi),
                        "<%s:%s,%s>" % (texts[0], lo, "" if hi is None else hi))
            b1, b2 = branch(sh1), branch(sh2)
            if joiner == "glue":
                segs = [[b1, b2]]
            elif joiner == "sep":
                segs = [[b1], [b2]]
            else:
                segs = [[b1], "TREE", [b2]]
            if tail == "sep-lit":
                segs.append(["a"])
            elif tail == "glue-lit":
                segs[-1] = segs[-1] + ["a"]
            return g.tokens(segs)
        return build
    for sh1, sh2 in itertools.product(shapes, repeat=2):
        for joiner in (("sep", "glue", "tree") if thorough else ("sep", "glue")):
            for tail in ((None, "sep-lit", "glue-lit") if thorough else (None,)):
                out.append(make(sh1, sh2, joiner, tail))
    return out


def nested_catalogue(tier):
    """A branch inside a repetition: `<<*/:2,2>:1,>*`, `<a{*/,*/*/}:1,>*`."""
    thorough = False     # the same shapes in both tiers
    bodies = [([["*"]], False, True), ([["a"]], False, True), ([["*"]], False, False), ([["*"], ["*"]], False, True)]
    if thorough:
        bodies += [([["a"], "TREE"], False, False), (["TREE"], True, False), ([["a"]], True, False)]
    inner_shapes = [("rep", [b], bounds) for b in bodies for bounds in ((2, 2), (1, 2), (1, None), (0, 2), (0, 1))]
    inner_shapes += [("alt", [b1, b2], None) for b1, b2 in itertools.product(bodies, repeat=2)]
    inner_shapes += [("alt", [([["a"]], False, False)], None), ("rep", [([["a"]], False, False)], (1, 1))]
    outer_bounds = ((1, None), (0, None), (2, 2)) + (((1, 2),) if thorough else ())
    out = []

    def make(inner, inner_pre, inner_post, outer, before, tail):
        def build():
            g = Gen()
            kind, subs_, bounds = inner
            bodies_, texts = [], []
            for (segs, lead, trail) in subs_:
                toks, text = g.tokens([list(x) if x != "TREE" else "TREE" for x in segs], lead, trail)
                bodies_.append(toks)
                texts.append(text)
            if kind == "alt":
                itok = (T.branch("alt", [T.branch("cat", b, g.fresh()) for b in bodies_], g.fresh()), "{%s}" % ",".join(texts))
            else:
                lo, hi = bounds
                itok = (T.branch("rep", [T.branch("cat", bodies_[0], g.fresh())], g.fresh(), lower=lo, upper=hi), "<%s:%s,%s>" % (texts[0], lo, "" if hi is None else hi))
            seg = ([inner_pre] if inner_pre else []) + [itok] + ([inner_post] if inner_post and inner_post != "/" and inner_post != "*/*/" else [])
            if inner_post == "/":
                body_toks, body_text = g.tokens([seg], False, True)          # `<{a}/:1,>`
            elif inner_post == "*/*/":
                body_toks, body_text = g.tokens([seg + ["*"], ["*"]], False, True)   # `<<*/:1,2>*/*/:1,>`
            else:
                body_toks, body_text = g.tokens([seg])
            if outer is None:
                otok = (T.branch("alt", [T.branch("cat", body_toks, g.fresh()), T.branch("cat", [lit("z")], g.fresh())], g.fresh()), "{%s,z}" % body_text)
            else:
                lo, hi = outer
                otok = (T.branch("rep", [T.branch("cat", body_toks, g.fresh())], g.fresh(), lower=lo, upper=hi), "<%s:%s,%s>" % (body_text, lo, "" if hi is None else hi))
            segs = ([list(before)] if before else [])
            segs.append([otok] + ([tail] if tail else []))
            return g.tokens(segs)
        return build
    outers = list(outer_bounds) + ([None] if thorough else [])
    for inner in inner_shapes:
        for outer in outers:
            for inner_pre, inner_post in ((None, None), ("a", None), (None, "*"), (None, "/"), (None, "*/*/")) if thorough else ((None, None), ("a", None), (None, "/"), (None, "*/*/")):
                for before in ((), ("a",)):
                    for tail in (None, "*"):
                        out.append(make(inner, inner_pre, inner_post, outer, before, tail))
    return out


def catalogue(tier, flavour="general"):
    """-> list of builders; builder() gives (top-level token list, expression text)."""
    if flavour == "literal":
        return literal_catalogue(tier)
    if flavour == "nested":
        return nested_catalogue(tier)
    if flavour == "pairs":
        return pair_catalogue(tier)
    if flavour == "rooted":
        base = catalogue("quick", "general")
        return base + [(lambda b=b: _rooted(b)) for b in base]
    thorough = tier == "thorough"
    subs2 = sub_expressions(2, thorough)
    subs1 = sub_expressions(1, thorough)
    branch_shapes = []
    for s in subs2:
        branch_shapes.append(("alt", [s], None))
        for bounds in (((0, None), (1, None), (2, None), (2, 2), (1, 2)) if thorough else ((0, None), (1, None), (2, None))):
            branch_shapes.append(("rep", [s], bounds))
    for s1, s2 in itertools.product(subs1, repeat=2):
        branch_shapes.append(("alt", [s1, s2], None))
    if thorough:
        for s1, s2 in itertools.product(subs2, subs1):
            if s1 not in subs1:
                branch_shapes.append(("alt", [s1, s2], None))
    else:
        # an exhaustive two-segment branch next to a bounded one, in both orders: `{a/**,b}`, `{b,**/a}`
        for s1 in subs2:
            if s1[0] in ([["a"], "TREE"], ["TREE", ["a"]]) and not s1[1] and not s1[2]:
                for s2 in subs1:
                    if s2[0] in ([["a"]], [["*"]]):
                        branch_shapes.append(("alt", [s1, s2], None))
                        branch_shapes.append(("alt", [s2, s1], None))
    leaf_tops = [["a"], ["*"], "TREE"]
    contexts = [()]
    for n in ((1, 2) if thorough else (1,)):
        for c in itertools.product(leaf_tops, repeat=n):
            if any(c[i] == "TREE" and c[i + 1] == "TREE" for i in range(n - 1)):
                continue
            contexts.append(c)
    if not thorough:
        contexts += [("TREE", ["a"]), ("TREE", ["*"])]      # a tree wildcard two segments before the branch
    out = []

    def make(before, shape, after, glue_before, glue_after):
        def build():
            g = Gen()
            kind, subs, bounds = shape
            bodies, texts = [], []
            for (segs, lead, trail) in subs:
                toks, text = g.tokens(segs, lead, trail)
                bodies.append(toks)
                texts.append(text)
            if kind == "alt":
                tok = T.branch("alt", [T.branch("cat", b, g.fresh()) for b in bodies], g.fresh())
                btext = "{%s}" % ",".join(texts)
            else:
                lo, hi = bounds
                body = bodies[0]
                tok = T.branch("rep", [T.branch("cat", body, g.fresh())], g.fresh(), lower=lo, upper=hi)
                btext = "<%s:%s,%s>" % (texts[0], lo, "" if hi is None else hi)
            segs = [list(s) if s != "TREE" else "TREE" for s in before]
            # the branch token is glued to the neighbouring segment (same component) or is a segment of its own
            mid = [(tok, btext)]
            if glue_before and segs and segs[-1] != "TREE":
                segs[-1] = segs[-1] + mid
            else:
                segs.append(mid)
            rest = [list(s) if s != "TREE" else "TREE" for s in after]
            if glue_after and rest and rest[0] != "TREE":
                segs[-1] = segs[-1] + rest[0]
                rest = rest[1:]
            segs += rest
            return g.tokens(segs)
        return build
    for shape in branch_shapes:
        for before, after in itertools.product(contexts, repeat=2):
            if len(before) + len(after) > 2:
                continue
            for gb, ga in itertools.product((False, True), repeat=2):
                if gb and (not before or before[-1] == "TREE"):
                    continue
                if ga and (not after or after[0] == "TREE"):
                    continue
                out.append(make(before, shape, after, gb, ga))
    # leaf-only expressions
    for n in ((1, 2, 3) if thorough else (1, 2)):
        for c in itertools.product([["a"], ["*"], ["?"], "TREE", ["a", "*"]], repeat=n):
            if any(c[i] == "TREE" and c[i + 1] == "TREE" for i in range(n - 1)):
                continue
            out.append((lambda c=c: Gen().tokens([list(s) if s != "TREE" else "TREE" for s in c])))
    return out


def zero_spans(tok):
    """Replaces every annotation of the tree by the span (0, 0) (the language rules do not depend on spans)."""
    from ..teval import Tup
    t = strip(tok)
    if not isinstance(t, Adt):
        return
    if t.path == T.TOKEN:
        t.fields["annotation"] = Tup([0, 0])
    for v in list(t.fields.values()):
        v = strip(v)
        if isinstance(v, Adt):
            zero_spans(v)
        elif hasattr(v, "items"):
            for x in v.items:
                zero_spans(x)


def same_tree(a, b):
    """Structural equality of two token trees (annotations ignored)."""
    a, b = strip(a), strip(b)
    if isinstance(a, Adt) and isinstance(b, Adt):
        if a.path != b.path or a.variant != b.variant:
            return False
        for k in set(a.fields) | set(b.fields):
            if k == "annotation":
                continue
            if k not in a.fields or k not in b.fields or not same_tree(a.fields[k], b.fields[k]):
                return False
        return True
    if hasattr(a, "items") and hasattr(b, "items"):
        return len(a.items) == len(b.items) and all(same_tree(x, y) for x, y in zip(a.items, b.items))
    if isinstance(a, StrB):
        a = a.concrete()
    if isinstance(b, StrB):
        b = b.concrete()
    return type(a) == type(b) and a == b


def _rooted(builder):
    """The same expression behind a leading separator (a rooted tree wildcard if it begins with `**`)."""
    toks, text = builder()
    first = toks[0]
    if getattr(first, "tag", "").startswith("tree:"):
        return [T.leaf("tree-rooted", "rt")] + toks[1:], "/" + text
    return [T.leaf("sep", "rs")] + toks, "/" + text


class Judge:
    def __init__(self, F):
        self.F = F
        self.exh = F.find("token::Token::is_exhaustive")
        self.exh_inst = (F.instances_of(self.exh) or [False])[0]
        self.comp = F.find("encode::compile")
        insts = F.instances_of(self.comp, "token::Token<'_, ()>") or F.instances_of(self.comp)
        if not insts:
            raise AnchorMissing("a monomorphic instance of encode::compile")
        self.comp_inst = insts[0]
        self.rules = [F.find("rule::boundary"), F.find("rule::branch"), F.find("rule::bounds")]
        self.var = F.find("token::Token::variance")
        self.var_inst = {}
        for i in F.instances_of(self.var):
            a = F.instances[i].get("args") or []
            if len(a) == 2 and a[0] == "()":
                self.var_inst[a[1].split("::")[-1].split("<")[0]] = i
        self.root = F.find("token::Token::has_root")
        self.root_inst = (F.instances_of(self.root) or [False])[0]

    def _single(self, item, inst, tree):
        I = Interp(self.F)
        cases = I.explore(lambda: I.call_item(item, [Ref(Place(Cell(tree)))], inst=inst))
        if len(cases) != 1 or isinstance(cases[0].result, (Top, Panicked)):
            return None
        return cases[0].result

    def depth(self, tree):
        """(lower, upper | None) of the reported depth variance | None"""
        from . import c10
        if "Depth" not in self.var_inst:
            raise AnchorMissing("the instance Token::variance::<Depth>")
        r = self._single(self.var, self.var_inst["Depth"], tree)
        return None if r is None else c10.decode(r)

    def text(self, tree):
        """("invariant", text) | ("variant",) | None"""
        if "Text" not in self.var_inst:
            raise AnchorMissing("the instance Token::variance::<Text>")
        r = strip(self._single(self.var, self.var_inst["Text"], tree))
        if not isinstance(r, Adt) or r.variant not in ("Invariant", "Variant"):
            return None
        if r.variant == "Variant":
            return ("variant",)
        t = strip(r.fields.get("0"))
        frs = strip(t.fields.get("fragments")) if isinstance(t, Adt) else None
        if frs is None or not hasattr(frs, "items"):
            return None
        out = ""
        for fr in frs.items:
            fr = strip(fr)
            x = strip(fr.fields.get("0")) if isinstance(fr, Adt) else None
            if isinstance(x, StrB):
                x = x.concrete()
            if hasattr(x, "c") and isinstance(getattr(x, "c"), str):
                x = x.c          # a single-character class contributes its character
            if not isinstance(x, str):
                return None
            out += x
        return ("invariant", out)

    def partition(self, tree):
        """Tokenized::partition on the tree (all spans zero) -> (prefix text, postfix tree | None) | None"""
        it = self.F.find("token::Tokenized::partition")
        inst = (self.F.instances_of(it) or [False])[0]
        zero_spans(tree)
        tz = Adt("token::Tokenized", "Tokenized", {"expression": "", "token": tree})
        I = Interp(self.F)
        cases = I.explore(lambda: I.call_item(it, [tz], inst=inst))
        if len(cases) != 1 or isinstance(cases[0].result, (Top, Panicked)):
            return None
        r = strip(cases[0].result)
        if not (hasattr(r, "items") and len(r.items) == 2):
            return None
        prefix, rest = strip(r.items[0]), strip(r.items[1])
        if isinstance(prefix, StrB):
            prefix = prefix.concrete()
        if not isinstance(prefix, str) or not isinstance(rest, Adt) or rest.variant not in ("Some", "None"):
            return None
        if rest.variant == "None":
            return prefix, None
        tzn = strip(rest.fields["0"])
        return prefix, strip(tzn.fields["token"])

    def has_root(self, tree):
        r = strip(self._single(self.root, self.root_inst, tree))
        return r.variant if isinstance(r, Adt) and r.path.endswith("When") else None

    def tree(self, toks):
        tree = T.branch("cat", toks, "top")      # as the parser builds it: every (sub-)expression is a concatenation
        zero_spans(tree)      # spans play no part in these rules; unknown spans would only fork the error paths
        return tree

    def accepted(self, tree):
        """The rule checker's verdict on the tree (the size rule is about magnitudes and is skipped)."""
        tk = Adt("token::Tokenized", "Tokenized", {"expression": Sym("expression"), "token": tree})
        for it in self.rules:
            I = Interp(self.F)
            inst = (self.F.instances_of(it) or [False])[0]
            cases = I.explore(lambda: I.call_item(it, [Ref(Place(Cell(tk)))], inst=inst))
            if len(cases) != 1:
                return None
            r = strip(cases[0].result)
            if not (isinstance(r, Adt) and r.variant in ("Ok", "Err")):
                return None
            if r.variant == "Err":
                return False
        return True

    def verdict(self, tree):
        I = Interp(self.F)
        cases = I.explore(lambda: I.call_item(self.exh, [Ref(Place(Cell(tree)))], inst=self.exh_inst))
        if len(cases) != 1:
            return None
        r = strip(cases[0].result)
        return r.variant if isinstance(r, Adt) and r.path.endswith("When") else None

    def pattern(self, tree):
        got = []

        def new(I, a, fn, e):
            s = strip(a[0])
            got.append(s.concrete() if isinstance(s, StrB) else (s if isinstance(s, str) else None))
            return ok(Sym("regex"))
        I = Interp(self.F, {"regex::Regex::new": new})
        cases = I.explore(lambda: I.call_item(self.comp, [Ref(Place(Cell(tree)))], inst=self.comp_inst))
        if len(cases) != 1 or not got or got[-1] is None:
            return None
        return got[-1]


_STATE = {}


def _accepted(J, text, tree):
    m = _STATE.get("accepted")
    if m is not None and text in m:
        return m[text]
    return J.accepted(tree)


def judge_one(J, text, toks):
    tree = J.tree(toks)
    if _STATE.get("accepted") is not None and _STATE["accepted"].get(text) is False:
        return {"text": text, "status": "rejected"}
    v = J.verdict(tree)
    if v is None:
        return {"text": text, "status": "unanalysable", "what": "Token::is_exhaustive"}
    if v != "Always":
        return {"text": text, "status": "other", "verdict": v}
    acc = _accepted(J, text, tree)
    if acc is False:
        return {"text": text, "status": "rejected"}
    if acc is None:
        return {"text": text, "status": "unanalysable", "what": "the rule checker's verdict"}
    pat = J.pattern(tree)
    if pat is None:
        return {"text": text, "status": "unanalysable", "what": "encode::compile"}
    try:
        w = rxc.not_exhaustive_witness(rxc.dfa(pat))
    except rx.RxError as e:
        return {"text": text, "status": "unanalysable", "what": "the program text %r: %s" % (pat, e)}
    return {"text": text, "status": "sound" if w is None else "unsound", "verdict": v, "pattern": pat, "witness": w,
            "matches_empty": w is not None and w[0] == ""}


LOOSE_ROOTED_TREE = "[/].*[/]?"
STRICT_ROOTED_TREE = "(?:[/]|[/].*[/])"


def judge_partition(J, text, toks):
    """C08: the partition (prefix, postfix) of the tree against the language of the original."""
    tree = J.tree(toks)
    acc = _accepted(J, text, tree)
    if acc is False:
        return {"text": text, "status": "rejected"}
    if acc is None:
        return {"text": text, "status": "unanalysable", "what": "the rule checker's verdict"}
    pat0 = J.pattern(tree)
    from ..models import deep_copy
    part = J.partition(deep_copy(tree))
    if pat0 is None or part is None:
        return {"text": text, "status": "unanalysable", "what": "encode::compile" if pat0 is None else "Tokenized::partition"}
    prefix, post = part
    problems = []
    kinds = []
    out = {"text": text, "prefix": prefix, "pattern": pat0}
    try:
        if post is None:
            alpha = rxc.alphabet_of(pat0, "(?s)^" + rxc.escape(prefix) + "$")
            d0 = rxc.dfa(pat0, alpha)
            w = rxc.canonical_difference(d0, rxc.dfa("(?s)^" + rxc.escape(prefix) + "$", alpha))
            if w is not None:
                problems.append("there is no postfix, but the glob %s `%s` while the prefix is `%s`" % ("matches" if w[1] else "does not match", w[0], prefix))
        else:
            patp = J.pattern(post)
            if patp is None:
                return {"text": text, "status": "unanalysable", "what": "encode::compile of the postfix"}
            out["postfix_pattern"] = patp
            flags, body = rxc.body_of(patp)
            if prefix == "":
                rhs = patp
                skip = ()
            else:
                rhs = flags + "^" + "(?-i)" + rxc.escape(prefix) + ("" if prefix.endswith("/") else "/") + "(?:" + body + ")$"
                skip = (prefix,)      # remainder empty: `a/*` does not match `a` although `*` matches the empty path (not compared)
            alpha = rxc.alphabet_of(pat0, rhs)
            w = rxc.canonical_difference(rxc.dfa(pat0, alpha), rxc.dfa(rhs, alpha), skip)
            if w is not None and LOOSE_ROOTED_TREE in pat0:
                # the known loose encoding of a rooted tree wildcard in first position (C01.tree, recorded there): is the
                # difference explained by it alone?
                strict = pat0.replace(LOOSE_ROOTED_TREE, STRICT_ROOTED_TREE, 1)
                alpha2 = rxc.alphabet_of(strict, rhs)
                if rxc.canonical_difference(rxc.dfa(strict, alpha2), rxc.dfa(rhs, alpha2), skip) is None:
                    out["explained_by"] = "rooted-first-tree-encoding"
                    out["example"] = w[0]
                    w = None
            if w is not None:
                kinds.append("law")
                problems.append("the glob %s `%s`, but prefix `%s` + postfix (program %s) %s" % (
                    "matches" if w[1] else "does not match", w[0], prefix, patp, "does" if w[2] else "does not"))
            hr = J.has_root(post)
            if hr != "Never":
                kinds.append("postfix-rooted")
                problems.append("the postfix reports has_root = %s" % hr)
            again = J.partition(deep_copy(post))
            if again is None:
                return {"text": text, "status": "unanalysable", "what": "Tokenized::partition of the postfix"}
            if again[0] != "" or again[1] is None or not same_tree(again[1], post):
                kinds.append("not-idempotent")
                problems.append("partitioning the postfix again gives the prefix `%s` and %s postfix" % (again[0], "the same" if again[1] is not None and same_tree(again[1], post) else "another"))
    except rx.RxError as e:
        return {"text": text, "status": "unanalysable", "what": "a program text: %s" % e}
    if not problems and out.get("explained_by"):
        out["status"] = "explained"
        out["verdict"] = "prefix `%s`" % prefix
        return out
    out["status"] = "unsound" if problems else ("sound" if (prefix != "" or post is None) else "other")
    if problems:
        out["why"] = "; ".join(problems)
        first = strip(toks[0])
        topo = strip(first.fields["topology"]) if isinstance(first, Adt) else None
        if topo is not None and topo.variant == "Branch" and J.has_root(tree) == "Always":
            # the family the property itself names: the root comes from inside a branch, which cannot be unrooted
            out["group"] = "rooted-through-a-branch/" + "+".join(kinds)
    out["verdict"] = "prefix `%s`%s" % (prefix, "" if post is not None else ", no postfix")
    return out


def reference_regex(toks, top=True):
    """The language the README gives to a token sequence, written as a regex independently of the encoder: a literal
    is its text, `/` a separator, `?` one and `*` any number of non-separator characters, an alternation the union of
    its branches, a repetition its body m..n times, a tree wildcard at the top level zero or more complete components
    with the separators next to it (encoder.tree_reference).  -> regex text | None (a shape without a crisp reference:
    tree wildcard inside a branch, class)"""
    from . import encoder
    out = []
    for i, tok in enumerate(toks):
        t = strip(tok)
        topo = strip(t.fields["topology"])
        inner = strip(topo.fields["0"])
        if topo.variant == "Leaf":
            k = strip(inner.fields.get("0")) if inner.fields else None
            if inner.variant == "Separator":
                out.append("/")
            elif inner.variant == "Literal":
                text = strip(k.fields["text"])
                if isinstance(text, StrB):
                    text = text.concrete()
                ci = strip(k.fields["is_case_insensitive"])
                if not isinstance(text, str) or not isinstance(ci, bool):
                    return None
                out.append(("(?i:" if ci else "(?-i:") + rxc.escape(text) + ")")
            elif inner.variant == "Class":
                members = ""
                for a_ in strip(k.fields["archetypes"]).items:
                    a_ = strip(a_)
                    cs = [strip(a_.fields[f]) for f in sorted(a_.fields)]
                    if not all(hasattr(c, "c") for c in cs):
                        return None
                    members += "-".join(rxc.escape(c.c) for c in cs)
                neg = strip(k.fields["is_negated"])
                # a class matches one character that is (not) listed, and never a separator
                out.append("(?-i:[^%s/])" % members if neg is True else "(?-i:[%s&&[^/]])" % members)
            elif inner.variant == "Wildcard":
                if k.variant == "One":
                    out.append("[^/]")
                elif k.variant == "ZeroOrMore":
                    out.append("[^/]*")
                elif k.variant == "Tree":
                    if not top:
                        return None
                    out.append("(?:" + encoder.tree_reference(i > 0, i + 1 < len(toks), strip(k.fields["has_root"]) is True) + ")")
                else:
                    return None
            else:
                return None
        else:
            b = strip(inner.fields["0"])
            if inner.variant == "Concatenation":
                r = reference_regex(list(strip(b.fields["0"]).items), top)
                if r is None:
                    return None
                out.append(r)
            elif inner.variant == "Alternation":
                rs = []
                for br in strip(b.fields["0"]).items:
                    r = reference_regex([br], False)
                    if r is None:
                        return None
                    rs.append(r)
                out.append("(?:" + "|".join("(?:%s)" % r for r in rs) + ")")
            elif inner.variant == "Repetition":
                r = reference_regex([b.fields["token"]], False)
                lo, hi = strip(b.fields["lower"]), strip(b.fields["upper"])
                hi = strip(hi.fields["0"]) if isinstance(hi, Adt) and hi.variant == "Some" else None
                if r is None or not isinstance(lo, int):
                    return None
                out.append("(?:%s){%d,%s}" % (r, lo, "" if hi is None else hi))
            else:
                return None
    return "".join(out)


def judge_semantics(J, text, toks):
    """C01: the program emitted for the tree against the reference language of the expression."""
    tree = J.tree(toks)
    acc = _accepted(J, text, tree)
    if acc is False:
        return {"text": text, "status": "rejected"}
    if acc is None:
        return {"text": text, "status": "unanalysable", "what": "the rule checker's verdict"}
    ref = reference_regex(toks)
    if ref is None:
        return {"text": text, "status": "other", "verdict": "no crisp reference"}
    pat = J.pattern(tree)
    if pat is None:
        return {"text": text, "status": "unanalysable", "what": "encode::compile"}
    ref = "(?s)^" + ref + "$"
    try:
        eq, only_pat, only_ref = rxc.difference_witness(pat, ref)
        out = {"text": text, "pattern": pat, "verdict": "program %s" % pat}
        if not eq and LOOSE_ROOTED_TREE in pat:
            eq2, _a, _b = rxc.difference_witness(pat.replace(LOOSE_ROOTED_TREE, STRICT_ROOTED_TREE, 1), ref)
            if eq2:
                out.update(status="explained", explained_by="rooted-first-tree-encoding", example=only_pat if only_pat is not None else only_ref)
                return out
        out["status"] = "sound" if eq else "unsound"
        if not eq:
            out["why"] = ("the program matches `%s`, the expression does not" % only_pat) if only_pat is not None else (
                "the expression matches `%s`, the program does not" % only_ref)
            out["reference"] = ref
        return out
    except rx.RxError as e:
        return {"text": text, "status": "unanalysable", "what": "a program text: %s" % e}


def judge_captures(J, text, toks):
    """C04: one capturing group, in order, per capturing token of the top-level sequence - and no other."""
    tree = J.tree(toks)
    acc = _accepted(J, text, tree)
    if acc is False:
        return {"text": text, "status": "rejected"}
    if acc is None:
        return {"text": text, "status": "unanalysable", "what": "the rule checker's verdict"}
    it = J.F.find("token::Token::is_capturing")
    inst = (J.F.instances_of(it) or [False])[0]
    kinds = []
    for tok in toks:
        I = Interp(J.F)
        cases = I.explore(lambda: I.call_item(it, [Ref(Place(Cell(tok)))], inst=inst))
        if len(cases) != 1 or not isinstance(strip(cases[0].result), bool):
            return {"text": text, "status": "unanalysable", "what": "Token::is_capturing"}
        kinds.append(strip(cases[0].result))
    pat = J.pattern(tree)
    if pat is None:
        return {"text": text, "status": "unanalysable", "what": "encode::compile"}
    try:
        node, _p = rx.parse(pat)
        groups = rx.capturing_groups(node)
    except rx.RxError as e:
        return {"text": text, "status": "unanalysable", "what": "the program text %r: %s" % (pat, e)}
    n_groups = groups if isinstance(groups, int) else len(groups)
    want = sum(1 for k in kinds if k)
    ok_ = n_groups == want
    return {"text": text, "status": "sound" if ok_ else "unsound", "verdict": "%d capturing token(s)" % want, "pattern": pat,
            "why": None if ok_ else "its program has %d capturing group(s): captures after the first surplus / missing group are attributed to the wrong sub-expression" % n_groups}


def judge_owned(J, text, toks):
    """C19: re-owning the tree (Token::into_owned, i.e. the fold_map machinery) gives the same tree."""
    from ..models import deep_copy
    tree = J.tree(toks)
    acc = _accepted(J, text, tree)
    if acc is False:
        return {"text": text, "status": "rejected"}
    it = J.F.find("token::Token::into_owned")
    inst = (J.F.instances_of(it) or [False])[0]
    I = Interp(J.F)
    cases = I.explore(lambda: I.call_item(it, [deep_copy(tree)], inst=inst))
    if len(cases) != 1 or isinstance(cases[0].result, (Top, Panicked)):
        return {"text": text, "status": "unanalysable", "what": "Token::into_owned"}
    res = cases[0].result
    same = same_tree(res, tree)
    out = {"text": text, "status": "sound" if same else "unsound", "verdict": "the tree", "pattern": "-"}
    if not same:
        p0, p1 = J.pattern(tree), J.pattern(deep_copy(strip(res)))
        out["why"] = "into_owned rebuilds another tree (program of the original %s, of the re-owned tree %s)" % (p0, p1)
    return out


def judge_query(J, query, text, toks):
    if query == "owned":
        return judge_owned(J, text, toks)
    if query == "captures":
        return judge_captures(J, text, toks)
    if query == "rules":
        return judge_rules(J, text, toks)
    if query == "semantics":
        return judge_semantics(J, text, toks)
    if query == "accepted":
        return {"text": text, "status": "accepted", "accepted": J.accepted(J.tree(toks))}
    if query == "partition":
        return judge_partition(J, text, toks)
    """query: depth | text | root -> dict(text, status, ...) comparing the reported verdict with the language of the
    program emitted for the same tree"""
    tree = J.tree(toks)
    if _STATE.get("accepted") is not None and _STATE["accepted"].get(text) is False:
        return {"text": text, "status": "rejected"}
    if query == "depth":
        v = J.depth(tree)
        trivial = v == (0, None)
    elif query == "text":
        v = J.text(tree)
        trivial = v == ("variant",)
    else:
        v = J.has_root(tree)
        trivial = v == "Never"
    if v is None:
        return {"text": text, "status": "unanalysable", "what": "the reported %s" % query}
    if trivial:
        return {"text": text, "status": "other", "verdict": v}
    acc = _accepted(J, text, tree)
    if acc is False:
        return {"text": text, "status": "rejected"}
    if acc is None:
        return {"text": text, "status": "unanalysable", "what": "the rule checker's verdict"}
    if query == "root" and v == "Sometimes":
        return {"text": text, "status": "unsound", "verdict": v, "why": "a buildable glob reports that it `sometimes` has a root"}
    pat = J.pattern(tree)
    if pat is None:
        return {"text": text, "status": "unanalysable", "what": "encode::compile"}
    try:
        d = rxc.dfa(pat)
        if query == "depth":
            # the paths the property speaks of: canonical, relative for an unrooted pattern and rooted for a rooted one;
            # the empty path is left out (a wildcard that matches no character gives it zero components)
            hr = J.has_root(tree)
            rng = rxc.component_range(d, rooted={"Never": False, "Always": True}.get(hr), nonempty=True)
            if rng is None:
                return {"text": text, "status": "sound", "verdict": v, "pattern": pat, "note": "matches no canonical path"}
            lo, hi, wlo, _ = rng
            ok_ = lo >= v[0] and (v[1] is None or (hi is not None and hi <= v[1]))
            return {"text": text, "status": "sound" if ok_ else "unsound", "verdict": v, "pattern": pat, "actual": [lo, hi], "example": wlo,
                    "why": None if ok_ else "canonical paths it matches have %s..%s components (e.g. `%s`)" % (lo, "unbounded" if hi is None else hi, wlo)}
        if query == "text":
            lit = "".join("\\" + c if c in "\\.+*?()|[]{}^$#&-~" else c for c in v[1])
            eq, only_pat, only_text = rxc.difference_witness(pat, "(?s)^" + lit + "$")
            return {"text": text, "status": "sound" if eq else "unsound", "verdict": list(v), "pattern": pat,
                    "why": None if eq else ("it also matches `%s`" % only_pat if only_pat is not None else "it does not match that text")}
        w = rxc.all_start_with_separator(d)
        return {"text": text, "status": "sound" if w is None else "unsound", "verdict": v, "pattern": pat,
                "why": None if w is None else "it matches `%s`, which does not begin with a separator" % w}
    except rx.RxError as e:
        return {"text": text, "status": "unanalysable", "what": "the program text %r: %s" % (pat, e)}


def _work(ix):
    J, entries = _STATE["J"], _STATE["entries"]
    query = _STATE.get("query", "exhaustive")
    out = []
    for i in ix:
        text, toks = entries[i]
        try:
            out.append(judge_one(J, text, toks) if query == "exhaustive" else judge_query(J, query, text, toks))
        except Exception as e:  # evaluator error: fail closed for this entry
            out.append({"text": text, "status": "unanalysable", "what": "internal error %s: %s" % (type(e).__name__, e)})
    return out


def judge_all(F, tier, jobs=None, query="exhaustive"):
    """-> list of dict(text, status, verdict, witness): status sound | unsound (verdict `always` but a descendant of a
    matched path is not matched) | other (verdict not `always`) | rejected (not buildable) | unanalysable"""
    import multiprocessing
    import os
    import sys
    import threading
    entries, seen = [], set()
    flavours = {"text": ("general", "literal"), "root": ("rooted",), "partition": ("general", "rooted", "literal"),
                "depth": ("general", "pairs", "nested"), "exhaustive": ("general", "pairs", "nested"),
                "semantics": ("general", "rooted", "literal", "pairs", "nested"),
                "rules": ("general", "rooted", "pairs", "nested"),
                "captures": ("general", "rooted", "literal", "pairs", "nested"),
                "owned": ("general", "literal", "pairs", "nested"),
                "accepted": ("general", "rooted", "literal", "pairs", "nested")}.get(query, ("general",))
    builders = [b for fl in flavours for b in catalogue(tier, fl)]
    for build in builders:
        toks, text = build()
        if text not in seen:
            seen.add(text)
            entries.append((text, toks))
    _STATE["J"] = Judge(F)
    _STATE["entries"] = entries
    _STATE["query"] = query
    jobs = jobs or int(os.environ.get("VERIF_JOBS", "0")) or min(16, os.cpu_count() or 4)
    chunks = [list(range(i, len(entries), jobs * 4)) for i in range(jobs * 4)]
    if jobs <= 1:
        res = [_work(c) for c in chunks]
    else:
        ctx = multiprocessing.get_context("fork")
        with ctx.Pool(jobs) as pool:
            res = pool.map(_work, chunks)
    out = [r for part in res for r in part]
    out.sort(key=lambda r: r["text"])
    return out


ENC = {"*": "s", "?": "q", "/": "-", "{": "A", "}": "Z", ",": ".", "<": "R", ">": "E", ":": "c"}


def key_of(text):
    """Injective ASCII name of a catalogue expression (letters and digits stand for themselves)."""
    return "".join(ENC.get(c, c) for c in text) or "empty"


def cached_judgement(F, tier, query="exhaustive"):
    """One computation per tree state and tier, shared by the checks that need it (C09, C03)."""
    import fcntl
    import hashlib
    import json
    import os
    from .. import build
    h = hashlib.sha256()
    h.update(os.path.basename(F.path).encode())
    for mod in ("rules/exhaust.py", "rules/tokens.py", "teval.py", "models.py", "rxc.py", "rx.py"):
        with open(os.path.join(build.VERIF, "sa", mod), "rb") as f:
            h.update(f.read())
    os.makedirs(os.path.join(build.CACHE, "exhaust"), exist_ok=True)
    path = os.path.join(build.CACHE, "exhaust", "%s-%s-%s.json" % (query, tier, h.hexdigest()[:20]))
    with open(os.path.join(build.CACHE, "lock-exhaust-%s-%s" % (query, tier)), "w") as lock:
        fcntl.flock(lock, fcntl.LOCK_EX)
        if os.path.exists(path) and os.environ.get("VERIF_NO_CACHE") != "1":
            with open(path) as f:
                return json.load(f), True
        if query != "accepted":
            # the rule checker's verdict on every catalogue expression is computed once and shared by all queries
            acc, _ = cached_judgement(F, tier, "accepted")
            _STATE["accepted"] = {r["text"]: r["accepted"] for r in acc}
        res = judge_all(F, tier, query=query)
        tmp = path + ".new"
        with open(tmp, "w") as f:
            json.dump(res, f)
        os.replace(tmp, path)
        # keep the cache small
        d = os.path.join(build.CACHE, "exhaust")
        files = sorted((os.path.join(d, n) for n in os.listdir(d)), key=os.path.getmtime)
        for old in files[:-24]:
            try:
                os.remove(old)
            except OSError:
                pass
        return res, False


# Deviation families that are recorded as known findings are reported as one group each (one key), together with the
# number of catalogue expressions in the family; the ceilings are the numbers counted on the pinned tree: a family
# that grows is a new violation (`group-grew:`), so a different defect that only shows inside a known family is not
# hidden.  (query, group, tier) -> ceiling
from ..refs.catalogue_ceilings import GROUP_CEILINGS, EXPLAINED_CEILINGS  # noqa: E402


def group_of(query, r):
    """The known deviation family a result belongs to (by a structural feature of the expression and the kind of
    deviation), or None: then the expression is reported on its own."""
    t = r["text"]
    if query == "exhaustive":
        if ":0," in t:
            return "optional-repetition/" + ("matches-the-empty-path" if r["witness"][0] == "" else "matched-path-not-empty")
        if re.search(r"<(\{[a-w,]+\}|<[a-w]+:\d+,\d+>)/:[1-9]\d*,>", t):
            return "bounded-branch-in-open-repetition"        # `<{a}/:1,>*`, `<<a:1,1>/:1,>*`
        return None
    if query == "depth":
        v, actual = r.get("verdict"), r.get("actual")
        if v and actual and re.search(r"[{<][^}>]*\*\*", t) and actual[0] < v[0] and (v[1] is None or (actual[1] is not None and actual[1] <= v[1])):
            return "lower-bound-above-actual/tree-wildcard-inside-a-branch"
        return None
    return r.get("group")


def report_groups(R, rule, query, tier, groups, where, describe):
    for gname, rs in sorted(groups.items()):
        R.fail(rule, "group:" + gname, "%d catalogue expression(s), e.g. %s" % (len(rs), "; ".join(describe(r) for r in rs[:2])), where)
        ceiling = GROUP_CEILINGS.get((query, gname, tier))
        if ceiling is None or len(rs) > ceiling:
            R.fail(rule, "group-grew:" + gname, "the family `%s` has %d members, %s: a further defect shows inside a known family (all members: %s)" % (
                gname, len(rs), "no ceiling is recorded for it" if ceiling is None else "at most %d were counted on the pinned tree" % ceiling,
                ", ".join("`%s`" % r["text"] for r in rs[:60])), where)
        else:
            R.ok(rule, "group-size:" + gname, "%d members (ceiling %d)" % (len(rs), ceiling), where, sample=False)


def report(F, R, rule, tier):
    """`rule`.sound: on the catalogue, a verdict `always` implies that every canonical path beneath a matched
    canonical path is matched (decided on the program text the encoder emits for the same tree)."""
    res, cached = cached_judgement(F, tier)
    where = F.find("token::Token::is_exhaustive").where()
    counts = {}
    groups = {}
    for r in res:
        counts[r["status"]] = counts.get(r["status"], 0) + 1
        if r["status"] in ("other", "rejected"):
            continue
        inst = key_of(r["text"])
        if r["status"] == "sound":
            R.ok(rule, inst, "`%s` is always exhaustive and its program %s matches every path beneath a match" % (r["text"], r["pattern"]), where,
                 sample=(counts["sound"] % 97 == 1))
        elif r["status"] == "unsound" and group_of("exhaustive", r):
            groups.setdefault(group_of("exhaustive", r), []).append(r)
        elif r["status"] == "unsound":
            m, ext = r["witness"]
            R.fail(rule, inst, "`%s` reports that it is always exhaustive, but its program %s matches the path `%s` and not `%s` beneath it: "
                   "a negation with this pattern discards the directory `%s` with everything in it" % (r["text"], r["pattern"], m, m + ext, m), where)
        else:
            R.fail(rule, inst, "`%s`: %s is unanalysable" % (r["text"], r.get("what")), where)
    report_groups(R, rule, "exhaustive", tier, groups, where,
                  lambda r: "`%s` reports `always` but matches `%s` and not `%s`" % (r["text"], r["witness"][0], r["witness"][0] + r["witness"][1]))
    for k, v in sorted(counts.items()):
        R.count("catalogue[%s]" % k, v)
    R.note("exhaustiveness catalogue (%s tier): %d expressions, %s%s" % (tier, len(res), counts, " (from the cache of this tree state)" if cached else ""))
    R.floor(rule, "catalogue expressions judged", len(res), 5000)
    R.floor(rule, "expressions with the verdict `always` whose language was decided", counts.get("sound", 0) + counts.get("unsound", 0), 300)


QUERY_TEXT = {
    "owned": ("is re-owned as %s", "token::Token::into_owned"),
    "captures": ("reports %s", "token::Token::is_capturing"),
    "rules": ("is %s by the rule checker", "rule::check"),
    "semantics": ("compiles to the %s", "encode::compile"),
    "partition": ("partitions into %s", "token::Tokenized::partition"),
    "depth": ("reports the depth variance %s", "token::Token::variance"),
    "text": ("reports the text variance %s", "token::Token::variance"),
    "root": ("reports has_root = %s", "token::Token::has_root"),
}


def report_query(F, R, rule, tier, query, floor_total=5000, floor_decided=200):
    """`rule`: on the catalogue, what the query reports agrees with the language of the emitted program."""
    res, cached = cached_judgement(F, tier, query)
    where = F.find(QUERY_TEXT[query][1]).where()
    counts = {}
    explained = {}
    groups = {}
    for r in res:
        counts[r["status"]] = counts.get(r["status"], 0) + 1
        if r["status"] in ("other", "rejected"):
            continue
        if r["status"] == "explained":
            explained.setdefault(r["explained_by"], []).append(r)
            continue
        inst = key_of(r["text"])
        said = QUERY_TEXT[query][0] % (r.get("verdict"),)
        if r["status"] == "sound":
            R.ok(rule, inst, "`%s` %s; program %s agrees" % (r["text"], said, r.get("pattern")), where, sample=(counts["sound"] % 97 == 1))
        elif r["status"] == "unsound" and group_of(query, r):
            groups.setdefault(group_of(query, r), []).append(r)
        elif r["status"] == "unsound":
            R.fail(rule, inst, "`%s` %s, but %s (program %s)" % (r["text"], said, r.get("why"), r.get("pattern")), where)
        else:
            R.fail(rule, inst, "`%s`: %s is unanalysable" % (r["text"], r.get("what")), where)
    report_groups(R, rule, query, tier, groups, where, lambda r: "`%s` %s, but %s" % (r["text"], QUERY_TEXT[query][0] % (r.get("verdict"),), r.get("why")))
    for cause, rs in sorted(explained.items()):
        ceiling = EXPLAINED_CEILINGS.get((query, cause, tier))
        if ceiling is None or len(rs) > ceiling:
            R.fail(rule, "group-grew:explained-by:" + cause, "%d expressions are attributed to `%s`, %s" % (
                len(rs), cause, "no ceiling is recorded" if ceiling is None else "at most %d were counted on the pinned tree" % ceiling), where)
        R.fail(rule, "explained-by:" + cause, "%d expression(s) deviate only because of a defect recorded elsewhere (%s), e.g. `%s` (differs on `%s`)" % (
                   len(rs), cause, rs[0]["text"], rs[0].get("example")), where)
    for k, v in sorted(counts.items()):
        R.count("catalogue[%s]" % k, v)
    R.note("%s catalogue (%s tier): %d expressions, %s%s" % (query, tier, len(res), counts, " (from the cache of this tree state)" if cached else ""))
    R.floor(rule, "catalogue expressions judged", len(res), floor_total)
    R.floor(rule, "expressions with a non-trivial verdict whose language was decided", counts.get("sound", 0) + counts.get("unsound", 0), floor_decided)


# ---------------------------------------------------------------------------------------------------
# C06: the rule checker's verdict against the documented rules, computed independently by expansion


def _leaf_class(tok):
    t = strip(tok)
    topo = strip(t.fields["topology"])
    if topo.variant != "Leaf":
        return None
    inner = strip(topo.fields["0"])
    if inner.variant == "Separator":
        return "S"
    if inner.variant == "Wildcard":
        k = strip(inner.fields["0"])
        if k.variant == "Tree":
            return "R" if strip(k.fields["has_root"]) is True else "T"
        if k.variant == "ZeroOrMore":
            return "Z"
        return "o"
    return "o"


def _branch(tok):
    t = strip(tok)
    topo = strip(t.fields["topology"])
    if topo.variant != "Branch":
        return None
    inner = strip(topo.fields["0"])
    b = strip(inner.fields["0"])
    if inner.variant == "Concatenation":
        return ("cat", list(strip(b.fields["0"]).items))
    if inner.variant == "Alternation":
        return ("alt", list(strip(b.fields["0"]).items))
    lo, hi = strip(b.fields["lower"]), strip(b.fields["upper"])
    hi = strip(hi.fields["0"]) if isinstance(hi, Adt) and hi.variant == "Some" else None
    return ("rep", b.fields["token"], lo, hi)


def expansions(tok, repeats):
    """All sequences of leaf classes the token can stand for: every choice of alternation branches, every repetition
    body repeated each count in `repeats` that its bounds allow (at least once).  -> set of strings over S T R Z o"""
    c = _leaf_class(tok)
    if c is not None:
        return {c}
    b = _branch(tok)
    if b[0] == "cat":
        out = {""}
        for t in b[1]:
            ex = expansions(t, repeats)
            out = {a + x for a in out for x in ex}
            if len(out) > 4000:
                raise OverflowError
        return out
    if b[0] == "alt":
        out = set()
        for t in b[1]:
            out |= expansions(t, repeats)
        return out
    _k, body, lo, hi = b
    ex = expansions(body, repeats)
    out = set()
    for n in repeats:
        # the counts are about which tokens can meet, not about matching: one pass shows the body's own neighbours,
        # two passes show what meets across iterations (when the upper bound allows a second pass)
        n = max(n, 1)
        if hi is not None and n > hi and n > 1:
            continue
        cur = {""}
        for _ in range(n):
            cur = {a + x for a in cur for x in ex}
            if len(cur) > 4000:
                raise OverflowError
        out |= cur
    return out


def _sole_leaf(tok):
    """The class of the leaf the token consists solely of (looking through concatenations of one token) | None"""
    while True:
        c = _leaf_class(tok)
        if c is not None:
            return c
        b = _branch(tok)
        if b[0] == "cat" and len(b[1]) == 1:
            tok = b[1][0]
            continue
        return None


def documented_verdict(tree):
    """None if the expression respects the documented rules (C06), else the first rule it violates."""
    def walk(tok, first):
        """first: nothing can precede this token in the whole expression.  -> violation | None"""
        b = _branch(tok)
        if b is None:
            return None
        if b[0] == "cat":
            for i, t in enumerate(b[1]):
                v = walk(t, first and i == 0)
                if v:
                    return v
            return None
        if b[0] == "alt":
            for br in b[1]:
                ex = expansions(br, (1,))
                if _sole_leaf(br) in ("T", "R"):
                    return "an alternation branch consists solely of a tree wildcard"
                if first and any(x[:1] in ("S", "R") for x in ex):
                    return "an alternation branch can root the expression"
                v = walk(br, first)
                if v:
                    return v
            return None
        _k, body, lo, hi = b
        ex = expansions(body, (1,))
        if _sole_leaf(body) in ("T", "R"):
            return "a repetition body consists solely of a tree wildcard"
        if _sole_leaf(body) in ("S", "Z"):
            return "a repetition body is solely a separator or a zero-or-more wildcard"
        if first and lo == 0 and any(x[:1] in ("S", "R") for x in ex):
            return "an optional repetition can root the expression"
        return walk(body, first)
    v = walk(tree, True)
    if v:
        return v
    for seq in expansions(tree, (1, 2)):
        for a, b_ in zip(seq, seq[1:]):
            if a in "STR" and b_ in "STR":
                return "two component boundaries become adjacent"
    for seq in expansions(tree, (1,)):
        if "ZZ" in seq:
            return "two zero-or-more wildcards become adjacent"
    return None


def judge_rules(J, text, toks):
    tree = J.tree(toks)
    acc = _accepted(J, text, tree)
    if acc is None:
        return {"text": text, "status": "unanalysable", "what": "the rule checker's verdict"}
    try:
        why = documented_verdict(tree)
    except OverflowError:
        return {"text": text, "status": "other", "verdict": "too many expansions"}
    want = why is None
    if acc == want:
        return {"text": text, "status": "sound", "verdict": "accepted" if acc else "rejected", "pattern": why or "well-formed"}
    return {"text": text, "status": "unsound", "verdict": "accepted" if acc else "rejected",
            "why": ("the documented rules reject it: %s" % why) if acc else "it violates none of the documented rules", "pattern": "-"}
