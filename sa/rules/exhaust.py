"""Soundness of the exhaustiveness verdict on a catalogue of small expressions (C09.sound, used by C03).

For every token tree of the catalogue that the rule checker accepts:
  verdict  = Token::is_exhaustive, by evaluating the THIR of the whole fold (sequencer, terms, fold, finalize)
  language = the program text encode::compile produces for the same tree (THIR evaluation), turned into an automaton
             over a concrete alphabet (sa/rxc.py)
and `always` requires: every canonical path beneath a matched canonical path is matched.  Nothing is run; the
comparison is between two artefacts computed from the source.  The catalogue is finite: the rule decides soundness
for these shapes only (every shape of top-level sequences up to three segments with at most one branch token, whose
sub-expressions have up to two segments), which is where a flaw of the fold's case structure shows."""
import itertools

from ..teval import (Adt, Ref, Place, Cell, Sym, Top, Panicked, strip, Interp, StrB, ok, err, UNIT)
from ..facts import AnchorMissing
from .. import rxc, rx
from . import tokens as T


def lit(ch):
    t = T.leaf("lit", ch)
    strip(strip(strip(t.fields["topology"]).fields["0"]).fields["0"]).fields["text"] = ch
    return t


ATOMS = {
    "a": lambda n: lit(n), "*": lambda n: T.leaf("zom", n), "?": lambda n: T.leaf("one", n),
}


class Gen:
    """Builds token lists from a small expression syntax: segments joined by separators; `**` is a tree wildcard,
    which takes the place of the separators around it, as the parser builds it."""

    def __init__(self):
        self.k = 0
        self.letters = iter("abcdefghijklmnopqrstuvw")

    def fresh(self):
        self.k += 1
        return "n%d" % self.k

    def atom(self, a):
        if a == "a":
            return lit(next(self.letters)), None
        return ATOMS[a](self.fresh()), None

    def tokens(self, segments, lead=False, trail=False):
        """segments: list of 'TREE' | list of atoms / branch tokens.  -> (token list, text)"""
        toks, text = [], ""
        if lead and segments and segments[0] != "TREE":
            toks.append(T.leaf("sep", self.fresh()))
            text += "/"
        for i, seg in enumerate(segments):
            if seg == "TREE":
                toks.append(T.leaf("tree", self.fresh()))
                text += ("" if text == "" or text.endswith("/") else "/") + "**" + ("/" if i + 1 < len(segments) or trail else "")
                continue
            if i > 0 and segments[i - 1] != "TREE":
                toks.append(T.leaf("sep", self.fresh()))
                text += "/"
            for a in seg:
                if isinstance(a, tuple):
                    toks.append(a[0])
                    text += a[1]
                else:
                    tok, _ = self.atom(a)
                    toks.append(tok)
                    text += strip(strip(strip(strip(tok.fields["topology"]).fields["0"]).fields["0"]).fields["text"]) if a == "a" else a
        if trail and segments and segments[-1] != "TREE":
            toks.append(T.leaf("sep", self.fresh()))
            text += "/"
        return toks, text


def sub_expressions(max_segments, with_one=True):
    """Shapes of branch bodies: (segments, lead separator, trailing separator)."""
    leafsegs = [["a"], ["*"], ["?"], "TREE"] if with_one else [["a"], ["*"], "TREE"]
    out = []
    for n in range(1, max_segments + 1):
        for segs in itertools.product(leafsegs, repeat=n):
            if any(segs[i] == "TREE" and segs[i + 1] == "TREE" for i in range(n - 1)):
                continue
            for lead, trail in itertools.product((False, True), repeat=2):
                if lead and segs[0] == "TREE" or trail and segs[-1] == "TREE":
                    continue
                out.append((list(segs), lead, trail))
    return out


def catalogue(tier):
    """-> list of (text, builder) where builder() gives the top-level token list."""
    thorough = tier == "thorough"
    subs2 = sub_expressions(2, thorough)
    subs1 = sub_expressions(1, thorough)
    branch_shapes = []
    for s in subs2:
        branch_shapes.append(("alt", [s], None))
        for bounds in (((0, None), (1, None), (2, 2), (1, 2)) if thorough else ((0, None), (1, None))):
            branch_shapes.append(("rep", [s], bounds))
    for s1, s2 in itertools.product(subs1, repeat=2):
        branch_shapes.append(("alt", [s1, s2], None))
    if thorough:
        for s1, s2 in itertools.product(subs2, subs1):
            if s1 not in subs1:
                branch_shapes.append(("alt", [s1, s2], None))
    leaf_tops = [["a"], ["*"], "TREE"]
    contexts = [()]
    for n in ((1, 2) if thorough else (1,)):
        for c in itertools.product(leaf_tops, repeat=n):
            if any(c[i] == "TREE" and c[i + 1] == "TREE" for i in range(n - 1)):
                continue
            contexts.append(c)
    out = []

    def make(before, shape, after, glue_before, glue_after):
        def build():
            g = Gen()
            kind, subs, bounds = shape
            bodies, texts = [], []
            for (segs, lead, trail) in subs:
                toks, text = g.tokens(segs, lead, trail)
                bodies.append(toks)
                texts.append(text)
            if kind == "alt":
                tok = T.branch("alt", [T.branch("cat", b, g.fresh()) if len(b) != 1 else b[0] for b in bodies], g.fresh())
                btext = "{%s}" % ",".join(texts)
            else:
                lo, hi = bounds
                body = bodies[0]
                tok = T.branch("rep", [T.branch("cat", body, g.fresh()) if len(body) != 1 else body[0]], g.fresh(), lower=lo, upper=hi)
                btext = "<%s:%s,%s>" % (texts[0], lo, "" if hi is None else hi)
            segs = [list(s) if s != "TREE" else "TREE" for s in before]
            # the branch token is glued to the neighbouring segment (same component) or is a segment of its own
            mid = [(tok, btext)]
            if glue_before and segs and segs[-1] != "TREE":
                segs[-1] = segs[-1] + mid
            else:
                segs.append(mid)
            rest = [list(s) if s != "TREE" else "TREE" for s in after]
            if glue_after and rest and rest[0] != "TREE":
                segs[-1] = segs[-1] + rest[0]
                rest = rest[1:]
            segs += rest
            return g.tokens(segs)
        return build
    for shape in branch_shapes:
        for before, after in itertools.product(contexts, repeat=2):
            if len(before) + len(after) > 2:
                continue
            for gb, ga in itertools.product((False, True), repeat=2):
                if gb and (not before or before[-1] == "TREE"):
                    continue
                if ga and (not after or after[0] == "TREE"):
                    continue
                out.append(make(before, shape, after, gb, ga))
    # leaf-only expressions
    for n in ((1, 2, 3) if thorough else (1, 2)):
        for c in itertools.product([["a"], ["*"], ["?"], "TREE", ["a", "*"]], repeat=n):
            if any(c[i] == "TREE" and c[i + 1] == "TREE" for i in range(n - 1)):
                continue
            out.append((lambda c=c: Gen().tokens([list(s) if s != "TREE" else "TREE" for s in c])))
    return out


class Judge:
    def __init__(self, F):
        self.F = F
        self.exh = F.find("token::Token::is_exhaustive")
        self.exh_inst = (F.instances_of(self.exh) or [False])[0]
        self.comp = F.find("encode::compile")
        insts = F.instances_of(self.comp, "token::Token<'_, ()>") or F.instances_of(self.comp)
        if not insts:
            raise AnchorMissing("a monomorphic instance of encode::compile")
        self.comp_inst = insts[0]
        self.rules = [F.find("rule::boundary"), F.find("rule::branch"), F.find("rule::bounds")]

    def tree(self, toks):
        return toks[0] if len(toks) == 1 else T.branch("cat", toks, "top")

    def accepted(self, tree):
        """The rule checker's verdict on the tree (the size rule is about magnitudes and is skipped)."""
        tk = Adt("token::Tokenized", "Tokenized", {"expression": Sym("expression"), "token": tree})
        for it in self.rules:
            I = Interp(self.F)
            inst = (self.F.instances_of(it) or [False])[0]
            cases = I.explore(lambda: I.call_item(it, [Ref(Place(Cell(tk)))], inst=inst))
            if len(cases) != 1:
                return None
            r = strip(cases[0].result)
            if not (isinstance(r, Adt) and r.variant in ("Ok", "Err")):
                return None
            if r.variant == "Err":
                return False
        return True

    def verdict(self, tree):
        I = Interp(self.F)
        cases = I.explore(lambda: I.call_item(self.exh, [Ref(Place(Cell(tree)))], inst=self.exh_inst))
        if len(cases) != 1:
            return None
        r = strip(cases[0].result)
        return r.variant if isinstance(r, Adt) and r.path.endswith("When") else None

    def pattern(self, tree):
        got = []

        def new(I, a, fn, e):
            s = strip(a[0])
            got.append(s.concrete() if isinstance(s, StrB) else (s if isinstance(s, str) else None))
            return ok(Sym("regex"))
        I = Interp(self.F, {"regex::Regex::new": new})
        cases = I.explore(lambda: I.call_item(self.comp, [Ref(Place(Cell(tree)))], inst=self.comp_inst))
        if len(cases) != 1 or not got or got[-1] is None:
            return None
        return got[-1]


_STATE = {}


def judge_one(J, text, toks):
    tree = J.tree(toks)
    v = J.verdict(tree)
    if v is None:
        return {"text": text, "status": "unanalysable", "what": "Token::is_exhaustive"}
    if v != "Always":
        return {"text": text, "status": "other", "verdict": v}
    acc = J.accepted(tree)
    if acc is False:
        return {"text": text, "status": "rejected"}
    if acc is None:
        return {"text": text, "status": "unanalysable", "what": "the rule checker's verdict"}
    pat = J.pattern(tree)
    if pat is None:
        return {"text": text, "status": "unanalysable", "what": "encode::compile"}
    try:
        w = rxc.not_exhaustive_witness(rxc.dfa(pat))
    except rx.RxError as e:
        return {"text": text, "status": "unanalysable", "what": "the program text %r: %s" % (pat, e)}
    return {"text": text, "status": "sound" if w is None else "unsound", "verdict": v, "pattern": pat, "witness": w,
            "matches_empty": w is not None and w[0] == ""}


def _work(ix):
    J, entries = _STATE["J"], _STATE["entries"]
    out = []
    for i in ix:
        text, toks = entries[i]
        try:
            out.append(judge_one(J, text, toks))
        except Exception as e:  # evaluator error: fail closed for this entry
            out.append({"text": text, "status": "unanalysable", "what": "internal error %s: %s" % (type(e).__name__, e)})
    return out


def judge_all(F, tier, jobs=None):
    """-> list of dict(text, status, verdict, witness): status sound | unsound (verdict `always` but a descendant of a
    matched path is not matched) | other (verdict not `always`) | rejected (not buildable) | unanalysable"""
    import multiprocessing
    import os
    import sys
    import threading
    entries, seen = [], set()
    for build in catalogue(tier):
        toks, text = build()
        if text not in seen:
            seen.add(text)
            entries.append((text, toks))
    _STATE["J"] = Judge(F)
    _STATE["entries"] = entries
    jobs = jobs or int(os.environ.get("VERIF_JOBS", "0")) or min(16, os.cpu_count() or 4)
    chunks = [list(range(i, len(entries), jobs * 4)) for i in range(jobs * 4)]
    if jobs <= 1:
        res = [_work(c) for c in chunks]
    else:
        ctx = multiprocessing.get_context("fork")
        with ctx.Pool(jobs) as pool:
            res = pool.map(_work, chunks)
    out = [r for part in res for r in part]
    out.sort(key=lambda r: r["text"])
    return out


ENC = {"*": "s", "?": "q", "/": "-", "{": "A", "}": "Z", ",": ".", "<": "R", ">": "E", ":": "c"}


def key_of(text):
    """Injective ASCII name of a catalogue expression (letters and digits stand for themselves)."""
    return "".join(ENC.get(c, c) for c in text) or "empty"


def cached_judgement(F, tier):
    """One computation per tree state and tier, shared by the checks that need it (C09, C03)."""
    import fcntl
    import hashlib
    import json
    import os
    from .. import build
    h = hashlib.sha256()
    h.update(os.path.basename(F.path).encode())
    for mod in ("rules/exhaust.py", "rules/tokens.py", "teval.py", "models.py", "rxc.py", "rx.py"):
        with open(os.path.join(build.VERIF, "sa", mod), "rb") as f:
            h.update(f.read())
    os.makedirs(os.path.join(build.CACHE, "exhaust"), exist_ok=True)
    path = os.path.join(build.CACHE, "exhaust", "%s-%s.json" % (tier, h.hexdigest()[:20]))
    with open(os.path.join(build.CACHE, "lock-exhaust-" + tier), "w") as lock:
        fcntl.flock(lock, fcntl.LOCK_EX)
        if os.path.exists(path) and os.environ.get("VERIF_NO_CACHE") != "1":
            with open(path) as f:
                return json.load(f), True
        res = judge_all(F, tier)
        tmp = path + ".new"
        with open(tmp, "w") as f:
            json.dump(res, f)
        os.replace(tmp, path)
        # keep the cache small
        d = os.path.join(build.CACHE, "exhaust")
        files = sorted((os.path.join(d, n) for n in os.listdir(d)), key=os.path.getmtime)
        for old in files[:-8]:
            try:
                os.remove(old)
            except OSError:
                pass
        return res, False


def report(F, R, rule, tier):
    """`rule`.sound: on the catalogue, a verdict `always` implies that every canonical path beneath a matched
    canonical path is matched (decided on the program text the encoder emits for the same tree)."""
    res, cached = cached_judgement(F, tier)
    where = F.find("token::Token::is_exhaustive").where()
    counts = {}
    for r in res:
        counts[r["status"]] = counts.get(r["status"], 0) + 1
        if r["status"] in ("other", "rejected"):
            continue
        inst = key_of(r["text"])
        if r["status"] == "sound":
            R.ok(rule, inst, "`%s` is always exhaustive and its program %s matches every path beneath a match" % (r["text"], r["pattern"]), where,
                 sample=(counts["sound"] % 97 == 1))
        elif r["status"] == "unsound":
            m, ext = r["witness"]
            R.fail(rule, inst, "`%s` reports that it is always exhaustive, but its program %s matches the path `%s` and not `%s` beneath it: "
                   "a negation with this pattern discards the directory `%s` with everything in it" % (r["text"], r["pattern"], m, m + ext, m), where)
        else:
            R.fail(rule, inst, "`%s`: %s is unanalysable" % (r["text"], r.get("what")), where)
    for k, v in sorted(counts.items()):
        R.count("catalogue[%s]" % k, v)
    R.note("exhaustiveness catalogue (%s tier): %d expressions, %s%s" % (tier, len(res), counts, " (from the cache of this tree state)" if cached else ""))
    R.floor(rule, "catalogue expressions judged", len(res), 5000)
    R.floor(rule, "expressions with the verdict `always` whose language was decided", counts.get("sound", 0) + counts.get("unsound", 0), 300)
