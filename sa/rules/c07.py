"""C07 — Branches compose: alternation is union, repetition is iteration, `any` is union."""
from ..teval import Adt, Tup, Ref, Place, Cell, Sym, RList, PyFn, Top, Panicked, strip, some, none, ok, err, Interp
from ..facts import fn_refs
from .. import tabulate, models
from . import encoder, tokens as T

EXPLANATION = (
    "Language equality of related expressions is a consequence of three finite obligations that are decided here on the "
    "encoder's emission table: (ctx) the context a branch passes to its sub-expression preserves the abstraction the "
    "tree-wildcard forms depend on at every nesting level - (has left neighbour, has right neighbour) of g(context, "
    "position) is the disjunction over both levels, for all 5 x 4 inputs and both branch kinds - so wrapping, "
    "substitution and unrolling cannot change the form chosen inside; (union/iterate) an alternation is encoded as the "
    "union of all of its branches in place and a repetition as its body {m,n} with the token's own bounds; (any) "
    "token::any builds one alternation holding every input tree in order, Checked::any and crate::any use it and compile "
    "that same tree.  "
    "(kinds, shared with C19) `any` rebuilds its input trees through fold_map; decompose / compose keep the variant, every child, the bounds of a repetition and the flags of a literal, so the union is the union of the inputs.")
RULES = "C07.whole (= C01.whole: program vs. compositional reference language on the catalogue), C07.ctx (TABLE), C07.union / C07.iterate (EMIT, = C01.homo), C07.flag (EMIT: a literal's case flag is independent of enclosing branches), C07.any (EFFECT+WHO), C19.kinds + C19.order (TABLE: the trees `any` rebuilds keep kinds, children, bounds, flags), C07.text (= C01.text: text -> program vs. reference language, multi-character literals)"


def run(ctx):
    F = ctx.facts()
    R = ctx.report
    R.assume("regex semantics; C01.tree (each tree form has the reference language of its context)")
    R.undecided("language equality of concrete pairs of expressions (follows by induction from the decided clauses)")
    encoder.rule_ctx(F, R)
    encoder.rule_homo(F, R)
    encoder.rule_literal_flags(F, R, "C07.flag")
    rule_any(F, R)
    # a compositional reference language (union, m..n-fold concatenation, in place) equals the emitted program on
    # every catalogue expression, hence wrapping / substitution / unrolling cannot change a language there (= C01.whole)
    from . import exhaust
    exhaust.report_query(F, R, "C07.whole", ctx.tier, "semantics", 15000, 4000)
    # `any` rebuilds every input tree (fold_map: decompose / compose): the union is only the union of its inputs if the
    # rebuilt trees are the inputs - kinds, children, bounds and flags kept (C19.kinds)
    from . import c19
    c19.rule_kinds(F, R)
    c19.rule_order(F, R)     # ... and every child stays under its own parent, in order
    # the emission rules above treat a literal as one atom; a literal of several characters is not one (a quantifier or
    # an alternation written next to it binds to its last character only unless the encoder groups it): the whole route
    # from texts with multi-character literals in repetitions and alternations to the program language (= C01.text)
    from . import parsecat
    parsecat.report_semantics(F, R, "C07.text", ctx.tier, 4000)


def rule_any(F, R):
    it = F.find("token::any")
    for n in (1, 2, 3):
        trees = [T.leaf("lit", "p%d" % i) for i in range(n)]
        stubs = {"token::Token::fold_map": lambda I, a, fn, e: strip(a[0])}
        I = Interp(F, stubs)
        res = strip(tabulate.single(I.explore(lambda: I.call_item(it, [RList(list(trees))], inst=False))))
        tags = None
        if isinstance(res, Adt) and res.path == T.TOKEN:
            topo = strip(res.fields.get("topology"))
            br = strip(topo.fields.get("0")) if isinstance(topo, Adt) and topo.variant == "Branch" else None
            if isinstance(br, Adt) and br.variant == "Alternation":
                lst = strip(strip(br.fields["0"]).fields["0"])
                if isinstance(lst, RList):
                    tags = [getattr(strip(x), "tag", "?") for x in lst.items]
        want = [t.tag for t in trees]
        R.check(tags == want, "C07.any", "token::any/%d" % n, "one alternation of all input trees in order", it.where(),
                fail_msg="token::any of %d trees builds %r (branches %r), expected an alternation of %r: a dropped or "
                         "duplicated pattern changes the union" % (n, res, tags, want))
    # Checked::any -> token::any ; crate::any -> Checked::any and Any::compile of that tree
    refs = fn_refs(F, lambda fn: fn["path"].startswith("token::any"))
    owners = sorted(set(F.owner_fn(i).qname for i, _e in refs))
    R.check(owners == ["rule::Checked::any"], "C07.any", "callers of token::any", "only Checked::any builds the union tree", "src/rule.rs",
            fail_msg="token::any is referenced from %s" % owners)
    anyfn = F.find("any")
    stubs = {
        "rule::Checked::any": lambda I, a, fn, e: Sym("checked_any_tree"),
        "Any::compile": lambda I, a, fn, e: ok(Sym("compile(%s)" % _n(a[0]))),
    }
    I = Interp(F, stubs)
    # generic over the pattern type: conversions are opaque, collect() gathers them
    cases = I.explore(lambda: I.call_item(anyfn, [RList([ok(Sym("t0")), ok(Sym("t1"))])], inst=False))
    good = False
    detail = repr(cases)
    for c in cases:
        res = strip(c.result)
        v = strip(res.fields.get("0")) if isinstance(res, Adt) and res.variant == "Ok" else None
        if isinstance(v, Adt) and v.path == "Any":
            tree, prog = strip(v.fields.get("tree")), strip(v.fields.get("program"))
            origin = tree.name if isinstance(tree, Sym) else getattr(tree, "sym_origin", None)
            good = origin == "checked_any_tree" and isinstance(prog, Sym) and prog.name.startswith("compile(checked_any_tree")
            detail = "tree=%r program=%r" % (tree, prog)
    R.check(good, "C07.any", "crate::any", "Any{tree, program} pairs the union tree with the program compiled from it", anyfn.where(),
            fail_msg="crate::any builds %s; expected the tree from Checked::any and the program compiled from that same tree" % detail)


def _n(v):
    v = strip(v)
    return v.name if isinstance(v, Sym) else repr(v)
