"""C15 — Depth and link behaviours bound the walk as documented (plumbing only)."""
import itertools

from ..teval import (Adt, Tup, Ref, Place, Cell, Sym, RList, Top, Panicked, strip, some, none, Interp)
from .. import tabulate
from . import c20
from . import walkfam as W

EXPLANATION = (
    "Decided: (window) for every depth behaviour (Unbounded, Max 0..5, Min 1..4, MinMax with minimum 1..4 and extent 0..3) "
    "x pivot 0..4 (number of prefix components) x link behaviour, the walk that WalkTree::with_pivot_and_behavior "
    "constructs consults walkdir with exactly the window of traversal depths w for which min <= w + pivot <= max, with "
    "follow_links = (link behaviour is ReadTarget), and consults nothing at all when no depth qualifies (maximum smaller "
    "than the prefix) - evaluated end to end (constructor, then the first next()) against a model of walkdir's builder "
    "with its documented clamping, so the rule does not depend on how the translation is split between functions.  The "
    "functions only add, subtract and compare their small arguments, so a grid covering every ordering of (min, max, "
    "pivot) decides them; (ctor) the DepthBehavior constructors over a grid of small numbers (tri-state: what "
    "bounded(0, n) returns is not fixed by the property); (cycle) walkdir loop errors become WalkErrorKind::LinkCycle "
    "(C20.map); (leaf) the flag a cancellation consults before asking walkdir to leave the current directory is the yielded entry's "
    "own file type, so a link read as a file is a leaf and discarding it cannot pop its parent (C13.isdir).  That walkdir honours its window, never descends into links unless asked and detects re-entrant links "
    "is assumed; termination on finite trees follows from walkdir's and is not decided.")
RULES = "C15.window (TABLE on a grid), C15.ctor (TABLE), C15.cycle (= C20.map), C15.leaf (= C13.isdir)"

DB = "walk::behavior::DepthBehavior"
LB = "walk::behavior::LinkBehavior"


def run(ctx):
    F = ctx.facts()
    R = ctx.report
    R.assume("walkdir implements min_depth / max_depth / follow_links and loop detection as documented")
    R.undecided("emptiness when the minimum exceeds the deepest entry of the actual tree (a run-time quantity); termination on finite trees (walkdir's)")
    rule_ctor(F, R)
    rule_window(F, R)
    c20.rule_map(F, R)
    from . import c13
    c13.rule_isdir(F, R)    # a link read as a file is a leaf: the flag a cancellation consults is the entry's own file type


def decode(v):
    v = strip(v)
    if isinstance(v, Adt) and v.variant in ("Some", "None") and v.path.endswith("Option"):
        return ("none",) if v.variant == "None" else decode(v.fields["0"])
    if not isinstance(v, Adt) or v.path != DB:
        return ("?", repr(v))
    if v.variant == "Unbounded":
        return ("unbounded",)
    x = strip(v.fields["0"])
    if v.variant == "Max":
        return ("max", strip(x.fields["0"]))
    if v.variant == "Min":
        return ("min", strip(x.fields["0"]))
    return ("minmax", strip(x.fields["min"]), strip(x.fields["min"]) + strip(x.fields["extent"]))


def rule_ctor(F, R):
    I = Interp(F)
    f1 = F.find("walk::behavior::DepthMinMax::from_depths_or_max")
    for p, q in itertools.product(range(0, 4), repeat=2):
        got = decode(tabulate.single(I.explore(lambda: I.call_item(f1, [p, q]))))
        lo, hi = min(p, q), max(p, q)
        want = ("max", hi) if lo == 0 else ("minmax", lo, hi)
        R.check(got == want, "C15.ctor", "from_depths_or_max(%d,%d)" % (p, q), str(want), f1.where(),
                fail_msg="from_depths_or_max(%d, %d) = %s, expected %s" % (p, q, got, want))
    f2 = F.find("walk::behavior::DepthMin::from_min_or_unbounded")
    for n in range(0, 4):
        got = decode(tabulate.single(I.explore(lambda: I.call_item(f2, [n]))))
        want = ("unbounded",) if n == 0 else ("min", n)
        R.check(got == want, "C15.ctor", "from_min_or_unbounded(%d)" % n, str(want), f2.where(),
                fail_msg="from_min_or_unbounded(%d) = %s, expected %s" % (n, got, want))
    f3 = F.find("walk::behavior::DepthBehavior::bounded")
    for mn, mx in itertools.product([None, 0, 1, 2, 3], repeat=2):
        got = decode(tabulate.single(I.explore(lambda: I.call_item(f3, [some(mn) if mn is not None else none(), some(mx) if mx is not None else none()], inst=False))))
        if mn is None and mx is None:
            want = ("none",)
        elif mn == 0:
            R.ok("C15.ctor", "bounded(%s,%s)" % (mn, mx), "don't-care (a zero minimum is not fixed by the property)", f3.where(), sample=False)
            continue
        elif mx is None:
            want = ("min", mn)
        elif mn is None:
            want = ("max", mx)
        elif mn <= mx:
            want = ("minmax", mn, mx)
        else:
            want = ("none",)
        R.check(got == want, "C15.ctor", "bounded(%s,%s)" % (mn, mx), str(want), f3.where(),
                fail_msg="DepthBehavior::bounded(%s, %s) = %s, expected %s" % (mn, mx, got, want))
    f4 = F.find("walk::behavior::DepthMinMax::max")
    for mn, ex in itertools.product((1, 2), (0, 1, 3)):
        me = Adt("walk::behavior::DepthMinMax", "DepthMinMax", {"min": mn, "extent": ex})
        got = strip(tabulate.single(I.explore(lambda: I.call_item(f4, [Ref(Place(Cell(me)))]))))
        R.check(got == mn + ex, "C15.ctor", "DepthMinMax{%d,+%d}.max" % (mn, ex), str(mn + ex), f4.where(),
                fail_msg="DepthMinMax{min: %d, extent: %d}.max() = %r" % (mn, ex, got))


def _n(v):
    v = strip(v)
    return v.name if isinstance(v, Sym) else repr(v)


INF = W.INF


def rule_window(F, R):
    """C15.window (TABLE on a grid): the walk constructed for (depth behaviour, pivot) consults walkdir with exactly the
    window of traversal depths w for which min <= w + pivot <= max, and consults nothing when no depth qualifies
    (maximum smaller than the prefix).  Construction and the first next() are evaluated together, so the rule does not
    depend on how the translation is split between functions."""
    ctor = F.find("walk::WalkTree::with_pivot_and_behavior")
    nxt = F.find("<walk::WalkTree as std::iter::Iterator>::next")
    cells = []
    for pv in range(0, 5):
        cells.append(("Unbounded", None, None, pv, Adt(DB, "Unbounded", {})))
        for mx in range(0, 6):
            cells.append(("Max", None, mx, pv, Adt(DB, "Max", {"0": Adt("walk::behavior::DepthMax", "DepthMax", {"0": mx})})))
        for mn in range(1, 5):
            cells.append(("Min", mn, None, pv, Adt(DB, "Min", {"0": Adt("walk::behavior::DepthMin", "DepthMin", {"0": mn})})))
            for ex in range(0, 4):
                cells.append(("MinMax", mn, mn + ex, pv, Adt(DB, "MinMax", {"0": Adt("walk::behavior::DepthMinMax", "DepthMinMax", {"min": mn, "extent": ex})})))
    n = 0
    grouped = {}
    for kind, mn, mx, pv, dval in cells:
        for lname, follow in (("ReadFile", False), ("ReadTarget", True)):
            I = Interp(F, W.walkdir_stubs())
            beh = Adt("walk::behavior::WalkBehavior", "WalkBehavior", {"link": Adt(LB, lname, {}), "depth": dval})

            def run():
                tree = W.walk_tree(F, I, depth=dval, link=lname, pivot=pv)
                if isinstance(tree, (Top, Panicked)):
                    return tree
                t = strip(tree)
                if isinstance(t, Adt) and "is_dir" in t.fields and strip(t.fields["is_dir"]) is not False:
                    I.emit("fresh-is-dir", repr(strip(t.fields["is_dir"])))
                return I.call_item(nxt, [Ref(Place(Cell(tree)))])
            cases = I.explore(run)
            consulted = [tuple(ev[1:]) for ev in cases[0].log if ev[0] == "walkdir.next"] if cases else []
            stale = [ev for ev in cases[0].log if ev[0] == "fresh-is-dir"] if cases else []
            n += 1
            inst = "%s(min=%s,max=%s)/pivot=%d/%s" % (kind, mn, mx, pv, lname)
            if len(cases) != 1 or isinstance(cases[0].result, (Top, Panicked)):
                R.fail("C15.window", inst, "constructing the walk and taking its first item is unanalysable / panics: %r" % ([c.result for c in cases][:2],), ctor.where())
                continue
            lo = max((mn or 0) - pv, 0)
            hi = INF if mx is None else mx - pv
            want = [] if hi < 0 else [(lo, hi, follow)]
            if stale:
                grouped.setdefault((kind, "a new walk starts with a current directory"), []).append((inst, "a fresh WalkTree has is_dir = %s: a cancellation before the first entry would skip a directory" % stale[0][1]))
                continue
            if consulted == want:
                R.ok("C15.window", inst, "walkdir window %s" % (("depths %d..%s" % (lo, "inf" if hi == INF else hi)) if want else "empty walk"), ctor.where(), sample=(n % 41 == 0))
                continue
            got = consulted[0] if consulted else None
            if not want:
                sig = "maximum below the prefix length still walks"
                text = ("a maximum depth of %d with a prefix of %d component(s) excludes every entry (the walk root is at depth %d), but "
                        "walkdir is consulted with depths %s..%s: the prefix directory itself is yielded" % (mx, pv, pv, got[0], got[1]))
            elif got is None:
                sig = "walk is empty although depths qualify"
                text = "the window %d..%s is not empty but walkdir is never consulted" % (lo, hi)
            elif got[2] != follow:
                sig = "link behaviour"
                text = "link behaviour %s gives follow_links = %r" % (lname, got[2])
            else:
                sig = "window differs"
                text = "walkdir is consulted with depths %s..%s, expected %d..%s (entries at traversal depth w are at depth w + %d)" % (
                    got[0], "inf" if got[1] == INF else got[1], lo, "inf" if hi == INF else hi, pv)
            grouped.setdefault((kind, sig), []).append((inst, text))
    for (kind, sig), items in sorted(grouped.items()):
        R.fail("C15.window", "%s/%s" % (kind, sig), "%d cell(s), first: %s: %s" % (len(items), items[0][0], items[0][1]), ctor.where())
    R.floor("C15.window", "behaviour x pivot x link cells", n, 250)
