"""C15 — Depth and link behaviours bound the walk as documented (plumbing only)."""
import itertools

from ..teval import (Adt, Tup, Ref, Place, Cell, Sym, RList, Top, Panicked, strip, some, none, Interp)
from .. import tabulate
from . import c20

EXPLANATION = (
    "NARROW: the numeric depth window (saturating translation by the pivot; the prefix case named in the property) and "
    "termination are NOT decided.  Decided is the plumbing: (plumb) WalkTree::with_pivot_and_behavior hands each depth "
    "behaviour to the right walkdir builder method - Max to max_depth, Min to min_depth, MinMax to both with minimum and "
    "maximum not swapped, Unbounded to neither - and the link behaviour to follow_links (ReadFile = false, ReadTarget = "
    "true), evaluated with the pivot translation stubbed so that only the routing is observed; (ctor) the DepthBehavior "
    "constructors over a grid of small numbers (tri-state: what bounded(0, n) returns is not fixed by the property); "
    "(cycle) walkdir loop errors become WalkErrorKind::LinkCycle (C20.map).")
RULES = "C15.plumb (EFFECT), C15.ctor (TABLE), C15.translate (TABLE on a grid), C15.cycle (= C20.map)"

DB = "walk::behavior::DepthBehavior"
LB = "walk::behavior::LinkBehavior"


def run(ctx):
    F = ctx.facts()
    R = ctx.report
    R.assume("walkdir implements min_depth / max_depth / follow_links and loop detection as documented")
    R.undecided("the window after translation by the pivot (`a/b/**` with maximum 1 yields `a/b` at depth 2: saturating "
                "subtraction), emptiness when the bounds exclude every depth, termination on finite trees")
    rule_plumb(F, R)
    rule_ctor(F, R)
    rule_translate(F, R)
    c20.rule_map(F, R)


def rule_plumb(F, R):
    it = F.find("walk::WalkTree::with_pivot_and_behavior")
    depth_cases = {
        "Max": (Adt(DB, "Max", {"0": Adt("walk::behavior::DepthMax", "DepthMax", {"0": Sym("max")})}), {"max_depth": "max_at_pivot(max,pivot)"}),
        "Min": (Adt(DB, "Min", {"0": Adt("walk::behavior::DepthMin", "DepthMin", {"0": Sym("min")})}), {"min_depth": "min_at_pivot(min,pivot)"}),
        "MinMax": (Adt(DB, "MinMax", {"0": Adt("walk::behavior::DepthMinMax", "DepthMinMax", {"min": Sym("min"), "extent": Sym("extent")})}),
                   {"min_depth": "minmax.0", "max_depth": "minmax.1"}),
        "Unbounded": (Adt(DB, "Unbounded", {}), {}),
    }
    for (dname, (dval, want_depth)), (lname, follow) in itertools.product(depth_cases.items(), (("ReadFile", False), ("ReadTarget", True))):
        calls = {}

        def builder(method):
            def st(I, a, fn, e):
                v = strip(a[1])
                calls[method] = v if isinstance(v, bool) else _n(v)
                return a[0]
            return st
        stubs = {
            "walkdir::WalkDir::new": lambda I, a, fn, e: Sym("builder"),
            "walkdir::WalkDir::follow_links": builder("follow_links"),
            "walkdir::WalkDir::min_depth": builder("min_depth"),
            "walkdir::WalkDir::max_depth": builder("max_depth"),
            "walk::behavior::DepthMax::max_at_pivot": lambda I, a, fn, e: Sym("max_at_pivot(%s,%s)" % (_n(strip(a[0]).fields["0"]), _n(a[1]))),
            "walk::behavior::DepthMin::min_at_pivot": lambda I, a, fn, e: Sym("min_at_pivot(%s,%s)" % (_n(strip(a[0]).fields["0"]), _n(a[1]))),
            "walk::behavior::DepthMinMax::min_max_at_pivot": lambda I, a, fn, e: Tup([Sym("minmax.0"), Sym("minmax.1")]),
            "std::iter::IntoIterator::into_iter": lambda I, a, fn, e: Sym("walkdir-iter"),
        }
        I = Interp(F, stubs)
        beh = Adt("walk::behavior::WalkBehavior", "WalkBehavior", {"link": Adt(LB, lname, {}), "depth": dval})
        cases = I.explore(lambda: I.call_item(it, [Sym("root"), Sym("pivot"), beh], inst=False))
        res = strip(tabulate.single(cases))
        inst = "%s/%s" % (dname, lname)
        if not isinstance(res, Adt):
            R.fail("C15.plumb", inst, "unanalysable: %r" % (cases[:1],), it.where())
            continue
        want = dict(want_depth)
        want["follow_links"] = follow
        R.check(calls == want, "C15.plumb", inst, "builder calls %s" % want, it.where(),
                fail_msg="with depth behaviour %s and link behaviour %s the walkdir builder receives %s, expected %s (minimum to "
                         "min_depth, maximum to max_depth, ReadTarget = follow links)" % (dname, lname, calls, want))
        R.check(strip(res.fields.get("is_dir")) is False, "C15.plumb", inst + "/is_dir", "a new walk starts with no current directory", it.where(),
                fail_msg="a new WalkTree starts with is_dir = %r" % (res.fields.get("is_dir"),))


def decode(v):
    v = strip(v)
    if isinstance(v, Adt) and v.variant in ("Some", "None") and v.path.endswith("Option"):
        return ("none",) if v.variant == "None" else decode(v.fields["0"])
    if not isinstance(v, Adt) or v.path != DB:
        return ("?", repr(v))
    if v.variant == "Unbounded":
        return ("unbounded",)
    x = strip(v.fields["0"])
    if v.variant == "Max":
        return ("max", strip(x.fields["0"]))
    if v.variant == "Min":
        return ("min", strip(x.fields["0"]))
    return ("minmax", strip(x.fields["min"]), strip(x.fields["min"]) + strip(x.fields["extent"]))


def rule_ctor(F, R):
    I = Interp(F)
    f1 = F.find("walk::behavior::DepthMinMax::from_depths_or_max")
    for p, q in itertools.product(range(0, 4), repeat=2):
        got = decode(tabulate.single(I.explore(lambda: I.call_item(f1, [p, q]))))
        lo, hi = min(p, q), max(p, q)
        want = ("max", hi) if lo == 0 else ("minmax", lo, hi)
        R.check(got == want, "C15.ctor", "from_depths_or_max(%d,%d)" % (p, q), str(want), f1.where(),
                fail_msg="from_depths_or_max(%d, %d) = %s, expected %s" % (p, q, got, want))
    f2 = F.find("walk::behavior::DepthMin::from_min_or_unbounded")
    for n in range(0, 4):
        got = decode(tabulate.single(I.explore(lambda: I.call_item(f2, [n]))))
        want = ("unbounded",) if n == 0 else ("min", n)
        R.check(got == want, "C15.ctor", "from_min_or_unbounded(%d)" % n, str(want), f2.where(),
                fail_msg="from_min_or_unbounded(%d) = %s, expected %s" % (n, got, want))
    f3 = F.find("walk::behavior::DepthBehavior::bounded")
    for mn, mx in itertools.product([None, 0, 1, 2, 3], repeat=2):
        got = decode(tabulate.single(I.explore(lambda: I.call_item(f3, [some(mn) if mn is not None else none(), some(mx) if mx is not None else none()], inst=False))))
        if mn is None and mx is None:
            want = ("none",)
        elif mn == 0:
            R.ok("C15.ctor", "bounded(%s,%s)" % (mn, mx), "don't-care (a zero minimum is not fixed by the property)", f3.where(), sample=False)
            continue
        elif mx is None:
            want = ("min", mn)
        elif mn is None:
            want = ("max", mx)
        elif mn <= mx:
            want = ("minmax", mn, mx)
        else:
            want = ("none",)
        R.check(got == want, "C15.ctor", "bounded(%s,%s)" % (mn, mx), str(want), f3.where(),
                fail_msg="DepthBehavior::bounded(%s, %s) = %s, expected %s" % (mn, mx, got, want))
    f4 = F.find("walk::behavior::DepthMinMax::max")
    for mn, ex in itertools.product((1, 2), (0, 1, 3)):
        me = Adt("walk::behavior::DepthMinMax", "DepthMinMax", {"min": mn, "extent": ex})
        got = strip(tabulate.single(I.explore(lambda: I.call_item(f4, [Ref(Place(Cell(me)))]))))
        R.check(got == mn + ex, "C15.ctor", "DepthMinMax{%d,+%d}.max" % (mn, ex), str(mn + ex), f4.where(),
                fail_msg="DepthMinMax{min: %d, extent: %d}.max() = %r" % (mn, ex, got))


def _n(v):
    v = strip(v)
    return v.name if isinstance(v, Sym) else repr(v)


def rule_translate(F, R):
    """Translation of the bounds past a prefix of `pivot` components: an entry at depth d from the root segment is at
    walkdir depth d - pivot, so the walkdir minimum is max(min - pivot, 0) and the walkdir maximum is max - pivot.
    What happens when max < pivot is the property's known deviation and a don't-care here.  The functions only add,
    subtract (saturating) and compare their three small arguments: a grid covering every ordering of (min, max, pivot)
    with three or more values each decides them."""
    I = Interp(F)
    fmin = F.find("walk::behavior::DepthMin::min_at_pivot")
    fmax = F.find("walk::behavior::DepthMax::max_at_pivot")
    fmm = F.find("walk::behavior::DepthMinMax::min_max_at_pivot")
    n = 0
    for mn, pv in itertools.product(range(1, 6), range(0, 6)):
        got = strip(tabulate.single(I.explore(lambda: I.call_item(fmin, [Adt("walk::behavior::DepthMin", "DepthMin", {"0": mn}), pv]))))
        n += 1
        R.check(got == max(mn - pv, 0), "C15.translate", "min_at_pivot(%d,%d)" % (mn, pv), str(max(mn - pv, 0)), fmin.where(),
                fail_msg="a minimum depth of %d behind a prefix of %d component(s) becomes %r, expected %d" % (mn, pv, got, max(mn - pv, 0)))
    for mx, pv in itertools.product(range(0, 6), range(0, 6)):
        if mx < pv:
            continue
        got = strip(tabulate.single(I.explore(lambda: I.call_item(fmax, [Adt("walk::behavior::DepthMax", "DepthMax", {"0": mx}), pv]))))
        n += 1
        R.check(got == mx - pv, "C15.translate", "max_at_pivot(%d,%d)" % (mx, pv), str(mx - pv), fmax.where(),
                fail_msg="a maximum depth of %d behind a prefix of %d component(s) becomes %r, expected %d" % (mx, pv, got, mx - pv))
    for mn, ex, pv in itertools.product(range(1, 5), range(0, 4), range(0, 6)):
        mx = mn + ex
        if mx < pv:
            continue
        me = Adt("walk::behavior::DepthMinMax", "DepthMinMax", {"min": mn, "extent": ex})
        res = strip(tabulate.single(I.explore(lambda: I.call_item(fmm, [me, pv]))))
        got = (strip(res.items[0]), strip(res.items[1])) if isinstance(res, Tup) else None
        want = (max(mn - pv, 0), mx - pv)
        n += 1
        R.check(got == want, "C15.translate", "min_max_at_pivot(%d..%d,%d)" % (mn, mx, pv), str(want), fmm.where(),
                fail_msg="the depth window %d..%d behind a prefix of %d component(s) becomes %r, expected %s: entries deeper than the "
                         "maximum would be yielded (or shallower ones lost)" % (mn, mx, pv, got, want))
    R.floor("C15.translate", "translation cells", n, 100)
