"""C15 — Depth and link behaviours bound the walk as documented (plumbing only)."""
import itertools

from ..teval import (Adt, Tup, Ref, Place, Cell, Sym, RList, Top, Panicked, strip, some, none, Interp)
from .. import tabulate
from . import c20
from . import walkfam as W

EXPLANATION = (
    "Decided: (window) for every depth behaviour (Unbounded, Max 0..5, Min 1..4, MinMax with minimum 1..4 and extent 0..3) "
    "x pivot 0..4 (number of prefix components) x link behaviour, the walk that WalkTree::with_pivot_and_behavior "
    "constructs consults walkdir with exactly the window of traversal depths w for which min <= w + pivot <= max, with "
    "follow_links = (link behaviour is ReadTarget), and consults nothing at all when no depth qualifies (maximum smaller "
    "than the prefix) - evaluated end to end (constructor, then the first next()) against a model of walkdir's builder "
    "with its documented clamping, so the rule does not depend on how the translation is split between functions.  The "
    "functions only add, subtract and compare their small arguments, so a grid covering every ordering of (min, max, "
    "pivot) decides them; (ctor) the DepthBehavior constructors over a grid of small numbers (tri-state: what "
    "bounded(0, n) returns is not fixed by the property); (cycle) walkdir loop errors become WalkErrorKind::LinkCycle "
    "(C20.map); (leaf) the flag a cancellation consults before asking walkdir to leave the current directory is the yielded entry's "
    "own file type, so a link read as a file is a leaf and discarding it cannot pop its parent (C13.isdir).  That walkdir honours its window, never descends into links unless asked and detects re-entrant links "
    "is assumed; termination on finite trees follows from walkdir's and is not decided.  "
    "(reach) for 19 glob texts (no prefix, one / two component prefixes, rooted, `..`, wholly invariant, tree wildcards) x 3 base directories x 23 depth behaviours x 2 link behaviours the public route is evaluated as a whole - Glob::new (parser with the nom model, rule checker), Glob::walk_with_behavior (invariant prefix, join, pivot, depth translation, WalkTree construction) and the first next() - against the walkdir model and a hand-written table of prefixes and match depths: whenever a possible match has a depth inside the bounds, walkdir must be consulted on the base joined with the prefix with exactly the window of traversal depths w for which min <= w + (components of the prefix) <= max (when no match can lie inside the bounds nothing is demanded); (convert) every From conversion into WalkBehavior / DepthBehavior and the three defaults carry what they are given and leave the rest at the documented defaults.")
RULES = "C15.window (TABLE on a grid), C15.ctor (TABLE), C15.cycle (= C20.map), C15.leaf (= C13.isdir), C15.reach (TABLE on a catalogue, end to end: glob text -> walkdir root and window), C15.convert (TABLE), C20.source"

DB = "walk::behavior::DepthBehavior"
LB = "walk::behavior::LinkBehavior"


def run(ctx):
    F = ctx.facts()
    R = ctx.report
    R.assume("walkdir implements min_depth / max_depth / follow_links and loop detection as documented")
    R.undecided("emptiness when the minimum exceeds the deepest entry of the actual tree (a run-time quantity); termination on finite trees (walkdir's)")
    rule_ctor(F, R)
    rule_window(F, R)
    rule_reach(F, R)
    rule_convert(F, R)
    c20.rule_map(F, R)
    from . import c13
    c13.rule_isdir(F, R)    # a link read as a file is a leaf: the flag a cancellation consults is the entry's own file type


def decode(v):
    v = strip(v)
    if isinstance(v, Adt) and v.variant in ("Some", "None") and v.path.endswith("Option"):
        return ("none",) if v.variant == "None" else decode(v.fields["0"])
    if not isinstance(v, Adt) or v.path != DB:
        return ("?", repr(v))
    if v.variant == "Unbounded":
        return ("unbounded",)
    x = strip(v.fields["0"])
    if v.variant == "Max":
        return ("max", strip(x.fields["0"]))
    if v.variant == "Min":
        return ("min", strip(x.fields["0"]))
    return ("minmax", strip(x.fields["min"]), strip(x.fields["min"]) + strip(x.fields["extent"]))


def rule_ctor(F, R):
    I = Interp(F)
    f1 = F.find("walk::behavior::DepthMinMax::from_depths_or_max")
    for p, q in itertools.product(range(0, 4), repeat=2):
        got = decode(tabulate.single(I.explore(lambda: I.call_item(f1, [p, q]))))
        lo, hi = min(p, q), max(p, q)
        want = ("max", hi) if lo == 0 else ("minmax", lo, hi)
        R.check(got == want, "C15.ctor", "from_depths_or_max(%d,%d)" % (p, q), str(want), f1.where(),
                fail_msg="from_depths_or_max(%d, %d) = %s, expected %s" % (p, q, got, want))
    f2 = F.find("walk::behavior::DepthMin::from_min_or_unbounded")
    for n in range(0, 4):
        got = decode(tabulate.single(I.explore(lambda: I.call_item(f2, [n]))))
        want = ("unbounded",) if n == 0 else ("min", n)
        R.check(got == want, "C15.ctor", "from_min_or_unbounded(%d)" % n, str(want), f2.where(),
                fail_msg="from_min_or_unbounded(%d) = %s, expected %s" % (n, got, want))
    f3 = F.find("walk::behavior::DepthBehavior::bounded")
    for mn, mx in itertools.product([None, 0, 1, 2, 3], repeat=2):
        got = decode(tabulate.single(I.explore(lambda: I.call_item(f3, [some(mn) if mn is not None else none(), some(mx) if mx is not None else none()], inst=False))))
        if mn is None and mx is None:
            want = ("none",)
        elif mn == 0:
            R.ok("C15.ctor", "bounded(%s,%s)" % (mn, mx), "don't-care (a zero minimum is not fixed by the property)", f3.where(), sample=False)
            continue
        elif mx is None:
            want = ("min", mn)
        elif mn is None:
            want = ("max", mx)
        elif mn <= mx:
            want = ("minmax", mn, mx)
        else:
            want = ("none",)
        R.check(got == want, "C15.ctor", "bounded(%s,%s)" % (mn, mx), str(want), f3.where(),
                fail_msg="DepthBehavior::bounded(%s, %s) = %s, expected %s" % (mn, mx, got, want))
    f4 = F.find("walk::behavior::DepthMinMax::max")
    for mn, ex in itertools.product((1, 2), (0, 1, 3)):
        me = Adt("walk::behavior::DepthMinMax", "DepthMinMax", {"min": mn, "extent": ex})
        got = strip(tabulate.single(I.explore(lambda: I.call_item(f4, [Ref(Place(Cell(me)))]))))
        R.check(got == mn + ex, "C15.ctor", "DepthMinMax{%d,+%d}.max" % (mn, ex), str(mn + ex), f4.where(),
                fail_msg="DepthMinMax{min: %d, extent: %d}.max() = %r" % (mn, ex, got))


def _n(v):
    v = strip(v)
    return v.name if isinstance(v, Sym) else repr(v)


INF = W.INF


def rule_window(F, R):
    c20.rule_source(F, R)    # the window is only honoured by a walk that consults walkdir at all
    """C15.window (TABLE on a grid): the walk constructed for (depth behaviour, pivot) consults walkdir with exactly the
    window of traversal depths w for which min <= w + pivot <= max, and consults nothing when no depth qualifies
    (maximum smaller than the prefix).  Construction and the first next() are evaluated together, so the rule does not
    depend on how the translation is split between functions."""
    ctor = F.find("walk::WalkTree::with_pivot_and_behavior")
    nxt = F.find("<walk::WalkTree as std::iter::Iterator>::next")
    cells = []
    for pv in range(0, 5):
        cells.append(("Unbounded", None, None, pv, Adt(DB, "Unbounded", {})))
        for mx in range(0, 6):
            cells.append(("Max", None, mx, pv, Adt(DB, "Max", {"0": Adt("walk::behavior::DepthMax", "DepthMax", {"0": mx})})))
        for mn in range(1, 5):
            cells.append(("Min", mn, None, pv, Adt(DB, "Min", {"0": Adt("walk::behavior::DepthMin", "DepthMin", {"0": mn})})))
            for ex in range(0, 4):
                cells.append(("MinMax", mn, mn + ex, pv, Adt(DB, "MinMax", {"0": Adt("walk::behavior::DepthMinMax", "DepthMinMax", {"min": mn, "extent": ex})})))
    n = 0
    grouped = {}
    for kind, mn, mx, pv, dval in cells:
        for lname, follow in (("ReadFile", False), ("ReadTarget", True)):
            I = Interp(F, W.walkdir_stubs())
            beh = Adt("walk::behavior::WalkBehavior", "WalkBehavior", {"link": Adt(LB, lname, {}), "depth": dval})

            def run():
                tree = W.walk_tree(F, I, depth=dval, link=lname, pivot=pv)
                if isinstance(tree, (Top, Panicked)):
                    return tree
                t = strip(tree)
                if isinstance(t, Adt) and "is_dir" in t.fields and strip(t.fields["is_dir"]) is not False:
                    I.emit("fresh-is-dir", repr(strip(t.fields["is_dir"])))
                return I.call_item(nxt, [Ref(Place(Cell(tree)))])
            cases = I.explore(run)
            consulted = [tuple(ev[1:]) for ev in cases[0].log if ev[0] == "walkdir.next"] if cases else []
            stale = [ev for ev in cases[0].log if ev[0] == "fresh-is-dir"] if cases else []
            n += 1
            inst = "%s(min=%s,max=%s)/pivot=%d/%s" % (kind, mn, mx, pv, lname)
            if len(cases) != 1 or isinstance(cases[0].result, (Top, Panicked)):
                R.fail("C15.window", inst, "constructing the walk and taking its first item is unanalysable / panics: %r" % ([c.result for c in cases][:2],), ctor.where())
                continue
            lo = max((mn or 0) - pv, 0)
            hi = INF if mx is None else mx - pv
            want = [] if hi < 0 else [(lo, hi, follow)]
            if stale:
                grouped.setdefault((kind, "a new walk starts with a current directory"), []).append((inst, "a fresh WalkTree has is_dir = %s: a cancellation before the first entry would skip a directory" % stale[0][1]))
                continue
            if consulted == want:
                R.ok("C15.window", inst, "walkdir window %s" % (("depths %d..%s" % (lo, "inf" if hi == INF else hi)) if want else "empty walk"), ctor.where(), sample=(n % 41 == 0))
                continue
            got = consulted[0] if consulted else None
            if not want:
                sig = "maximum below the prefix length still walks"
                text = ("a maximum depth of %d with a prefix of %d component(s) excludes every entry (the walk root is at depth %d), but "
                        "walkdir is consulted with depths %s..%s: the prefix directory itself is yielded" % (mx, pv, pv, got[0], got[1]))
            elif got is None:
                sig = "walk is empty although depths qualify"
                text = "the window %d..%s is not empty but walkdir is never consulted" % (lo, hi)
            elif got[2] != follow:
                sig = "link behaviour"
                text = "link behaviour %s gives follow_links = %r" % (lname, got[2])
            else:
                sig = "window differs"
                text = "walkdir is consulted with depths %s..%s, expected %d..%s (entries at traversal depth w are at depth w + %d)" % (
                    got[0], "inf" if got[1] == INF else got[1], lo, "inf" if hi == INF else hi, pv)
            grouped.setdefault((kind, sig), []).append((inst, text))
    for (kind, sig), items in sorted(grouped.items()):
        R.fail("C15.window", "%s/%s" % (kind, sig), "%d cell(s), first: %s: %s" % (len(items), items[0][0], items[0][1]), ctor.where())
    R.floor("C15.window", "behaviour x pivot x link cells", n, 250)


# ---------------------------------------------------------------------------------------------------------------------
# C15.reach: from the glob text to the walkdir window, end to end

# (glob text, invariant prefix as a path text, least and greatest Entry::depth of a match (None = unbounded)); written
# by hand from the README: the prefix is the run of literal components before the first pattern, a rooted glob replaces
# the base directory and its root segment is empty, so the root directory counts as a component of the relative segment
REACH_GLOBS = [
    ("*", "", 1, 1), ("a/*", "a", 2, 2), ("a/b/*", "a/b", 3, 3), ("a/**", "a", 1, None), ("**", "", 0, None), ("a/b", "a/b", 2, 2),
    ("/a/*", "/a", 3, 3), ("/a/b/*", "/a/b", 4, 4), ("/**", "/", 1, None), ("/a/**", "/a", 2, None), ("../a/*", "../a", 3, 3),
    ("a", "a", 1, 1), ("*/b", "", 2, 2), ("{a,b}/*", "", 2, 2), ("a/*/c", "a", 3, 3), ("a/b*", "a", 2, 2), ("(?-i)x/*", "x", 2, 2),
    ("a/b/**/c", "a/b", 3, None), ("/a/b", "/a/b", 3, 3),
]
REACH_BASES = ["base", "", "/abs"]


def reach_behaviours():
    out = [("Unbounded", 0, None, Adt(DB, "Unbounded", {}))]
    for mx in range(0, 5):
        out.append(("Max(%d)" % mx, 0, mx, Adt(DB, "Max", {"0": Adt("walk::behavior::DepthMax", "DepthMax", {"0": mx})})))
    for mn in range(1, 6):
        out.append(("Min(%d)" % mn, mn, None, Adt(DB, "Min", {"0": Adt("walk::behavior::DepthMin", "DepthMin", {"0": mn})})))
    for mn in range(1, 5):
        for ex in range(0, 3):
            out.append(("MinMax(%d,%d)" % (mn, mn + ex), mn, mn + ex, Adt(DB, "MinMax", {"0": Adt("walk::behavior::DepthMinMax", "DepthMinMax", {"min": mn, "extent": ex})})))
    return out


_REACH = None


def _reach_job(job):
    from .. import nommodel as N
    from . import pathmodel as PM
    from ..teval import ok, UNIT
    F, new, walk, nxt = _REACH
    text, base, bname, dval, lname = job
    stubs = dict(N.stubs())
    stubs.update(PM.stubs())
    stubs.update(W.walkdir_stubs())
    # magnitudes and regex compilation play no part here (C05 / C01 decide them)
    stubs["rule::size"] = lambda I, a, fn, e: ok(UNIT)
    stubs["walk::glob::WalkProgram::compile"] = lambda I, a, fn, e: ok(RList([]))
    stubs["encode::compile"] = lambda I, a, fn, e: ok(Sym("program"))
    stubs["Glob::compile"] = lambda I, a, fn, e: ok(Sym("program"))
    I = Interp(F, stubs, fuel=3000000)
    beh = Adt("walk::behavior::WalkBehavior", "WalkBehavior", {"link": Adt(LB, lname, {}), "depth": dval})

    def run():
        g = strip(I.call_item(new, [text]))
        if not (isinstance(g, Adt) and g.variant == "Ok"):
            I.emit("not-built", repr(g)[:200])
            return g
        it_ = I.call_item(walk, [Ref(Place(Cell(g.fields["0"]))), PM.from_text(base), beh], inst=False)
        wt = c20.find_walk_tree(it_)
        if wt is None:
            I.emit("no-walk-tree", repr(strip(it_))[:200])
            return it_
        return I.call_item(nxt, [Ref(Place(Cell(wt)))])
    try:
        cases = I.explore(run)
    except RecursionError:
        return {"unanalysable": "recursion limit"}
    if I.tops or len(cases) != 1 or isinstance(cases[0].result, (Top, Panicked)):
        return {"unanalysable": str((I.tops[:1] or [c.result for c in cases][:2]))[:300]}
    log = cases[0].log
    if any(ev[0] in ("not-built", "no-walk-tree") for ev in log):
        return {"unanalysable": str([ev for ev in log if ev[0] in ("not-built", "no-walk-tree")][0])[:300]}
    return {"new": [ev[1] for ev in log if ev[0] == "walkdir.new"], "next": [tuple(ev[1:]) for ev in log if ev[0] == "walkdir.next"]}


def rule_reach(F, R):
    """C15.reach (TABLE on a catalogue, end to end): for glob texts (no prefix, one / two component prefixes, rooted,
    `..` prefix, wholly invariant, empty, tree wildcards) x base directories (relative, empty, absolute) x every depth
    behaviour of the C15.window grid x both link behaviours, the public route is evaluated from the THIR as a whole -
    Glob::new (parser with the nom model, rule checker), Glob::walk_with_behavior (invariant prefix, join with the base,
    pivot, depth translation, WalkTree construction) and the first next() - against the model of walkdir.  Whenever some
    entry the glob can match has a depth (number of components of its relative segment) inside the configured bounds,
    walkdir must be consulted, on the base joined with the prefix (the prefix alone for a rooted glob), with exactly the
    window of traversal depths w for which min <= w + (components of the prefix) <= max and the configured link
    behaviour.  When no match can lie inside the bounds either answer is right and nothing is demanded."""
    from . import pathmodel as PM
    new = F.find("Glob::new", optional=True)
    walk = F.find("Glob::walk_with_behavior", optional=True)
    nxt = F.find("<walk::WalkTree as std::iter::Iterator>::next", optional=True)
    if new is None or walk is None or nxt is None:
        R.anchor_missing("C15.reach", "Glob::new / Glob::walk_with_behavior / WalkTree::next")
        return
    global _REACH
    _REACH = (F, new, walk, nxt)
    jobs = []
    meta = []
    for text, prefix, dlo, dhi in REACH_GLOBS:
        for base in REACH_BASES:
            for bname, mn, mx, dval in reach_behaviours():
                for lname, follow in (("ReadFile", False), ("ReadTarget", True)):
                    jobs.append((text, base, bname, dval, lname))
                    meta.append((text, prefix, dlo, dhi, base, bname, mn, mx, lname, follow))
    import multiprocessing as mp
    import os as _os
    import sys as _sys
    _sys.setrecursionlimit(20000)
    with mp.get_context("fork").Pool(min(16, _os.cpu_count() or 4)) as pool:
        results = pool.map(_reach_job, jobs, chunksize=32)
    n = demanded = 0
    bad = []
    for (text, prefix, dlo, dhi, base, bname, mn, mx, lname, follow), res in zip(meta, results):
        n += 1
        inst = "`%s` from `%s` %s %s" % (text, base, bname, lname)
        if "unanalysable" in res:
            bad.append((inst, "the route from the glob text to the first item could not be evaluated: %s" % res["unanalysable"]))
            continue
        ppath = PM.from_text(prefix)
        pivot = PM.n_components(ppath)
        root = PM.join(PM.from_text(base), ppath) if prefix else PM.from_text(base)
        lo = max(mn - pivot, 0)
        hi = INF if mx is None else mx - pivot
        # traversal depths at which the glob can match
        tlo = dlo - pivot
        thi = INF if dhi is None else dhi - pivot
        if hi < 0 or max(lo, tlo) > min(hi, thi):
            continue        # no match can lie inside the bounds: an empty walk and a walk of the window are both right
        demanded += 1
        want_root = repr(strip(root))
        got_new, got_next = res["new"], res["next"]
        if got_new == [want_root] and got_next == [(lo, hi, follow)]:
            R.ok("C15.reach", inst, "walkdir on %s, depths %d..%s" % (PM.show(root), lo, "inf" if hi == INF else hi), walk.where(), sample=(demanded % 301 == 1))
        else:
            bad.append((inst, "matches of `%s` walked from `%s` have depths %d..%s, the bounds %s admit some of them, so walkdir must be consulted on %s with "
                        "traversal depths %d..%s (prefix of %d component(s)), follow_links = %s; it is consulted %s" % (
                            text, base, dlo, "inf" if dhi is None else dhi, bname, PM.show(root), lo, "inf" if hi == INF else hi, pivot, follow,
                            ("on %s with %s" % (got_new, got_next)) if got_next else "never (the walk is empty)")))
    bad.sort(key=lambda x: (len(x[0]), x[0]))
    for inst, msg in bad[:8]:
        R.fail("C15.reach", inst, msg + (" [%d cells deviate; the shortest are reported]" % len(bad) if len(bad) > 8 else ""), walk.where())
    for inst, msg in bad[8:]:
        R.obligations.append(("C15.reach", inst, False, msg))
    R.floor("C15.reach", "glob x base x behaviour x link cells evaluated", n, 2600)
    R.floor("C15.reach", "cells in which a match lies inside the bounds", demanded, 1000)


def rule_convert(F, R):
    """C15.convert (TABLE): the conversions through which callers hand a behaviour to a walk (`impl Into<WalkBehavior>`)
    carry exactly what they are given and leave the rest at the documented defaults (depth unbounded, links read as
    files): every From impl into WalkBehavior and DepthBehavior, and the three Default impls, evaluated on
    representative values."""
    def canon(v):
        v = strip(v)
        if isinstance(v, Adt):
            return (v.path.split("::")[-1], v.variant, tuple(sorted((k, canon(x)) for k, x in v.fields.items())))
        return v
    dmax = Adt("walk::behavior::DepthMax", "DepthMax", {"0": 3})
    dmin = Adt("walk::behavior::DepthMin", "DepthMin", {"0": 2})
    dmm = Adt("walk::behavior::DepthMinMax", "DepthMinMax", {"min": 2, "extent": 1})
    unb = Adt(DB, "Unbounded", {})
    rf = Adt(LB, "ReadFile", {})
    rt = Adt(LB, "ReadTarget", {})

    def wb(depth, link):
        return Adt("walk::behavior::WalkBehavior", "WalkBehavior", {"depth": depth, "link": link})
    samples = {
        "walk::behavior::DepthMax": [(dmax, Adt(DB, "Max", {"0": dmax}))],
        "walk::behavior::DepthMin": [(dmin, Adt(DB, "Min", {"0": dmin}))],
        "walk::behavior::DepthMinMax": [(dmm, Adt(DB, "MinMax", {"0": dmm}))],
        "walk::behavior::DepthBehavior": [(Adt(DB, "Max", {"0": dmax}), Adt(DB, "Max", {"0": dmax})), (unb, unb)],
        "walk::behavior::LinkBehavior": [(rt, None), (rf, None)],
        "()": [(Tup([]), None)],
    }
    n = 0
    for it in sorted(F.items.values(), key=lambda i: i.key):
        if not it.where().startswith("src/walk/behavior.rs"):
            continue
        if it.name == "default" and it.impl_trait == "std::default::Default" and it.impl_adt in (DB, LB, "walk::behavior::WalkBehavior"):
            I = Interp(F)
            res = tabulate.single(I.explore(lambda: I.call_item(it, [])))
            want = {DB: unb, LB: rf, "walk::behavior::WalkBehavior": wb(unb, rf)}[it.impl_adt]
            n += 1
            R.check(canon(res) == canon(want), "C15.convert", "%s::default" % it.impl_adt.split("::")[-1], "the documented default", it.where(),
                    fail_msg="%s::default() is %r, documented: %r" % (it.impl_adt, strip(res), want))
            continue
        if it.name != "from" or it.impl_trait != "std::convert::From" or it.impl_adt not in (DB, "walk::behavior::WalkBehavior"):
            continue
        th = F.thir(it)
        src = F.ty_str(th["params"][0]["ty"])
        for value, as_depth in samples.get(src, []):
            I = Interp(F)
            res = tabulate.single(I.explore(lambda: I.call_item(it, [value])))
            if it.impl_adt == DB:
                want = as_depth
            elif src == "walk::behavior::LinkBehavior":
                want = wb(unb, value)
            elif src == "()":
                want = wb(unb, rf)
            else:
                want = wb(as_depth, rf)
            n += 1
            R.check(canon(res) == canon(want), "C15.convert", "%s from %s %r" % (it.impl_adt.split("::")[-1], src.split("::")[-1], strip(value)),
                    "carries the given value, defaults elsewhere", it.where(),
                    fail_msg="converting %r into %s gives %r, expected %r" % (strip(value), it.impl_adt.split("::")[-1], strip(res), want))
        if src not in samples:
            R.fail("C15.convert", "%s from %s" % (it.impl_adt, src), "a conversion from %s into %s that the rule has no reference for" % (src, it.impl_adt), it.where())
    R.floor("C15.convert", "conversions and defaults evaluated", n, 14)
