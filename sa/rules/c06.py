"""C06 — Rule checking accepts exactly the well-formed expressions, context-free."""
import itertools

from ..teval import (Adt, Tup, Ref, Place, Cell, Sym, RList, PyFn, Top, Panicked, strip, some, none, ok, err, UNIT, Interp)
from ..facts import AnchorMissing, fn_refs
from .. import tabulate, models
from . import tokens as T
from . import c12

EXPLANATION = (
    "(documented) On the expression catalogue (sa/rules/exhaust.py: one branch in every context, two branches in one sequence, "
    "a branch nested in a repetition, the same behind a root; ~20 000 expressions in the quick tier) the verdict of the rule "
    "functions (rule::boundary, branch, bounds evaluated from their THIR on the whole tree) is compared with the documented "
    "rules, computed independently by expansion: every choice of alternation branches, every repetition body once and twice, "
    "must put no two component boundaries next to each other and (one pass) no two zero-or-more wildcards; no branch is solely "
    "a tree wildcard, no repetition body solely a separator or zero-or-more wildcard; no alternation branch and no optional "
    "repetition that nothing can precede begins with a separator or rooted tree wildcard.  Both directions (accepted <=> "
    "well-formed), for the shapes of the catalogue.  For all expressions: "
    "Static decision of the rule checker's finite structure: (table) the decision tables of check_branch, "
    "check_alternation and check_repetition over terminal shapes x neighbour predicates against a reference written from "
    "the README / property text (accept / reject, tri-state); (ctxfree) the neighbour context handed to each check is "
    "exactly the branch's own nearest neighbours - decided twice: as a loop-carried-dependence rule on the THIR of "
    "rule::branch (no variable assigned inside the traversal loop may reach a check argument; only the work queue "
    "carries data between iterations) and by evaluating the traversal on small abstract trees with sibling branches and "
    "comparing every (branch, left, right) triple with an independently computed reference; (reach) the Starting / Ending "
    "sequencers select first / last / all children and LeafKind::boundary = {separator, tree wildcard}; (bounds, size) "
    "the two predicates; (all) check returns Ok only after all four rules, and Checked is constructed only in check and "
    "in transformations of an existing Checked; (syntax) on the text catalogue of C01.parse (~12 700 texts; the parser "
    "evaluated from its THIR with the nom combinators modelled) the parser accepts exactly the texts that are in the "
    "documented syntax - flags anywhere except inside a tree wildcard or at the very end of a sub-expression, balanced "
    "delimiters, well-formed bounds and classes, tree wildcards delimited by separators or terminations - and rejects the rest.  "
    "(text) ~6 400 texts taken through the parser - two groups around nothing / a literal / a separator / a wildcard with every combination of leading and trailing separators, and groups inside groups - are judged by the four rule functions and by the documented rules computed by expansion, both directions; two known families (a rooting branch / a wrap-around of a repetition body reached through a nested group) are reported as known findings with ceilings on their sizes.")
RULES = "C06.documented (TABLE on a catalogue: verdict vs. the documented rules by expansion), C06.table (TABLE), C06.ctxfree (LOOPDEP + EFFECT), C06.reach (TABLE), C06.bounds / C06.size (TABLE), C06.all (EFFECT+WHO), C06.syntax (TABLE on a text catalogue: parser accepts exactly the documented syntax), C06.text (TABLE on a text catalogue: rule checker on parsed texts vs. the documented rules)"

KINDS = ["sep", "tree-rooted", "tree", "zom", "lit", "branch"]
BOUNDARY = {"sep", "tree-rooted", "tree"}
TERM = "rule::Terminals"
OUTER = "rule::branch::Outer"


def mk(kind, name):
    if kind == "branch":
        return T.branch("alt", [T.leaf("lit", name + "i")], name)
    return T.leaf(kind, name)


def run(ctx):
    F = ctx.facts()
    R = ctx.report
    R.assume("the grouping of `boundary()` by position (itertools group_by) and the adjacency search beyond the "
             "Starting/Ending selection are as documented by itertools")
    R.undecided("completeness of the rule set for the documented grammar; the `boundary` rule's group_by pipeline")
    rule_tables(F, R)
    rule_loopdep(F, R)
    rule_traversal(F, R)
    c12.rule_starting(F, R, "C06.reach")
    rule_boundary(F, R)
    rule_bounds_size(F, R)
    rule_all(F, R)
    from . import exhaust
    exhaust.report_query(F, R, "C06.documented", ctx.tier, "rules", 15000, 15000)
    from . import parsecat
    parsecat.report(F, R, "C06.syntax", ctx.tier, ("accepts", "rejects"), 12000)
    parsecat.report_rules(F, R, "C06.text")


# ---------------------------------------------------------------------------------------------------


def predicate_stubs(flags):
    """has_ending_boundary(left) etc. as table columns: false for a missing neighbour, else the chosen value."""
    def mkstub(name):
        def st(I, a, fn, e):
            o = strip(a[0])
            if isinstance(o, Adt) and o.variant == "None":
                return False
            return flags[name]
        return st
    return {
        "rule::branch::has_ending_boundary": mkstub("LB"),
        "rule::branch::has_starting_boundary": mkstub("RB"),
        "rule::branch::has_ending_zom": mkstub("LZ"),
        "rule::branch::has_starting_zom": mkstub("RZ"),
        "rule::branch::CorrelatedError::new": lambda I, a, fn, e: Adt("CorrelatedError", "CorrelatedError", {"kind": strip(a[0])}),
    }


def outer_value(left, right):
    return Adt(OUTER, "Outer", {"left": some(Ref(Place(Cell(T.leaf("lit", "LEFT"))))) if left else none(),
                                "right": some(Ref(Place(Cell(T.leaf("lit", "RIGHT"))))) if right else none()})


def terminals_value(s, e):
    if e is None:
        return Adt(TERM, "Only", {"0": Ref(Place(Cell(mk(s, "s"))))})
    return Adt(TERM, "StartEnd", {"0": Ref(Place(Cell(mk(s, "s")))), "1": Ref(Place(Cell(mk(e, "e"))))})


def ref_check_branch(s, e, left, right, f):
    only = e is None
    e_ = s if only else e
    LB, RB, LZ, RZ = (f["LB"] and left), (f["RB"] and right), (f["LZ"] and left), (f["RZ"] and right)
    if s in BOUNDARY and LB:
        return "reject"
    if e_ in BOUNDARY and RB:
        return "reject"
    if only and s in ("tree", "tree-rooted"):
        return "reject"
    if s == "zom" and LZ:
        return "reject"
    if e_ == "zom" and RZ:
        return "reject"
    return "accept"


def ref_check_alternation(s, e, left):
    if s in ("sep", "tree-rooted") and not left:
        return "reject"
    return "accept"


def ref_check_repetition(s, e, left, lower_zero):
    only = e is None
    if s in ("sep", "tree-rooted") and not left and lower_zero:
        return "reject"
    if not only and s in BOUNDARY and e in BOUNDARY:
        return "reject"
    if only and s == "sep":
        return "reject"
    if only and s == "zom":
        return "reject"
    if not only and s == "zom" and e == "zom":
        return "dont-care"
    return "accept"


def outcome(res):
    res = strip(res)
    if isinstance(res, Adt) and res.variant == "Ok":
        return "accept"
    if isinstance(res, Adt) and res.variant == "Err":
        return "reject"
    return "?"


def shapes():
    for s in KINDS:
        yield s, None
    for s, e in itertools.product(KINDS, repeat=2):
        yield s, e


def rule_tables(F, R):
    cb = F.find("rule::branch::check_branch")
    ca = F.find("rule::branch::check_alternation")
    cr = F.find("rule::branch::check_repetition")
    inst = {it.key: (F.instances_of(it) or [None])[0] for it in (cb, ca, cr)}
    n = 0
    flag_names = ["LB", "RB", "LZ", "RZ"]
    for s, e in shapes():
        for left, right in itertools.product((False, True), repeat=2):
            for bits in itertools.product((False, True), repeat=4):
                f = dict(zip(flag_names, bits))
                # predicates about a missing neighbour are false: skip duplicate columns
                if (not left and (f["LB"] or f["LZ"])) or (not right and (f["RB"] or f["RZ"])):
                    continue
                # a neighbour cannot both end in a boundary and end in a zero-or-more wildcard: still evaluated
                I = Interp(F, predicate_stubs(f))
                cases = I.explore(lambda: I.call_item(cb, [terminals_value(s, e), outer_value(left, right)], inst=inst[cb.key]))
                got = outcome(tabulate.single(cases))
                want = ref_check_branch(s, e, left, right, f)
                n += 1
                name = "check_branch/%s/%s/left=%s,right=%s/%s" % (s, e, left, right, ",".join(k for k in flag_names if f[k]) or "-")
                if got == want:
                    R.ok("C06.table", name, want, cb.where(), sample=(n % 211 == 0))
                else:
                    R.fail("C06.table", name, "a branch with terminals (%s, %s), left neighbour %s, right neighbour %s, predicates %s is "
                           "%sed, the documented rules say %s (cases %r)" % (s, e, left, right, f, got, want, cases[:1]), cb.where())
    for s, e in shapes():
        for left in (False, True):
            I = Interp(F, predicate_stubs(dict.fromkeys(flag_names, False)))
            cases = I.explore(lambda: I.call_item(ca, [terminals_value(s, e), outer_value(left, True)], inst=inst[ca.key]))
            got = outcome(tabulate.single(cases))
            want = ref_check_alternation(s, e, left)
            n += 1
            name = "check_alternation/%s/%s/left=%s" % (s, e, left)
            R.check(got == want, "C06.table", name, want, ca.where(),
                    fail_msg="an alternation branch starting with %s and %s left neighbour is %sed, expected %s: no alternation "
                             "branch may root the expression" % (s, "a" if left else "no", got, want))
    VAR, BND, BVR = "token::variance::Variance", "token::variance::Boundedness", "token::variance::natural::BoundedVariantRange"
    ranges = {
        "0..": (Adt(VAR, "Variant", {"0": Adt(BND, "Unbounded", {})}), True),
        "0..3": (Adt(VAR, "Variant", {"0": Adt(BND, "Bounded", {"0": Adt(BVR, "Upper", {"0": 3})})}), True),
        "2": (Adt(VAR, "Invariant", {"0": 2}), False),
        "1..": (Adt(VAR, "Variant", {"0": Adt(BND, "Bounded", {"0": Adt(BVR, "Lower", {"0": 1})})}), False),
        "1..3": (Adt(VAR, "Variant", {"0": Adt(BND, "Bounded", {"0": Adt(BVR, "Both", {"lower": 1, "extent": 2})})}), False),
    }
    for s, e in shapes():
        for left in (False, True):
            for rname, (rng, zero) in ranges.items():
                I = Interp(F, predicate_stubs(dict.fromkeys(flag_names, False)))
                cases = I.explore(lambda: I.call_item(cr, [terminals_value(s, e), outer_value(left, True), rng], inst=inst[cr.key]))
                got = outcome(tabulate.single(cases))
                want = ref_check_repetition(s, e, left, zero)
                n += 1
                name = "check_repetition/%s/%s/left=%s/%s" % (s, e, left, rname)
                if want == "dont-care":
                    R.ok("C06.table", name, "don't-care", cr.where(), sample=False)
                    continue
                R.check(got == want, "C06.table", name, want, cr.where(),
                        fail_msg="a repetition %s with body terminals (%s, %s) and %s left neighbour is %sed, expected %s "
                                 "(cases %r)" % (rname, s, e, "a" if left else "no", got, want, cases[:1]))
    R.floor("C06.table", "decision cells", n, 1500)


# ---------------------------------------------------------------------------------------------------
# LOOPDEP on the THIR of rule::branch


CHECKS = ("rule::branch::check_branch", "rule::branch::check_alternation", "rule::branch::check_repetition")


def subexprs(th, eid, acc):
    """All expression ids reachable from eid (including statements of blocks and arms)."""
    stack = [eid]
    while stack:
        i = stack.pop()
        if i is None or i in acc:
            continue
        acc.add(i)
        e = th["exprs"][i]
        for k in ("value", "cond", "then", "else", "fun", "arg", "lhs", "rhs", "source", "body", "expr", "scrutinee", "index", "base"):
            v = e.get(k)
            if isinstance(v, int) and k != "block" and not isinstance(v, bool):
                stack.append(v)
        for k in ("args", "fields", "upvars"):
            v = e.get(k)
            if isinstance(v, list):
                for x in v:
                    if isinstance(x, int):
                        stack.append(x)
                    elif isinstance(x, dict) and "e" in x:
                        stack.append(x["e"])
        if e["k"] == "Block":
            b = th["blocks"][e["block"]]
            for sid in b["stmts"]:
                s = th["stmts"][sid]
                if s["k"] == "Expr":
                    stack.append(s["expr"])
                else:
                    if s["init"] is not None:
                        stack.append(s["init"])
                    if s["else"] is not None:
                        for sid2 in th["blocks"][s["else"]]["stmts"]:
                            pass
            if b["expr"] is not None:
                stack.append(b["expr"])
        if e["k"] == "Match":
            for aid in e["arms"]:
                arm = th["arms"][aid]
                stack.append(arm["body"])
                if arm["guard"] is not None:
                    stack.append(arm["guard"])
    return acc


def pattern_vars(p, acc):
    if p is None:
        return acc
    if p["k"] == "Binding":
        acc.add(p["var"])
        pattern_vars(p.get("sub"), acc)
    for sp in p.get("subs", []) or []:
        pattern_vars(sp["p"], acc)
    if p["k"] in ("Deref", "Guard") and p.get("sub"):
        pattern_vars(p["sub"], acc)
    for q in p.get("pats", []) or []:
        pattern_vars(q, acc)
    for q in (p.get("prefix") or []) + (p.get("suffix") or []):
        pattern_vars(q, acc)
    if p.get("slice"):
        pattern_vars(p["slice"], acc)
    return acc


def root_var(th, eid):
    e = th["exprs"][eid]
    while e["k"] in ("Scope", "Field", "Deref", "Use", "Index", "Borrow"):
        eid = e.get("value", e.get("lhs", e.get("arg", e.get("source"))))
        e = th["exprs"][eid]
    if e["k"] in ("VarRef", "UpvarRef"):
        return e["var"], e.get("name")
    return None, None


def rule_loopdep(F, R):
    it = F.find("rule::branch")
    th = F.thir(it)
    exprs = th["exprs"]
    loops = [i for i, e in enumerate(exprs) if e["k"] == "Loop"]
    R.floor("C06.ctxfree", "loops in rule::branch", len(loops), 1)
    # variables declared inside each loop body
    tainted = {}   # var -> (name, reason)
    for li in loops:
        inside = subexprs(th, exprs[li]["body"], set())
        declared = set()
        for i in inside:
            e = exprs[i]
            if e["k"] == "Block":
                for sid in th["blocks"][e["block"]]["stmts"]:
                    s = th["stmts"][sid]
                    if s["k"] == "Let":
                        pattern_vars(s["pat"], declared)
            if e["k"] == "Match":
                for aid in e["arms"]:
                    pattern_vars(th["arms"][aid]["pat"], declared)
            if e["k"] == "Let":
                pattern_vars(e["pat"], declared)
        for i in inside:
            e = exprs[i]
            if e["k"] in ("Assign", "AssignOp"):
                v, name = root_var(th, e["lhs"])
                if v is not None and v not in declared:
                    tainted[v] = (name, "assigned at %s:%s inside the traversal loop but declared outside it" % (it.where().split(":")[0], e["ln"]))
            if e["k"] == "Borrow" and e.get("mut"):
                v, name = root_var(th, e["arg"])
                if v is not None and v not in declared:
                    t = F.types[exprs[e["arg"]]["ty"]]
                    tstr = t.get("s", "")
                    if not tstr.startswith(("std::collections::VecDeque", "std::vec::Vec", "&mut std::collections", "&mut std::vec")):
                        tainted[v] = (name, "mutably borrowed at line %s inside the traversal loop but declared outside it" % e["ln"])
    # propagate through let-chains (a let whose initialiser mentions a tainted variable taints its bindings)
    changed = True
    all_ids = set(range(len(exprs)))
    while changed:
        changed = False
        for s in th["stmts"]:
            if s["k"] != "Let" or s["init"] is None:
                continue
            uses = set(exprs[i]["var"] for i in subexprs(th, s["init"], set()) if exprs[i]["k"] in ("VarRef", "UpvarRef"))
            hit = [u for u in uses if u in tainted]
            if hit:
                for v in pattern_vars(s["pat"], set()):
                    if v not in tainted:
                        tainted[v] = (None, "derived from %s" % tainted[hit[0]][0])
                        changed = True
    # sinks: arguments of the check_* calls
    n = 0
    for i, e in enumerate(exprs):
        if e["k"] != "Call" or "fn" not in e:
            continue
        fn = e["fn"]
        callee = F.items.get(fn.get("resolved_key") or fn["key"])
        if callee is None or callee.qname not in CHECKS:
            continue
        n += 1
        used = set()
        for a in e["args"]:
            for j in subexprs(th, a, set()):
                if exprs[j]["k"] in ("VarRef", "UpvarRef"):
                    used.add((exprs[j]["var"], exprs[j].get("name")))
        bad = [(v, name) for v, name in used if v in tainted]
        inst = "%s@%s" % (callee.qname.rsplit("::", 1)[-1], n)
        if bad:
            v, name = bad[0]
            R.fail("C06.ctxfree", "loop-carried:%s<-%s" % (callee.qname.rsplit("::", 1)[-1], name),
                   "the argument `%s` of %s (line %s) is %s: the verdict for a branch then depends on branches visited earlier "
                   "in the breadth-first traversal, not only on its own neighbours (`{{/a,b}c,d}x{e,f}` builds while "
                   "`{{/a,b}c,d}x` is rejected)" % (name, callee.qname, e["ln"], tainted[v][1]), "%s:%s" % (it.where().split(":")[0], e["ln"]))
        else:
            R.ok("C06.ctxfree", "loop-carried:" + inst, "arguments depend only on the queue entry being processed and on the token's own adjacency", it.where())
    R.floor("C06.ctxfree", "check call sites", n, 4)


# ---------------------------------------------------------------------------------------------------
# EFFECT: traversal on small abstract trees


def tree_catalog():
    L = lambda n: T.leaf("lit", n)
    S = lambda n: T.leaf("sep", n)
    alt = lambda name, *branches: T.branch("alt", list(branches), name)
    cat = lambda name, *toks: T.branch("cat", list(toks), name)
    rep = lambda name, body: T.branch("rep", [body], name, lower=1, upper=None)
    return {
        # {{/a,b}c,d}x{e,f}  (the shape named in the property)
        "nested-first-branch+sibling": cat("top", alt("A", cat("A0", alt("B", cat("B0", S("s"), L("a")), L("b")), L("c")), L("d")), L("x"), alt("C", L("e"), L("f"))),
        "nested-first-branch": cat("top", alt("A", cat("A0", alt("B", cat("B0", S("s"), L("a")), L("b")), L("c")), L("d")), L("x")),
        "two-siblings": cat("top", alt("A", L("a"), L("b")), L("x"), alt("C", L("e"), L("f"))),
        "nested-middle": cat("top", L("p"), alt("A", cat("A0", L("a"), alt("B", L("b"), L("c")), L("d")), L("e")), L("q")),
        "repetition-nested": cat("top", L("p"), rep("R", cat("R0", alt("B", L("b"), L("c")), L("d")))),
        "only-alternation": alt("A", L("a"), cat("A1", alt("B", L("b"), L("c")), L("d"))),
        "three-levels": cat("top", L("p"), alt("A", cat("A0", alt("B", cat("B0", alt("D", L("x"), L("y")), L("z")), L("b")), L("c")), L("d"))),
    }


def reference_visits(tok, inherited=(None, None)):
    """Independent reference: every branch body that must be checked with its nearest neighbours.
    Neighbours: the adjacent tokens in the innermost enclosing concatenation that has one on that side."""
    out = []
    topo = strip(tok.fields["topology"])
    conc = [tok]
    if topo.variant == "Branch":
        b = strip(topo.fields["0"])
        if b.variant == "Concatenation":
            conc = [strip(x) for x in strip(strip(b.fields["0"]).fields["0"]).items]
    for i, t in enumerate(conc):
        tp = strip(t.fields["topology"])
        if tp.variant != "Branch":
            continue
        b = strip(tp.fields["0"])
        left = conc[i - 1].tag if i > 0 else inherited[0]
        right = conc[i + 1].tag if i + 1 < len(conc) else inherited[1]
        if b.variant == "Alternation":
            for child in strip(strip(b.fields["0"]).fields["0"]).items:
                child = strip(child)
                out.append(("alt", body_tag(child), left, right))
                out.extend(reference_visits(child, (left, right)))
        elif b.variant == "Repetition":
            child = strip(strip(b.fields["0"]).fields["token"])
            out.append(("rep", body_tag(child), left, right))
            out.extend(reference_visits(child, (left, right)))
    return out


def body_tag(tok):
    """first/last leaf-or-branch tags of the body's concatenation."""
    topo = strip(tok.fields["topology"])
    conc = [tok]
    if topo.variant == "Branch":
        b = strip(topo.fields["0"])
        if b.variant == "Concatenation":
            conc = [strip(x) for x in strip(strip(b.fields["0"]).fields["0"]).items]
    return "%s..%s" % (conc[0].tag, conc[-1].tag)


def rule_traversal(F, R):
    it = F.find("rule::branch")
    insts = F.instances_of(it)
    R.floor("C06.ctxfree", "rule::branch instances", len(insts), 1)
    inst = insts[0]
    for name, tree in tree_catalog().items():
        visits = []

        def terminal_tags(term):
            term = strip(term)
            a = strip(term.fields["0"])
            b = strip(term.fields["1"]) if term.variant == "StartEnd" else a
            return "%s..%s" % (T.tag_of(a), T.tag_of(b))

        def side(o, which):
            v = strip(strip(o).fields[which])
            if isinstance(v, Adt) and v.variant == "Some":
                return T.tag_of(v.fields["0"])
            return None

        def check_stub(kind):
            def st(I, a, fn, e):
                visits.append((kind, terminal_tags(a[0]), side(a[1], "left"), side(a[1], "right")))
                return ok(UNIT)
            return st
        stubs = {"rule::branch::check_branch": check_stub("branch"),
                 "rule::branch::check_alternation": check_stub("alt"),
                 "rule::branch::check_repetition": check_stub("rep"),
                 "rule::branch::diagnose": lambda I, a, fn, e: PyFn(lambda I2, x: x[0], "diagnose")}
        I = Interp(F, stubs)
        tokenized = Adt("token::Tokenized", "Tokenized", {"expression": Sym("expression"), "token": tree})
        cases = I.explore(lambda: I.call_item(it, [Ref(Place(Cell(tokenized)))], inst=inst))
        res = tabulate.single(cases)
        if outcome(res) != "accept":
            R.fail("C06.ctxfree", "traversal/" + name, "the traversal could not be evaluated: %r" % (cases[:1],), it.where())
            continue
        want = reference_visits(tree)
        got_specific = sorted((k, t, l, r) for k, t, l, r in visits if k != "branch")
        got_branch = sorted((t, l, r) for k, t, l, r in visits if k == "branch")
        want_specific = sorted(want)
        want_branch = sorted((t, l, r) for _k, t, l, r in want)
        good = got_specific == want_specific and got_branch == want_branch
        if good:
            R.ok("C06.ctxfree", "traversal/" + name, "%d branch bodies, each checked once with its own nearest neighbours" % len(want), it.where())
        else:
            diff = [x for x in got_specific if x not in want_specific] + [("branch",) + x for x in got_branch if x not in want_branch]
            miss = [x for x in want_specific if x not in got_specific]
            R.fail("C06.ctxfree", "traversal/" + name,
                   "on the abstract tree `%s` the checks are called with (kind, body, left, right) = %s but each branch's own "
                   "nearest neighbours give %s: the context leaks between branches visited in the same breadth-first pass" % (
                       name, diff[:4], miss[:4]), it.where())


def rule_boundary(F, R):
    I = Interp(F)
    it = F.find("token::LeafKind::boundary")
    want = {"sep": "Separator", "tree": "Component", "tree-rooted": "Component"}
    for s in T.LEAF_SHAPES + ["lit-ci", "class-neg"]:
        res = strip(tabulate.single(I.explore(lambda: I.call_item(it, [Ref(Place(Cell(T.leaf_kind(s))))]))))
        w = want.get(s)
        if w is None:
            good = isinstance(res, Adt) and res.variant == "None"
        else:
            v = strip(res.fields.get("0")) if isinstance(res, Adt) and res.variant == "Some" else None
            good = isinstance(v, Adt) and v.variant == w
        R.check(good, "C06.reach", "LeafKind::boundary/" + s, str(w), it.where(),
                fail_msg="LeafKind::boundary(%s) = %r, expected %s: only separators and tree wildcards are component boundaries" % (s, res, w))


def rule_bounds_size(F, R):
    b = F.find("rule::bounds")
    cl = [c for c in F.closures_of(b, recursive=False) if c.kind == "Closure"]
    if not cl:
        raise AnchorMissing("closures of rule::bounds")
    pred = cl[0]
    from ..teval import Closure
    I = Interp(F)
    for (lo, hi), want in (((2, 1), True), ((0, 0), True), ((1, 1), False), ((0, 3), False), ((3, 3), False), ((0, None), False),
                           ((5, None), False), ((1, 2), False)):
        tok = T.branch("rep", [T.leaf("lit", "x")], lower=lo, upper=hi)
        res = strip(tabulate.single(I.explore(lambda: I.call_closure(Closure(pred.key, {}, (F.instances_of(b) or [None])[0]), [Ref(Place(Cell(Ref(Place(Cell(tok))))))]))))
        R.check(res is want, "C06.bounds", "<x:%s,%s>" % (lo, "" if hi is None else hi), "rejected" if want else "accepted", pred.where(),
                fail_msg="repetition bounds (%s, %s) are %s, expected %s (bounds must be ordered and not 0,0)" % (
                    lo, hi, "rejected" if res is True else ("accepted" if res is False else repr(res)), "rejected" if want else "accepted"))
    tok = T.leaf("lit", "x")
    res = strip(tabulate.single(I.explore(lambda: I.call_closure(Closure(pred.key, {}, (F.instances_of(b) or [None])[0]), [Ref(Place(Cell(Ref(Place(Cell(tok))))))]))))
    R.check(res is False, "C06.bounds", "non-repetition", "accepted", pred.where())
    s = F.find("rule::size")
    cl = [c for c in F.closures_of(s, recursive=False) if c.kind == "Closure"]
    if not cl:
        raise AnchorMissing("closures of rule::size")
    pred = cl[0]
    SIZE, VAR, BND = "token::variance::invariant::Size", "token::variance::Variance", "token::variance::Boundedness"
    limit = F.const("rule::MAX_INVARIANT_SIZE")
    R.check(limit == 0x10000, "C06.size", "MAX_INVARIANT_SIZE", "limit = 0x10000 bytes", "src/rule.rs",
            fail_msg="the invariant size limit evaluates to %r" % (limit,))
    for label, value, want in (("limit-1", Adt(VAR, "Invariant", {"0": Adt(SIZE, "Size", {"0": limit - 1})}), False),
                               ("limit", Adt(VAR, "Invariant", {"0": Adt(SIZE, "Size", {"0": limit})}), True),
                               ("limit+1", Adt(VAR, "Invariant", {"0": Adt(SIZE, "Size", {"0": limit + 1})}), True),
                               ("variant", Adt(VAR, "Variant", {"0": Adt(BND, "Unbounded", {})}), False)):
        I2 = Interp(F, {"token::Token::variance": lambda I3, a, fn, e, value=value: value})
        res = strip(tabulate.single(I2.explore(lambda: I2.call_closure(Closure(pred.key, {}, (F.instances_of(s) or [None])[0]), [Ref(Place(Cell(Ref(Place(Cell(T.leaf("lit", "x")))))))]))))
        R.check(res is want, "C06.size", label, "rejected" if want else "accepted", pred.where(),
                fail_msg="a sub-tree with invariant size %s is %r by the size rule, expected %s (invariant text must stay below "
                         "the limit)" % (label, res, "rejected" if want else "accepted"))


def rule_all(F, R):
    it = F.find("rule::check")
    names = ["boundary", "bounds", "branch", "size"]
    for bits in itertools.product((True, False), repeat=4):
        called = []

        def mkstub(n, good):
            def st(I, a, fn, e):
                called.append(n)
                return ok(UNIT) if good else err(Sym("error_" + n))
            return st
        stubs = {"rule::" + n: mkstub(n, g) for n, g in zip(names, bits)}
        I = Interp(F, stubs)
        res = strip(tabulate.single(I.explore(lambda: I.call_item(it, [Sym("tree")], inst=(F.instances_of(it) or [None])[0]))))
        want_ok = all(bits)
        is_ok = isinstance(res, Adt) and res.variant == "Ok"
        inner = None
        if is_ok:
            ch = strip(res.fields["0"])
            inner = strip(ch.fields.get("inner")) if isinstance(ch, Adt) else None
        good = is_ok == want_ok and (not is_ok or (isinstance(inner, Sym) and inner.name == "tree" and called == names))
        R.check(good, "C06.all", "check/" + "".join("1" if b else "0" for b in bits),
                "Ok(Checked{tree}) only when all four rules pass", it.where(),
                fail_msg="with rule outcomes %s rule::check returns %r after calling %s" % (dict(zip(names, bits)), res, called))
    allowed = {"<rule::Checked as std::clone::Clone>::clone", "rule::Checked::into_alternatives", "rule::Checked::any",
               "rule::Checked::into_owned", "rule::Checked::partition", "rule::check"}
    n = 0
    for item in F.items.values():
        m = F.mir(item)
        for b in m["blocks"]:
            for a in b["aggs"]:
                if a["adt"] == "rule::Checked":
                    n += 1
                    owner = F.owner_fn(item)
                    R.check(owner.qname in allowed, "C06.all", "Checked constructed in " + owner.qname,
                            "only check and transformations of an existing Checked", "%s:%s" % (item.where(), a["ln"]),
                            fail_msg="%s constructs a Checked value: an unchecked token tree can be compiled" % owner.qname)
    R.floor("C06.all", "Checked constructions", n, 6)
