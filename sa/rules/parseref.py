"""Reference reading of the glob syntax, written from the README (sections Patterns, Wildcards, Character Classes,
Alternations, Repetitions, Flags and Case Sensitivity) independently of src/token/parse.rs, and a catalogue of
expression texts.  Used by the C01.parse family of rules: wax's parser function is evaluated from its THIR (nom
combinators replaced by sa/nommodel.py) on every text of the catalogue and the token tree it builds is compared
with the tree this module reads.

A tree is a nested tuple without spans plus, separately, a list of (path, start, end) for the spans:
  ('cat', [token...])                         a (sub-)expression: every sub-glob is a concatenation
  ('lit', text, case_insensitive)             a literal after unescaping
  ('sep',)  ('one',)  ('zom', 'eager'|'lazy')  ('tree', has_leading_separator)
  ('class', negated, [('c', x) | ('r', a, b) ...])
  ('alt', [cat...])        ('rep', cat, lower, upper|None)

`read(text)` returns (tree, spans) / REJECT / DONTCARE.  DONTCARE marks texts on which the README is silent or
ambiguous (a flag between the separator and the stars of a tree wildcard); the rules skip those."""

META = "?*$:<>()[]{},"
LITERAL_STOP = "/" + META + "\\"
REJECT = "reject"
DONTCARE = "dontcare"


class Reject(Exception):
    pass


class DontCare(Exception):
    pass


class Reader:
    def __init__(self, text, default_ci=False):
        self.t = text
        self.ci = default_ci
        self.spans = []

    def b(self, i):
        return len(self.t[:i].encode())

    def flags(self, i):
        """Zero or more `(?...)` groups at i; toggles apply immediately, in text order. -> index after them."""
        t = self.t
        while t.startswith("(?", i):
            j = i + 2
            n = 0
            while True:
                if t.startswith("-i", j):
                    self.ci = False
                    j += 2
                    n += 1
                elif t.startswith("i", j):
                    self.ci = True
                    j += 1
                    n += 1
                else:
                    break
            if n == 0 or not t.startswith(")", j):
                raise Reject("malformed flag group at %d" % i)
            i = j + 1
        return i

    def peek_flags(self, i):
        """Index after any flag groups at i, without applying them."""
        saved = self.ci
        try:
            return self.flags(i)
        finally:
            self.ci = saved

    def cat(self, i, terminators, path):
        """A sub-expression from i up to (not including) a terminator character / the end. -> (tree, index)."""
        t = self.t
        start = i
        toks = []
        while True:
            at_end = i >= len(t)
            if at_end or t[i] in terminators:
                break
            p = path + (len(toks),)
            tok_start = i
            j = self.flags(i)
            if j >= len(t) or t[j] in terminators:
                raise Reject("flags at the very end of a sub-expression")
            c = t[j]
            # ---- tree wildcard: `**` delimited by separators or terminations, adjacent separators parsed together
            if t.startswith("/", j) and t.startswith("**", self.peek_flags(j + 1)):
                k = self.peek_flags(j + 1)
                if k != j + 1:
                    raise DontCare("flag between the separator and the stars of a tree wildcard")
                tok, i = self.tree(j, True, terminators)
            elif t.startswith("**", j):
                if not (tok_start == start):
                    raise Reject("tree wildcard not delimited on the left")
                tok, i = self.tree(j, False, terminators)
            elif c == "/":
                tok, i = ("sep",), j + 1
            elif c == "?":
                tok, i = ("one",), j + 1
            elif c in "*$":
                k = self.peek_flags(j + 1)
                if k < len(t) and t[k] in "*$":
                    raise Reject("adjacent zero-or-more wildcards")
                if k != j + 1 and (k >= len(t) or t[k] in terminators):
                    raise Reject("flags at the very end of a sub-expression")
                tok, i = ("zom", "eager" if c == "*" else "lazy"), j + 1
            elif c == "[":
                tok, i = self.klass(j)
            elif c == "{":
                tok, i = self.alt(j, p)
            elif c == "<":
                tok, i = self.rep(j, p)
            elif c in META or c == "\\" and (j + 1 >= len(t) or t[j + 1] not in META):
                raise Reject("unexpected %r at %d" % (c, j))
            else:
                tok, i = self.literal(j)
            toks.append(tok)
            self.spans.append((p, self.b(tok_start), self.b(j), self.b(i)))
        if not toks:
            raise Reject("empty sub-expression")
        self.spans.append((path, self.b(start), self.b(start), self.b(i)))
        return ("cat", toks), i

    def tree(self, j, lead, terminators):
        t = self.t
        k = j + (3 if lead else 2)
        if k >= len(t) or t[k] in terminators:
            return ("tree", lead), k
        k2 = self.peek_flags(k)
        if k2 != k and t.startswith("/", k2):
            raise DontCare("flag between the stars and the separator of a tree wildcard")
        if t[k] == "/":
            return ("tree", lead), k + 1
        raise Reject("tree wildcard not delimited on the right")

    def literal(self, j):
        t = self.t
        out = ""
        i = j
        while i < len(t):
            c = t[i]
            if c == "\\":
                if i + 1 < len(t) and t[i + 1] in META:
                    out += t[i + 1]
                    i += 2
                    continue
                raise Reject("backslash that does not escape a meta-character")
            if c in LITERAL_STOP:
                break
            out += c
            i += 1
        return ("lit", out, self.ci), i

    def klass(self, j):
        t = self.t
        i = j + 1
        neg = False
        if t.startswith("!", i):
            neg = True
            i += 1

        def ch(i):
            if i >= len(t):
                raise Reject("unterminated class")
            if t[i] == "\\":
                if i + 1 < len(t) and t[i + 1] in "[]-":
                    return t[i + 1], i + 2
                raise Reject("bad escape in class")
            if t[i] in "[]-":
                return None, i
            return t[i], i + 1
        arch = []
        while True:
            a, k = ch(i)
            if a is None:
                break
            if t.startswith("-", k):
                b, k2 = ch(k + 1)
                if b is None:
                    raise Reject("dangling hyphen in class")
                arch.append(("r", a, b))
                i = k2
            else:
                arch.append(("c", a))
                i = k
        if not arch or not t.startswith("]", i):
            raise Reject("malformed class")
        return ("class", neg, arch), i + 1

    def alt(self, j, p):
        t = self.t
        i = j + 1
        branches = []
        while True:
            b, i = self.cat(i, ",}", p + (len(branches),))
            branches.append(b)
            if i >= len(t):
                raise Reject("unterminated alternation")
            if t[i] == ",":
                i += 1
                continue
            break
        return ("alt", branches), i + 1

    def rep(self, j, p):
        t = self.t
        body, i = self.cat(j + 1, ":>", p + (0,))
        if i >= len(t):
            raise Reject("unterminated repetition")
        lo, hi = 0, None
        if t[i] == ":":
            i += 1
            k = i
            while k < len(t) and t[k].isdigit() and t[k].isascii():
                k += 1
            if k == i:
                lo, hi = 1, None
            else:
                lo = int(t[i:k])
                if t.startswith(",", k):
                    k2 = k + 1
                    while k2 < len(t) and t[k2].isdigit() and t[k2].isascii():
                        k2 += 1
                    hi = int(t[k + 1:k2]) if k2 > k + 1 else None
                    k = k2
                else:
                    hi = lo
                i = k
        if not t.startswith(">", i):
            raise Reject("malformed bounds")
        return ("rep", body, lo, hi), i + 1


def read(text, default_ci=False):
    if text == "":
        return ("cat", []), [((), 0, 0, 0)]
    r = Reader(text, default_ci)
    try:
        tree, i = r.cat(0, "", ())
    except Reject:
        return REJECT
    except DontCare:
        return DONTCARE
    if i != len(text):
        return REJECT
    return tree, r.spans


# ---------------------------------------------------------------------------------------------------------------------
# Catalogue of texts

ATOMS_QUICK = [
    "a", "b.c", "é", "\\*", "x\\,y", "?", "*", "$", "/", "**", "[ab]", "[!a-c]", "[a\\-\\]]", "(?i)", "(?-i)", "-", "!",
]
WRAPS = ["{%s}", "{%s,b}", "{a,%s}", "<%s>", "<%s:>", "<%s:2>", "<%s:1,>", "<%s:0,3>"]
BROKEN = [
    "{a", "a}", "<a", "a>", "[a", "a]", "[]", "[!]", "[a-]", "[-a]", "a:b", "a,b", "<a:,2>", "<a:x>", "<a:1,2", "{}", "{a,}", "{,a}", "<>",
    "<:1>", "(?)", "(?x)", "(?i", "a(?i)", "{a(?i),b}", "<a(?i):1>", "a\\", "a\\b", "\\/", "***", "a**", "**a", "a/**b", "a**/b", "*$", "$*", "**/**",
    "a/**/**/b", "*(?i)*", "a/*(?i)*", "()", "(a)", "a)", "(?i)(?-i)", "[a-b-c]", "[[a]", "[a]]", "{a}}", "<<a>", "<a:1,2,3>", "<a:-1>", "<a: 1>",
    "{a:b}", "<a,b>", "<a:1>:", "{<a},b>",
]
EXTRA_OK = [
    "(?-i)photos/**/*.(?i){jpg,jpeg}", "**/*.{go,rs}", "<[!.]*/>[!.]*", "<[0-9]:4>", "<?:8>", "a/<b/**:1,>", "{*.{go,rs}}", "{???}", "[qa-cX-Z]",
    "[a\\-]", "<a*/:0,>", "{a?c,x?z,foo}", "/**/*.txt", "**/*.txt", "**", "/**", "/", "a/**", "a/**/b", "/a", "a/", "a//b", "*{a,b*}", "(?i)(?-i)a",
    "(?i-i)a", "(?-ii)a", "{(?i)a,b}c", "{a,(?i)b}c", "<(?i)a:1,2>b", "{(?i)a,b}(?-i){c,d}e", "{{(?i)a},b}c", "a{b(?i)c,d}e", "(?i)a{(?-i)b,c}d",
    "<{(?i)a,b}/:1,>c", "(?i)**/a", "{(?i)**/a,b}", "<(?i)**/a:1>", "(?i)/**/a", "a(?i)/**/b", "a/**(?i)", "*(?i)a", "$(?-i)a", "?(?i)?", "[a](?i)b",
    "(?i)[a]b", "(?i)?a", "(?i)/a", "a(?i)/b", "(?i){a,b}", "(?i)<a:2>", "愛/グロブ*", "{愛,b}", "<愛:2>", "[愛-木]", "a\\{b\\}", "\\[a\\]", "a\\?b\\*c\\$",
    "\\(?i\\)", "a\\:b", "\\<a\\>", "a-b", "a!b", "!a", "-", "a.b/c_d", "{a/b,c}/d", "<a/:1,3>b", "{a,b/**}", "{**/a,b}", "</a:1,>", "<a/**/:1,>b",
    "{a,b,c,d}", "{a,{b,{c,d}}}", "<<a:2>:3>", "<{a,b}:1,2>", "{<a:1>,<b:2,>}", "<a:0>", "<a:0,0>", "<a:10,20>", "<a:007>", "<a:3,1>",
    "[.-9]", "[!!]", "[a!]", "[\\[]", "[a-a]", "[z-a]", "[,]", "[?*$]", "[{}]", "[<>]", "[(:)]", "[/]", "[a/b]",
]


def catalogue(tier="quick"):
    import itertools
    atoms = list(ATOMS_QUICK)
    texts = set(EXTRA_OK) | set(BROKEN) | {""}
    for n in (1, 2, 3):
        for combo in itertools.product(atoms, repeat=n):
            texts.add("".join(combo))
    inner = [a for a in atoms] + ["a/", "/a", "a/b", "**/a", "a/**", "(?i)a", "a(?-i)b", "*a", "a*"]
    for w in WRAPS:
        for x in inner:
            body = w % x
            texts.add(body)
            for pre in ("", "a", "/", "(?i)", "*", "a/"):
                for post in ("", "b", "/", "*", "/b", "(?i)b"):
                    texts.add(pre + body + post)
    if tier == "thorough":
        for combo in itertools.product(atoms, repeat=4):
            texts.add("".join(combo))
        for w1 in WRAPS:
            for w2 in WRAPS:
                for x in ("a", "(?i)a", "a/", "**/a", "[ab]", "*"):
                    texts.add(w1 % (w2 % x))
                    texts.add("x" + (w1 % (w2 % x)) + "y")
    return sorted(texts)
