"""C19 — Re-expressing or re-owning a pattern does not change its behaviour."""
from ..teval import Adt, Tup, Ref, Place, Cell, Sym, RList, StrB, Top, Panicked, strip, some, none, ok, err, UNIT, Interp
from ..facts import AnchorMissing, fn_refs
from .. import tabulate
from . import tokens as T
from . import c06

EXPLANATION = (
    "(owned) On the expression catalogue (~13 000 expressions, ~5 600 buildable, incl. classes, every shape of repetition bounds, "
    "two and nested branches) Token::into_owned - evaluated from its THIR with the whole fold_map / decompose / compose machinery - "
    "returns a tree that is structurally identical to its input (kinds, children in order, bounds, flags, class members).  For all "
    "trees, by cases: "
    "Static decision that the conversions are structure-preserving: (kinds) LeafKind::into_owned, BranchKind::decompose, "
    "BranchFold::fold and the three compose impls keep the variant and every child (a repetition keeps its single child "
    "and its bounds); (order) Token::into_owned - the generic fold_map machinery - rebuilds every tree of a catalogue of "
    "abstract trees (nesting <= 3, mixed branch kinds, fan-out <= 3) identically, children in their original order; "
    "(pair) every construction of Glob / Any pairs a tree with the program compiled from that same tree or moves an "
    "existing pair together (new, partition, into_owned, any); (route) FromStr = new + into_owned, TryFrom<&str> = new, "
    "Display writes the stored expression of the tree; (text) the expression the parser stores is exactly the text it was "
    "given, on the ~10 700 accepted texts of the parser catalogue (C01.parse), so Display + new parses the same text again.  "
    "Equality of behaviour as such is not computed; owned captures are decided in C04.whole.")
RULES = "C19.owned (TABLE on a catalogue: into_owned is the identity on trees), C19.kinds (TABLE), C19.order (EFFECT), C19.pair (PROV), C19.route (WHO), C19.text (TABLE on a text catalogue: stored expression = text parsed), C08.bytes (EFFECT: the expression Display writes after a partition)"


def run(ctx):
    F = ctx.facts()
    R = ctx.report
    R.assume("Clone is derived (structural); regex::Regex clones share the compiled program")
    R.undecided("equality of matching behaviour as such (follows from identical token trees and programs)")
    rule_kinds(F, R)
    rule_order(F, R)
    rule_pair(F, R)
    rule_route(F, R)
    from . import exhaust
    exhaust.report_query(F, R, "C19.owned", ctx.tier, "owned", 10000, 4000)
    from . import c08
    c08.rule_partition(F, R)   # Display writes the stored expression: after a partition it must be the text of the remaining tokens
    from . import parsecat
    # Display + new / FromStr / TryFrom: the text Display writes is the stored expression (C19.route); building it again
    # gives the same glob only if the parser stores exactly the text it was given
    parsecat.report(F, R, "C19.text", ctx.tier, ("expression",), 12000)
    parsecat.report_partition(F, R, "C08.text")   # what Display writes after a partition, from real parser annotations


def canon(v):
    return repr(strip(v))


def rule_kinds(F, R):
    I = Interp(F)
    it = F.find("token::LeafKind::into_owned")
    for shape in T.LEAF_SHAPES + ["lit-ci", "class-neg", "class-range"]:
        leaf = T.leaf_kind(shape, "k")
        res = tabulate.single(I.explore(lambda: I.call_item(it, [T.leaf_kind(shape, "k")])))
        R.check(canon(res) == canon(leaf), "C19.kinds", "LeafKind::into_owned/" + shape, "same kind and payload", it.where(),
                fail_msg="LeafKind::into_owned turns %s into %r" % (canon(leaf), res))
    fold = F.find("token::walk::BranchFold::fold")
    insts = F.instances_of(fold)
    R.floor("C19.kinds", "BranchFold::fold instances", len(insts), 1)
    BF = "token::walk::BranchFold"
    kids = lambda n: [T.leaf("lit", "c%d" % i) for i in range(n)]
    VAR, BND, BVR = "token::variance::Variance", "token::variance::Boundedness", "token::variance::natural::BoundedVariantRange"
    for n in (1, 2, 3):
        for variant in ("Alternation", "Concatenation"):
            res = strip(tabulate.single(I.explore(lambda: I.call_item(fold, [Adt(BF, variant, {"0": UNIT}), RList(kids(n))], inst=insts[0]))))
            v = strip(res.fields.get("0")) if isinstance(res, Adt) and res.variant == "Ok" else None
            good = isinstance(v, Adt) and v.variant == variant and canon(strip(strip(v.fields["0"]).fields["0"])) == canon(RList(kids(n)))
            R.check(good, "C19.kinds", "BranchFold::%s/%d" % (variant, n), "same kind, all %d children in order" % n, fold.where(),
                    fail_msg="BranchFold::%s over %d children rebuilds %r" % (variant, n, res))
    ranges = {"2..4": (Adt(VAR, "Variant", {"0": Adt(BND, "Bounded", {"0": Adt(BVR, "Both", {"lower": 2, "extent": 2})})}), 2, 4),
              "3": (Adt(VAR, "Invariant", {"0": 3}), 3, 3),
              "0..": (Adt(VAR, "Variant", {"0": Adt(BND, "Unbounded", {})}), 0, None),
              "1..": (Adt(VAR, "Variant", {"0": Adt(BND, "Bounded", {"0": Adt(BVR, "Lower", {"0": 1})})}), 1, None),
              "0..3": (Adt(VAR, "Variant", {"0": Adt(BND, "Bounded", {"0": Adt(BVR, "Upper", {"0": 3})})}), 0, 3)}
    for name, (rng, lo, hi) in ranges.items():
        res = strip(tabulate.single(I.explore(lambda: I.call_item(fold, [Adt(BF, "Repetition", {"0": rng}), RList(kids(1))], inst=insts[0]))))
        v = strip(res.fields.get("0")) if isinstance(res, Adt) and res.variant == "Ok" else None
        rep = strip(v.fields["0"]) if isinstance(v, Adt) and v.variant == "Repetition" else None
        good = False
        if isinstance(rep, Adt):
            up = strip(rep.fields.get("upper"))
            upv = strip(up.fields["0"]) if isinstance(up, Adt) and up.variant == "Some" else None
            good = canon(rep.fields.get("token")) == canon(kids(1)[0]) and strip(rep.fields.get("lower")) == lo and upv == hi and \
                (hi is not None or (isinstance(up, Adt) and up.variant == "None"))
        R.check(good, "C19.kinds", "BranchFold::Repetition/" + name, "same child, bounds (%s, %s)" % (lo, hi), fold.where(),
                fail_msg="BranchFold::Repetition with range %s rebuilds %r, expected the child with bounds (%s, %s)" % (name, res, lo, hi))
    dec = F.find("token::BranchKind::decompose")
    dinsts = F.instances_of(dec)
    R.floor("C19.kinds", "BranchKind::decompose instances", len(dinsts), 1)
    for kind, variant in (("alt", "Alternation"), ("cat", "Concatenation")):
        tok = T.branch(kind, kids(3))
        bk = strip(strip(tok.fields["topology"]).fields["0"])
        res = strip(tabulate.single(I.explore(lambda: I.call_item(dec, [bk], inst=dinsts[0]))))
        good = isinstance(res, Tup) and strip(res.items[0]).variant == variant and canon(res.items[1]) == canon(RList(kids(3)))
        R.check(good, "C19.kinds", "decompose/" + variant, "kind kept, all children in order", dec.where(),
                fail_msg="BranchKind::%s decomposes into %r" % (variant, res))
    tok = T.branch("rep", kids(1), lower=2, upper=4)
    bk = strip(strip(tok.fields["topology"]).fields["0"])
    res = strip(tabulate.single(I.explore(lambda: I.call_item(dec, [bk], inst=dinsts[0]))))
    good = isinstance(res, Tup) and strip(res.items[0]).variant == "Repetition" and canon(res.items[1]) == canon(RList(kids(1)))
    R.check(good, "C19.kinds", "decompose/Repetition", "kind kept, body kept", dec.where(), fail_msg="a repetition decomposes into %r" % (res,))


def rule_order(F, R):
    it = F.find("token::Token::into_owned")
    insts = F.instances_of(it)
    R.floor("C19.order", "Token::into_owned instances", len(insts), 1)
    trees = dict(c06.tree_catalog())
    trees["rep-bounds"] = T.branch("cat", [T.leaf("lit", "p"), T.branch("rep", [T.branch("cat", [T.leaf("one", "o"), T.leaf("sep", "s")])], "R", lower=2, upper=5),
                                           T.branch("rep", [T.leaf("class", "k")], "Q", lower=0, upper=None)], "top")
    trees["leaf-only"] = T.leaf("zom", "z")
    trees["wide"] = T.branch("alt", [T.leaf("lit", "a"), T.leaf("tree", "t"), T.branch("cat", [T.leaf("lit", "b"), T.leaf("sep", "s"), T.leaf("lit-ci", "c")])], "W")
    for name, tree in trees.items():
        for inst in insts[:1]:
            I = Interp(F)
            before = canon(tree)
            res = tabulate.single(I.explore(lambda: I.call_item(it, [tree], inst=inst)))
            R.check(canon(res) == before, "C19.order", "into_owned/" + name, "identical tree (kinds, order, bounds, annotations)", it.where(),
                    fail_msg="Token::into_owned rebuilds the abstract tree `%s` as %s, expected %s: fold_map dropped, duplicated or "
                             "reordered a child" % (name, canon(res)[:400], before[:400]))


def rule_pair(F, R):
    comp = lambda: {"Glob::compile": lambda I, a, fn, e: ok(Sym("compile(%s)" % _origin(a[0]))),
                    "Any::compile": lambda I, a, fn, e: ok(Sym("compile(%s)" % _origin(a[0])))}
    # Glob::new
    it = F.find("Glob::new")
    I = Interp(F, dict(comp(), **{"parse_and_check": lambda I2, a, fn, e: ok(Sym("tree"))}))
    res = strip(tabulate.single(I.explore(lambda: I.call_item(it, [Sym("expression")]))))
    g = strip(res.fields.get("0")) if isinstance(res, Adt) and res.variant == "Ok" else None
    good = isinstance(g, Adt) and _origin(g.fields.get("tree")) == "tree" and _origin(g.fields.get("program")).startswith("compile(tree")
    R.check(good, "C19.pair", "Glob::new", "program = compile(tree) of the tree stored with it", it.where(),
            fail_msg="Glob::new builds %r: the stored tree and the compiled program must come from the same token tree" % (res,))
    # Glob::into_owned
    it = F.find("Glob::into_owned")
    I = Interp(F, {"rule::Checked::into_owned": lambda I2, a, fn, e: Sym("into_owned(%s)" % _origin(a[0]))})
    me = Adt("Glob", "Glob", {"tree": Sym("tree"), "program": Sym("program")})
    res = strip(tabulate.single(I.explore(lambda: I.call_item(it, [me]))))
    good = isinstance(res, Adt) and _origin(res.fields.get("tree")) == "into_owned(tree)" and _origin(res.fields.get("program")) == "program"
    R.check(good, "C19.pair", "Glob::into_owned", "owned tree of the same tree + the same program", it.where(),
            fail_msg="Glob::into_owned builds %r" % (res,))
    # Glob::partition: program recompiled from the partitioned tree (C08.recompile)
    it = F.find("Glob::partition")
    I = Interp(F, dict(comp(), **{"rule::Checked::partition": lambda I2, a, fn, e: Tup([Sym("prefix"), some(Sym("postfix_tree"))])}))
    res = strip(tabulate.single(I.explore(lambda: I.call_item(it, [Adt("Glob", "Glob", {"tree": Sym("tree"), "program": Sym("program")})]))))
    good = False
    if isinstance(res, Tup):
        o = strip(res.items[1])
        g = strip(o.fields.get("0")) if isinstance(o, Adt) and o.variant == "Some" else None
        good = _origin(res.items[0]) == "prefix" and isinstance(g, Adt) and _origin(g.fields.get("tree")) == "postfix_tree" and \
            _origin(g.fields.get("program")).startswith("compile(postfix_tree")
    R.check(good, "C19.pair", "Glob::partition", "postfix Glob = (partitioned tree, program compiled from it)", it.where(),
            fail_msg="Glob::partition builds %r: the postfix must be recompiled from the partitioned tree (the old program still "
                     "matches the prefix)" % (res,))
    # every construction site of Glob / Any is one of the audited functions
    allowed = {"Glob": {"<Glob as std::clone::Clone>::clone", "Glob::new", "Glob::partition", "Glob::into_owned"},
               "Any": {"<Any as std::clone::Clone>::clone", "any"}}
    n = 0
    for item in F.items.values():
        for b in F.mir(item)["blocks"]:
            for a in b["aggs"]:
                if a["adt"] in allowed:
                    n += 1
                    owner = F.owner_fn(item)
                    R.check(owner.qname in allowed[a["adt"]], "C19.pair", "%s constructed in %s" % (a["adt"], owner.qname),
                            "audited constructor", "%s:%s" % (item.where(), a["ln"]),
                            fail_msg="%s constructs a %s: every (tree, program) pair must come from an audited constructor" % (owner.qname, a["adt"]))
    R.floor("C19.pair", "Glob/Any constructions", n, 6)


def _origin(v):
    v = strip(v)
    if isinstance(v, Sym):
        return v.name
    return getattr(v, "sym_origin", repr(v))


def rule_route(F, R):
    fs = F.find("<Glob as std::str::FromStr>::from_str")
    stubs = {"Glob::new": lambda I, a, fn, e: ok(Sym("new(%s)" % _origin(a[0]))),
             "Glob::into_owned": lambda I, a, fn, e: Sym("into_owned(%s)" % _origin(a[0]))}
    I = Interp(F, stubs)
    res = strip(tabulate.single(I.explore(lambda: I.call_item(fs, [Sym("expression")]))))
    v = strip(res.fields.get("0")) if isinstance(res, Adt) and res.variant == "Ok" else None
    R.check(_origin(v) == "into_owned(new(expression))", "C19.route", "FromStr", "Glob::new then into_owned", fs.where(),
            fail_msg="`str::parse::<Glob>` returns %r" % (res,))
    tf = F.find("<Glob as std::convert::TryFrom>::try_from")
    res = strip(tabulate.single(I.explore(lambda: I.call_item(tf, [Sym("expression")]))))
    v = strip(res.fields.get("0")) if isinstance(res, Adt) and res.variant == "Ok" else None
    R.check(_origin(v) == "new(expression)", "C19.route", "TryFrom<&str>", "Glob::new", tf.where(), fail_msg="TryFrom<&str> returns %r" % (res,))
    disp = F.find("<Glob as std::fmt::Display>::fmt")
    I2 = Interp(F)
    me = Adt("Glob", "Glob", {"tree": Sym("tree"), "program": Sym("program")})
    cases = I2.explore(lambda: I2.call_item(disp, [Ref(Place(Cell(me))), Ref(Place(Cell(Sym("formatter"))))]))
    writes = [ev[1] for c in cases for ev in c.log if ev[0] == "write"]
    R.check(len(writes) == 1 and "tree.inner.expression" in writes[0] and writes[0].startswith("⟦") and writes[0].endswith("⟧"),
            "C19.route", "Display", "writes exactly the stored expression of the tree", disp.where(),
            fail_msg="Display for Glob writes %r, expected exactly the expression stored with the token tree" % (writes,))
    chk = F.find("<rule::Checked as std::convert::TryFrom>::try_from", trait_ref="TryFrom<&")
    I3 = Interp(F, {"parse_and_check": lambda I, a, fn, e: ok(Sym("parse_and_check(%s)" % _origin(a[0])))})
    res = strip(tabulate.single(I3.explore(lambda: I3.call_item(chk, [Sym("expression")]))))
    v = strip(res.fields.get("0")) if isinstance(res, Adt) and res.variant == "Ok" else None
    R.check(_origin(v) == "parse_and_check(expression)", "C19.route", "Pattern for &str", "text patterns are parsed and checked", chk.where(),
            fail_msg="TryFrom<&str> for Checked returns %r" % (res,))
    for q, field in (("<rule::Checked as std::convert::From>::from", None),):
        for it in F.find(q, many=True):
            who = "Glob" if "Glob" in (it.impl_trait_ref or "") else "Any"
            me = Adt(who, who, {"tree": Sym("tree"), "program": Sym("program")})
            res = strip(tabulate.single(Interp(F).explore(lambda: Interp(F).call_item(it, [me]))))
            R.check(_origin(res) == "tree", "C19.route", "From<%s> for Checked" % who, "a compiled pattern passes its own checked tree", it.where(),
                    fail_msg="From<%s> for Checked returns %r" % (who, res))
