"""Mini regex algebra over the symbolic alphabet {SEP, NL, OTHER}.

Parses the subset of `regex` syntax the encoder emits (classes with negation, nested classes and
`&&` intersection, `.`, capturing / non-capturing groups, inline flags `(?i) (?-i) (?s)`,
`* *? + ? {m,n} {m,}`, alternation, anchors) plus *holes* written as ⟦kind:name⟧ by the evaluator
(escaped literal text, escaped class members).  Answers language questions on the extracted text:
equality / inclusion with a reference expression, membership of SEP, number and content of capturing
groups, and the flag typestate (which of `i`, `s` is in force at each atom).  This is a decision
procedure on a static artefact (the emitted pattern text), not on program paths."""
import itertools

SEP, NL, OTH = "S", "N", "O"
ALPHABET = (SEP, NL, OTH)


class RxError(Exception):
    pass


class RxSyntax(RxError):
    """The text is rejected by the regex crate's parser (not merely outside the subset understood here)."""


# ---------------------------------------------------------------------------------------------------
# AST


class Node:
    def __init__(self, kind, **kw):
        self.kind = kind
        self.__dict__.update(kw)

    def __repr__(self):
        d = {k: v for k, v in self.__dict__.items() if k != "kind"}
        return "%s(%s)" % (self.kind, ", ".join("%s=%r" % kv for kv in d.items()))


def sym_of(ch):
    if ch == "/":
        return SEP
    if ch == "\n":
        return NL
    return OTH


class Parser:
    def __init__(self, text, flags=None, hole_assign=None):
        self.t = text
        self.i = 0
        self.ngroups = 0
        self.hole_assign = hole_assign or {}
        self.holes = []            # names of holes seen
        self.atoms = []            # (description, flags copy) for the flag typestate
        self.flags0 = dict(flags or {"i": False, "s": False})

    def peek(self, n=1):
        return self.t[self.i:self.i + n]

    def eof(self):
        return self.i >= len(self.t)

    def parse(self):
        node = self.alt(dict(self.flags0))
        if not self.eof():
            raise RxError("unbalanced ')' at %d in %r" % (self.i, self.t))
        return node

    def alt(self, flags):
        # flags set inside this group apply to the rest of the group (across `|`, like the regex crate)
        branches = [self.cat(flags)]
        while self.peek() == "|":
            self.i += 1
            branches.append(self.cat(flags))
        return branches[0] if len(branches) == 1 else Node("alt", items=branches)

    def cat(self, flags):
        items = []
        while not self.eof() and self.peek() not in ("|", ")"):
            a = self.repeat(flags)
            if a is not None:
                items.append(a)
        return Node("cat", items=items)

    def repeat(self, flags):
        a = self.atom(flags)
        if a is None:
            return None
        while True:
            c = self.peek()
            if c == "*":
                self.i += 1
                lazy = self.peek() == "?"
                if lazy:
                    self.i += 1
                a = Node("rep", node=a, lo=0, hi=None, lazy=lazy)
            elif c == "+":
                self.i += 1
                lazy = self.peek() == "?"
                if lazy:
                    self.i += 1
                a = Node("rep", node=a, lo=1, hi=None, lazy=lazy)
            elif c == "?":
                self.i += 1
                lazy = self.peek() == "?"
                if lazy:
                    self.i += 1
                a = Node("rep", node=a, lo=0, hi=1, lazy=lazy)
            elif c == "{":
                j = self.t.find("}", self.i)
                body = self.t[self.i + 1:j]
                self.i = j + 1
                if "," in body:
                    lo, hi = body.split(",", 1)
                    a = Node("rep", node=a, lo=_num(lo), hi=(_num(hi) if hi.strip() else None), lazy=False)
                else:
                    a = Node("rep", node=a, lo=_num(body), hi=_num(body), lazy=False)
            else:
                return a

    def hole(self):
        # ⟦kind:name⟧
        j = self.t.find("⟧", self.i)
        body = self.t[self.i + 1:j]
        self.i = j + 1
        self.holes.append(body)
        return body

    def atom(self, flags):
        c = self.peek()
        if c == "(":
            self.i += 1
            if self.peek() == "?":
                # (?flags) | (?flags:...) | (?:...)
                j = self.i + 1
                spec = ""
                while self.t[j] not in (":", ")"):
                    spec += self.t[j]
                    j += 1
                if self.t[j] == ")":
                    self.i = j + 1
                    _apply_flags(flags, spec)
                    return None
                self.i = j + 1
                inner = dict(flags)
                _apply_flags(inner, spec)
                node = self.alt(inner)
                self._close()
                return Node("group", index=None, node=node)
            self.ngroups += 1
            idx = self.ngroups
            node = self.alt(dict(flags))
            self._close()
            return Node("group", index=idx, node=node)
        if c == "[":
            cls = self.klass()
            self.atoms.append(("class", dict(flags), cls))
            return Node("set", cls=cls, flags=dict(flags))
        if c == ".":
            self.i += 1
            self.atoms.append(("dot", dict(flags), None))
            return Node("dot", flags=dict(flags))
        if c == "^":
            self.i += 1
            return Node("bol", flags=dict(flags))
        if c == "$":
            self.i += 1
            return Node("eol", flags=dict(flags))
        if c == "\\":
            ch = self.t[self.i + 1]
            self.i += 2
            if ch == "n":
                ch = "\n"
            self.atoms.append(("char", dict(flags), ch))
            return Node("chars", syms={sym_of(ch)}, text=ch, flags=dict(flags))
        if c == "⟦":
            name = self.hole()
            self.atoms.append(("hole", dict(flags), name))
            return Node("hole", name=name, flags=dict(flags))
        self.i += 1
        self.atoms.append(("char", dict(flags), c))
        return Node("chars", syms={sym_of(c)}, text=c, flags=dict(flags))

    def _close(self):
        if self.peek() != ")":
            raise RxError("missing ')' at %d in %r" % (self.i, self.t))
        self.i += 1

    # classes: returns a predicate description ("items", negated, parts) evaluated by class_syms
    def klass(self):
        assert self.peek() == "["
        self.i += 1
        neg = False
        if self.peek() == "^":
            neg = True
            self.i += 1
        operands = [[]]
        first = True
        while True:
            if self.eof():
                raise RxError("unterminated class in %r" % self.t)
            c = self.peek()
            if c == "]" and not first:
                self.i += 1
                break
            first = False
            if self.peek(2) == "&&":
                self.i += 2
                operands.append([])
                continue
            if c == "[":
                operands[-1].append(("class", self.klass()))
                continue
            item = self._class_char()
            if self.peek() == "-" and self.t[self.i + 1:self.i + 2] not in ("]", ""):
                self.i += 1
                hi = self._class_char()
                if item[0] == "ch" and hi[0] == "ch" and ord(item[1]) > ord(hi[1]):
                    raise RxSyntax("invalid character class range %s-%s: the start is greater than the end" % (item[1], hi[1]))
                operands[-1].append(("range", item, hi))
            else:
                operands[-1].append(("item", item))
        return ("cls", neg, operands)

    def _class_char(self):
        c = self.peek()
        if c == "\\":
            ch = self.t[self.i + 1]
            self.i += 2
            return ("ch", "\n" if ch == "n" else ch)
        if c == "⟦":
            return ("hole", self.hole())
        self.i += 1
        return ("ch", c)


def _num(s):
    s = s.strip()
    if s.isdigit():
        return int(s)
    return s  # symbolic bound (a hole): kept as text


def _apply_flags(flags, spec):
    on = True
    for ch in spec:
        if ch == "-":
            on = False
        elif ch in ("i", "s", "m", "x", "u", "U"):
            flags[ch] = on


def _class_chars(cls, acc):
    _tag, _neg, operands = cls
    for items in operands:
        for it in items:
            if it[0] == "item":
                acc.add(it[1])
            elif it[0] == "range":
                acc.add(it[1])
                acc.add(it[2])
            elif it[0] == "class":
                _class_chars(it[1], acc)


FRESH_OTHER = "\U0010fffd"


def class_syms(cls, assign):
    """Set of symbols a class can match, given an assignment hole-name -> symbol.  Exact on a universe
    of representative characters: '/', '\n', every character written in the class, one fresh character
    per hole (of the assigned symbol) and one fresh character standing for everything not mentioned."""
    mentioned = set()
    _class_chars(cls, mentioned)
    reps = {"/": SEP, "\n": NL, FRESH_OTHER: OTH}
    hole_rep = {}
    k = 0
    for item in sorted(mentioned, key=str):
        if item[0] == "ch":
            reps[item[1]] = sym_of(item[1])
        else:
            sym = assign.get(item[1], OTH)
            if sym == SEP:
                hole_rep[item[1]] = "/"
            elif sym == NL:
                hole_rep[item[1]] = "\n"
            else:
                k += 1
                c = chr(0x10F000 + k)
                hole_rep[item[1]] = c
                reps[c] = OTH

    def char_of(item):
        return item[1] if item[0] == "ch" else hole_rep[item[1]]

    def member(c, cl):
        _t, neg, operands = cl
        res = True
        for items in operands:
            inside = False
            for it in items:
                if it[0] == "item":
                    inside = inside or char_of(it[1]) == c
                elif it[0] == "range":
                    lo, hi = char_of(it[1]), char_of(it[2])
                    if it[1][0] == "hole" or it[2][0] == "hole":
                        inside = True   # unknown endpoints: may cover any character (conservative)
                    else:
                        inside = inside or (lo <= c <= hi)
                elif it[0] == "class":
                    inside = inside or member(c, it[1])
            res = res and inside
        return (not res) if neg else res
    return set(sym for c, sym in reps.items() if member(c, cls))


# ---------------------------------------------------------------------------------------------------
# NFA / DFA over the symbolic alphabet (+ one symbol per opaque hole word)


class NFA:
    def __init__(self):
        self.n = 0
        self.eps = {}
        self.delta = {}

    def new(self):
        self.n += 1
        return self.n - 1

    def add_eps(self, a, b):
        self.eps.setdefault(a, set()).add(b)

    def add(self, a, sym, b):
        self.delta.setdefault((a, sym), set()).add(b)


def build(node, nfa, assign, alphabet):
    """Thompson construction; returns (start, end)."""
    k = node.kind
    s, e = nfa.new(), nfa.new()
    if k == "cat":
        cur = s
        for it in node.items:
            a, b = build(it, nfa, assign, alphabet)
            nfa.add_eps(cur, a)
            cur = b
        nfa.add_eps(cur, e)
    elif k == "alt":
        for it in node.items:
            a, b = build(it, nfa, assign, alphabet)
            nfa.add_eps(s, a)
            nfa.add_eps(b, e)
    elif k == "group":
        a, b = build(node.node, nfa, assign, alphabet)
        nfa.add_eps(s, a)
        nfa.add_eps(b, e)
    elif k == "rep":
        lo, hi = node.lo, node.hi
        if not isinstance(lo, int) or (hi is not None and not isinstance(hi, int)):
            raise RxError("symbolic repetition bound")
        if hi is not None and hi > 6 or lo > 6:
            raise RxError("repetition bound too large for the symbolic automaton")
        cur = s
        for _ in range(lo):
            a, b = build(node.node, nfa, assign, alphabet)
            nfa.add_eps(cur, a)
            cur = b
        if hi is None:
            a, b = build(node.node, nfa, assign, alphabet)
            nfa.add_eps(cur, a)
            nfa.add_eps(b, a)
            nfa.add_eps(b, e)
            nfa.add_eps(cur, e)
        else:
            nfa.add_eps(cur, e)
            for _ in range(hi - lo):
                a, b = build(node.node, nfa, assign, alphabet)
                nfa.add_eps(cur, a)
                cur = b
                nfa.add_eps(cur, e)
    elif k == "dot":
        for sym in alphabet:
            if sym == NL and not node.flags.get("s"):
                continue
            if sym.startswith("H:"):
                continue
            nfa.add(s, sym, e)
    elif k == "chars":
        for sym in node.syms:
            nfa.add(s, sym, e)
    elif k == "set":
        for sym in class_syms(node.cls, assign):
            nfa.add(s, sym, e)
    elif k == "hole":
        nfa.add(s, "H:" + node.name, e)
    elif k in ("bol", "eol"):
        if getattr(node, "flags", {}).get("m"):
            raise RxError("an anchor under the multi-line flag is a line anchor, not a whole-text anchor")
        nfa.add_eps(s, e)   # anchors are handled by the caller (whole-pattern anchoring)
    else:
        raise RxError("unsupported node " + k)
    return s, e


class DFA:
    def __init__(self, trans, start, accept, alphabet):
        self.trans = trans
        self.start = start
        self.accept = accept
        self.alphabet = alphabet


def to_dfa(node, assign=None, extra_alphabet=()):
    assign = assign or {}
    alphabet = tuple(ALPHABET) + tuple(extra_alphabet)
    nfa = NFA()
    s, e = build(node, nfa, assign, alphabet)

    def closure(states):
        stack = list(states)
        seen = set(states)
        while stack:
            x = stack.pop()
            for y in nfa.eps.get(x, ()):
                if y not in seen:
                    seen.add(y)
                    stack.append(y)
        return frozenset(seen)
    start = closure({s})
    trans = {}
    accept = set()
    todo = [start]
    seen = {start}
    while todo:
        cur = todo.pop()
        if e in cur:
            accept.add(cur)
        for sym in alphabet:
            nxt = set()
            for x in cur:
                nxt |= nfa.delta.get((x, sym), set())
            nxt = closure(nxt)
            trans[(cur, sym)] = nxt
            if nxt not in seen:
                seen.add(nxt)
                todo.append(nxt)
    return DFA(trans, start, accept, alphabet)


def compare(d1, d2):
    """-> (equal, word only in L1 or None, word only in L2 or None)  (shortest witnesses)."""
    assert d1.alphabet == d2.alphabet
    start = (d1.start, d2.start)
    seen = {start: ()}
    todo = [start]
    only1 = only2 = None
    while todo:
        nxt = []
        for (a, b) in todo:
            w = seen[(a, b)]
            in1, in2 = a in d1.accept, b in d2.accept
            if in1 and not in2 and only1 is None:
                only1 = w
            if in2 and not in1 and only2 is None:
                only2 = w
            for sym in d1.alphabet:
                p = (d1.trans[(a, sym)], d2.trans[(b, sym)])
                if p not in seen:
                    seen[p] = w + (sym,)
                    nxt.append(p)
        todo = nxt
    return (only1 is None and only2 is None), only1, only2


def show(word):
    if word is None:
        return None
    return "".join({"S": "/", "N": "\\n", "O": "a"}.get(s, "<%s>" % s) for s in word) or "(empty)"


# ---------------------------------------------------------------------------------------------------
# queries


def parse(text, flags=None):
    p = Parser(text, flags)
    node = p.parse()
    return node, p


def hole_alphabet(p):
    return tuple(sorted(set("H:" + h for h in p.holes if not _is_class_hole(p, h))))


def _is_class_hole(p, h):
    return False


def language_equal(text, ref_text, flags=None, ref_flags=None):
    """Compare the language of an emitted fragment with a reference expression (both without holes)."""
    n1, p1 = parse(text, flags)
    n2, p2 = parse(ref_text, ref_flags or {"i": False, "s": True})
    d1 = to_dfa(n1)
    d2 = to_dfa(n2)
    eq, o1, o2 = compare(d1, d2)
    return eq, show(o1), show(o2)


def accepts(dfa, word):
    cur = dfa.start
    for s in word:
        cur = dfa.trans[(cur, s)]
    return cur in dfa.accept


def contains_symbol(node, sym, assign=None, extra=()):
    """Does some word of the language contain `sym`?"""
    d = to_dfa(node, assign, extra)
    # states reachable and co-reachable
    reach = {d.start}
    todo = [d.start]
    while todo:
        x = todo.pop()
        for s in d.alphabet:
            y = d.trans[(x, s)]
            if y not in reach:
                reach.add(y)
                todo.append(y)
    # co-reachable: can reach accept
    co = set(d.accept)
    changed = True
    while changed:
        changed = False
        for x in reach:
            if x in co:
                continue
            if any(d.trans[(x, s)] in co for s in d.alphabet):
                co.add(x)
                changed = True
    for x in reach:
        y = d.trans[(x, sym)]
        if y in co and x in reach:
            return True
    return False


def lengths(node, assign=None, extra=(), limit=4):
    """Set of word lengths (up to limit, plus 'more') of the language."""
    d = to_dfa(node, assign, extra)
    cur = {d.start}
    out = set()
    for n in range(limit + 1):
        if any(x in d.accept for x in cur):
            out.add(n)
        cur = set(d.trans[(x, s)] for x in cur for s in d.alphabet)
    # anything longer?
    live = set(cur)
    seen = set(cur)
    todo = list(cur)
    while todo:
        x = todo.pop()
        for s in d.alphabet:
            y = d.trans[(x, s)]
            if y not in seen:
                seen.add(y)
                todo.append(y)
    if any(x in d.accept for x in seen):
        out.add("more")
    return out


def capturing_groups(node):
    out = []

    def walk(n):
        if n.kind == "group":
            if n.index is not None:
                out.append(n)
            walk(n.node)
        elif n.kind in ("cat", "alt"):
            for it in n.items:
                walk(it)
        elif n.kind == "rep":
            walk(n.node)
    walk(node)
    return out


def dots(p):
    return [(kind, flags) for kind, flags, _x in p.atoms if kind == "dot"]


def classes(p):
    return [(flags, cls) for kind, flags, cls in p.atoms if kind == "class"]
