"""Library models for the evaluator: the std / itertools / regex vocabulary wax uses.

Each model has the documented semantics of the library function on the evaluator's abstract values.
A model is `f(interp, args, fn, expr) -> value`.  Anything not modelled returns an opaque `Sym` and
is logged as an `ext` event."""
from .teval import (Adt, Tup, UNIT, Ref, Place, Cell, Closure, FnRef, RList, RIter, StrB, Sym, Top, Char, PyFn,
                    strip, some, none, ok, err, to_atoms, Abort, PanicEx, summary)

OPTION = "std::option::Option"
RESULT = "std::result::Result"
CONTROL = "std::ops::ControlFlow"

MODELS = {}
NAME_MODELS = {}


def model(*paths):
    def deco(f):
        for p in paths:
            MODELS[p] = f
        return f
    return deco


def name_model(trait, name):
    def deco(f):
        NAME_MODELS[(trait, name)] = f
        return f
    return deco


# ---------------------------------------------------------------------------------------------------
# helpers


def force_variant(I, v, adt, variants):
    """Strip `v`; an unknown is split over `variants` of `adt` (decision)."""
    v = strip(v)
    if isinstance(v, Sym):
        c = I.decide("variant(%s)" % v.name, variants)
        payload = {}
        if variants[c] in ("Some", "Ok", "Err", "Continue", "Break"):
            payload = {"0": Sym("%s.%s" % (v.name, variants[c]))}
        v.resolved = Adt(adt, variants[c], payload)
        return v.resolved
    return v


def opt(I, v):
    v = force_variant(I, v, OPTION, ["Some", "None"])
    if isinstance(v, Top):
        raise Abort("Option operation on unanalysable value: %s" % v.reason)
    if not isinstance(v, Adt) or v.variant not in ("Some", "None"):
        raise Abort("Option operation on %r" % (v,))
    return v


def res(I, v):
    v = force_variant(I, v, RESULT, ["Ok", "Err"])
    if isinstance(v, Top):
        raise Abort("Result operation on unanalysable value: %s" % v.reason)
    if not isinstance(v, Adt) or v.variant not in ("Ok", "Err"):
        raise Abort("Result operation on %r" % (v,))
    return v


def truth(I, v, what="cond"):
    v = strip(v)
    if isinstance(v, bool):
        return v
    if isinstance(v, Sym):
        c = I.decide(v.name or what, ["true", "false"])
        v.resolved = (c == 0)
        return c == 0
    if isinstance(v, Top):
        raise Abort("branch on unanalysable value: %s" % v.reason)
    raise Abort("branch on non-boolean %r" % (v,))


def values_equal(I, a, b):
    """Structural equality; unknowns are decided (and refined when compared with a constant)."""
    a = strip(a)
    b = strip(b)
    if a is b:
        return True
    if isinstance(a, Top) or isinstance(b, Top):
        raise Abort("comparison of unanalysable value")
    if isinstance(a, Sym) or isinstance(b, Sym):
        s, o = (a, b) if isinstance(a, Sym) else (b, a)
        if not isinstance(o, Sym):
            for n in s.neq:
                if _const_eq(n, o):
                    return False
        c = I.decide("%s == %s" % (_nm(a), _nm(b)), ["true", "false"])
        if c == 0:
            if not isinstance(o, Sym) and isinstance(o, (int, str, bool, Char)):
                s.resolved = o
            return True
        if not isinstance(o, Sym) and isinstance(o, (int, str, bool, Char)):
            s.exclude(o)
        return False
    if isinstance(a, Adt) and isinstance(b, Adt):
        if a.path == b.path:
            item = I.dispatch_local_trait("std::cmp::PartialEq", "eq", [a])
            if item is not None and not item.expn and item.key not in I.callstack[-3:]:
                return truth(I, I.call_item(item, [Ref(Place(Cell(a))), Ref(Place(Cell(b)))]))
        if a.variant != b.variant:
            return False
        for k in set(a.fields) | set(b.fields):
            if k not in a.fields or k not in b.fields:
                continue
            if not values_equal(I, a.fields[k], b.fields[k]):
                return False
        return True
    if isinstance(a, Tup) and isinstance(b, Tup):
        if len(a.items) != len(b.items):
            return False
        return all(values_equal(I, x, y) for x, y in zip(a.items, b.items))
    if isinstance(a, RList) and isinstance(b, RList):
        if len(a.items) != len(b.items):
            return False
        return all(values_equal(I, x, y) for x, y in zip(a.items, b.items))
    if isinstance(a, (StrB, str)) and isinstance(b, (StrB, str)):
        ta = a if isinstance(a, str) else (a.text() if a.is_concrete() else None)
        tb = b if isinstance(b, str) else (b.text() if b.is_concrete() else None)
        if ta is not None and tb is not None:
            return ta == tb
        sa = a if isinstance(a, str) else a.text()
        sb = b if isinstance(b, str) else b.text()
        if sa == sb:
            return True
        return I.decide("%s == %s" % (sa, sb), ["true", "false"]) == 0
    if type(a) != type(b) and not (isinstance(a, (int, bool)) and isinstance(b, (int, bool))):
        return False
    return a == b


def _const_eq(a, b):
    try:
        return type(a) == type(b) and a == b
    except Exception:
        return False


def _nm(v):
    v = strip(v)
    if isinstance(v, Sym):
        return v.name
    return repr(v)


def binop(I, op, l, r, e=None):
    a = strip(l)
    b = strip(r)
    if op == "Eq":
        return values_equal(I, a, b)
    if op == "Ne":
        return not values_equal(I, a, b)
    num = lambda x: isinstance(x, int) and not isinstance(x, bool)
    # derived ordering of single-field newtypes (Size(usize), Depth(usize)): compare the field
    while isinstance(a, Adt) and isinstance(b, Adt) and a.path == b.path and a.variant == b.variant and \
            len(a.fields) == 1 and len(b.fields) == 1 and op in ("Lt", "Le", "Gt", "Ge"):
        a = strip(list(a.fields.values())[0])
        b = strip(list(b.fields.values())[0])
    if isinstance(a, Char) and isinstance(b, Char):
        a, b = ord(a.c), ord(b.c)
    if num(a) and num(b):
        if op == "Lt":
            return a < b
        if op == "Le":
            return a <= b
        if op == "Gt":
            return a > b
        if op == "Ge":
            return a >= b
        if op in ("Add", "AddWithOverflow"):
            return a + b
        if op in ("Sub", "SubWithOverflow"):
            if a - b < 0 and e is not None and I.F.types[e["ty"]].get("k") == "uint":
                raise PanicEx("attempt to subtract with overflow")
            return a - b
        if op in ("Mul", "MulWithOverflow"):
            return a * b
        if op == "Div":
            if b == 0:
                raise PanicEx("attempt to divide by zero")
            return a // b
        if op == "Rem":
            if b == 0:
                raise PanicEx("attempt to calculate the remainder with a divisor of zero")
            return a % b
        if op == "BitAnd":
            return a & b
        if op == "BitOr":
            return a | b
    if isinstance(a, bool) and isinstance(b, bool):
        if op == "BitAnd":
            return a and b
        if op == "BitOr":
            return a or b
        if op == "BitXor":
            return a != b
    if isinstance(a, Top) or isinstance(b, Top):
        return I.top("binary %s on unanalysable operand" % op)
    if op in ("Lt", "Le", "Gt", "Ge"):
        sym = {"Lt": "<", "Le": "<=", "Gt": ">", "Ge": ">="}[op]
        c = I.decide("%s %s %s" % (_nm(a), sym, _nm(b)), ["true", "false"])
        return c == 0
    sym = {"Add": "+", "Sub": "-", "Mul": "*", "Div": "/", "Rem": "%"}.get(op, op)
    return Sym("(%s %s %s)" % (_nm(a), sym, _nm(b)), e["ty"] if e else None)


def as_list(I, v):
    """Known element list of a collection value, or None."""
    v = strip(v)
    if isinstance(v, RList):
        return v
    if isinstance(v, Adt) and v.variant in ("Some", "None") and v.path == OPTION:
        return RList([v.fields["0"]] if v.variant == "Some" else [])
    if isinstance(v, Adt) and v.path in ("std::ops::Range", "std::ops::RangeInclusive"):
        lo, hi = strip(v.fields.get("start")), strip(v.fields.get("end"))
        if isinstance(lo, int) and isinstance(hi, int):
            if v.path.endswith("Inclusive"):
                hi += 1
            if hi - lo > 4096:
                raise Abort("range too long to unroll")
            return RList(list(range(lo, hi)))
    return None


def iter_of(I, v, by_ref=True):
    """RIter over a collection value (list, option, iterator)."""
    v0 = strip(v)
    if isinstance(v0, RIter):
        return v0
    if isinstance(v0, Sym):
        # unknown Option-like single value?  leave opaque
        raise Abort("iteration over unknown collection %s" % v0.name)
    lst = as_list(I, v0)
    if lst is None:
        if isinstance(v0, Top):
            raise Abort("iteration over unanalysable value: %s" % v0.reason)
        raise Abort("iteration over %r" % (v0,))
    state = {"i": 0}
    src = lst

    def nxt():
        i = state["i"]
        if i >= len(src.items):
            raise StopIteration
        state["i"] = i + 1
        if by_ref and isinstance(src, RList) and src is strip(v):
            return Ref(Place(src, i))
        return src.items[i]
    it = RIter(nxt, "iter")
    it.src = src
    it.state = state
    it.len_fn = lambda: len(src.items) - state["i"]
    return it


def drain(I, it):
    out = []
    n = 0
    while True:
        try:
            out.append(it.next())
        except StopIteration:
            return out
        n += 1
        if n > 4096:
            raise Abort("unbounded iterator")


def lazy(parent, f, desc):
    return RIter(f, desc)


# ---------------------------------------------------------------------------------------------------
# identity-like conversions


@model("std::convert::Into::into", "std::convert::From::from", "std::convert::AsRef::as_ref",
       "std::convert::AsMut::as_mut", "std::borrow::Borrow::borrow", "std::ops::Deref::deref",
       "std::ops::DerefMut::deref_mut", "std::borrow::Cow::<'_, B>::into_owned",
       "std::string::ToString::to_string", "std::borrow::ToOwned::to_owned", "std::hint::must_use",
       "std::boxed::Box::<T>::new", "std::option::Option::<T>::as_ref", "std::option::Option::<T>::as_mut",
       "std::option::Option::<&T>::copied", "std::option::Option::<&T>::cloned",
       "std::option::Option::<T>::as_deref", "std::result::Result::<T, E>::as_ref",
       "std::path::PathBuf::as_path", "std::string::String::as_str",
       "std::vec::Vec::<T, A>::as_slice", "std::iter::Iterator::fuse", "std::iter::Iterator::by_ref",
       "std::iter::Iterator::copied", "std::iter::Iterator::cloned", "std::string::String::into_boxed_str",
       "std::iter::Iterator::peekable")
def m_identity(I, args, fn, expr):
    # Conversions between a value and a view / owner of the same data are transparent.  A local
    # `From` / `Into` impl is dispatched before this model is consulted only when resolved by rustc;
    # otherwise the evaluator looks for a local impl by the argument's ADT.
    v = args[0]
    if fn["name"] == "to_string" and isinstance(strip(v), Char):
        return strip(v).c          # a character becomes a one-character string
    if fn["name"] in ("into", "from") and expr is not None:
        # A conversion that rustc could not resolve (neither in the generic body nor for the current
        # instance) and whose target is a local type different from the argument's: not an identity.
        t = I.F.types[expr["ty"]]
        a = strip(v)
        if t.get("k") == "adt" and t.get("adt") == OPTION and not isinstance(a, (Sym, Top)) and not (isinstance(a, Adt) and a.path == OPTION):
            return some(v)      # impl<T> From<T> for Option<T>
        if t.get("k") == "adt" and isinstance(a, Adt) and a.path != t["adt"] and I.F.adts.get(t["adt"], {}).get("local") \
                and fn.get("mono") is None and not fn.get("via_from"):
            return I.top("unresolved conversion %s -> %s" % (a.path, t["adt"]))
    return v


@model("std::clone::Clone::clone")
def m_clone(I, args, fn, expr):
    return deep_copy(strip(args[0]))


def deep_copy(v, memo=None):
    v = strip(v) if isinstance(v, Sym) else v
    if isinstance(v, Adt):
        a = Adt(v.path, v.variant, {k: deep_copy(x) for k, x in v.fields.items()})
        return a
    if isinstance(v, Tup):
        return Tup([deep_copy(x) for x in v.items])
    if isinstance(v, RList):
        return RList([deep_copy(x) for x in v.items])
    if isinstance(v, StrB):
        return StrB(v.atoms)
    return v  # refs, syms, scalars, closures are shared


@model("std::default::Default::default")
def m_default(I, args, fn, expr):
    t = I.F.types[expr["ty"]] if expr else {}
    k = t.get("k")
    mp = (fn or {}).get("mono_path") or ""
    if mp:
        import re as _re
        m = _re.search(r"for ([A-Za-z0-9_:]+)>::default$", mp) or _re.search(r"^<([A-Za-z0-9_:]+) as std::default::Default>::default$", mp)
        if m:
            name = m.group(1)
            if name in ("usize", "u8", "u16", "u32", "u64", "u128", "isize", "i8", "i16", "i32", "i64", "i128"):
                return 0
            if name == "bool":
                return False
            if name in ("std::string::String", "alloc::string::String"):
                return ""
    if k == "bool":
        return False
    if k in ("int", "uint"):
        return 0
    if k == "tuple" and not t["elems"]:
        return UNIT
    if k == "adt":
        if t["adt"] == OPTION:
            return none()
        if t["adt"] in ("std::string::String",):
            return ""
        if t["adt"] in ("std::vec::Vec", "std::collections::VecDeque"):
            return RList([])
    return Sym("default:%s" % t.get("s"), expr["ty"] if expr else None)


@model("std::mem::replace")
def m_replace(I, args, fn, expr):
    r = args[0]
    r = strip_to_ref(r)
    old = r.place.get()
    r.place.set(args[1])
    return old


@model("std::mem::take")
def m_take(I, args, fn, expr):
    r = strip_to_ref(args[0])
    old = r.place.get()
    r.place.set(m_default(I, [], fn, expr))
    return old


def strip_to_ref(v):
    while isinstance(v, Sym) and v.resolved is not None:
        v = v.resolved
    if isinstance(v, Ref):
        # a reference to a reference (auto-ref of &mut T receiver): follow to the innermost place
        inner = v.place.get()
        while isinstance(inner, Sym) and inner.resolved is not None:
            inner = inner.resolved
        if isinstance(inner, Ref):
            return strip_to_ref(inner)
        return v
    return Ref(Place(Cell(v)))


# ---------------------------------------------------------------------------------------------------
# closures / function traits


@model("std::ops::Fn::call", "std::ops::FnMut::call_mut", "std::ops::FnOnce::call_once")
def m_call(I, args, fn, expr):
    f = strip(args[0])
    a = strip(args[1])
    if not isinstance(a, Tup):
        raise Abort("closure call with non-tuple args %r" % (a,))
    return I.call_value(f, a.items)


# ---------------------------------------------------------------------------------------------------
# Option


@model("std::option::Option::<T>::map")
def m_opt_map(I, args, fn, expr):
    o = opt(I, args[0])
    if o.variant == "None":
        return none()
    return some(I.call_value(args[1], [o.fields["0"]]))


@model("std::option::Option::<T>::and_then")
def m_opt_and_then(I, args, fn, expr):
    o = opt(I, args[0])
    if o.variant == "None":
        return none()
    return I.call_value(args[1], [o.fields["0"]])


@model("std::option::Option::<T>::and")
def m_opt_and(I, args, fn, expr):
    o = opt(I, args[0])
    if o.variant == "None":
        return none()
    return args[1]


@model("std::option::Option::<std::option::Option<T>>::flatten")
def m_opt_flatten(I, args, fn, expr):
    o = opt(I, args[0])
    if o.variant == "None":
        return none()
    return opt(I, o.fields["0"])


@model("std::option::Option::<T>::or")
def m_opt_or(I, args, fn, expr):
    o = opt(I, args[0])
    if o.variant == "Some":
        return o
    return args[1]


@model("std::option::Option::<T>::or_else")
def m_opt_or_else(I, args, fn, expr):
    o = opt(I, args[0])
    if o.variant == "Some":
        return o
    return I.call_value(args[1], [])


@model("std::option::Option::<T>::xor")
def m_opt_xor(I, args, fn, expr):
    a = opt(I, args[0])
    b = opt(I, args[1])
    if a.variant == "Some" and b.variant == "None":
        return a
    if a.variant == "None" and b.variant == "Some":
        return b
    return none()


@model("std::option::Option::<T>::filter")
def m_opt_filter(I, args, fn, expr):
    o = opt(I, args[0])
    if o.variant == "None":
        return none()
    if truth(I, I.call_value(args[1], [Ref(Place(o, "0"))])):
        return o
    return none()


@model("std::option::Option::<T>::is_some")
def m_opt_is_some(I, args, fn, expr):
    return opt(I, args[0]).variant == "Some"


@model("std::option::Option::<T>::is_none")
def m_opt_is_none(I, args, fn, expr):
    return opt(I, args[0]).variant == "None"


@model("std::option::Option::<T>::is_some_and")
def m_opt_is_some_and(I, args, fn, expr):
    o = opt(I, args[0])
    if o.variant == "None":
        return False
    return truth(I, I.call_value(args[1], [o.fields["0"]]))


@model("std::option::Option::<T>::map_or")
def m_opt_map_or(I, args, fn, expr):
    o = opt(I, args[0])
    if o.variant == "None":
        return args[1]
    return I.call_value(args[2], [o.fields["0"]])


@model("std::option::Option::<T>::map_or_else")
def m_opt_map_or_else(I, args, fn, expr):
    o = opt(I, args[0])
    if o.variant == "None":
        return I.call_value(args[1], [])
    return I.call_value(args[2], [o.fields["0"]])


@model("std::option::Option::<T>::unwrap_or")
def m_opt_unwrap_or(I, args, fn, expr):
    o = opt(I, args[0])
    return o.fields["0"] if o.variant == "Some" else args[1]


@model("std::option::Option::<T>::unwrap_or_else")
def m_opt_unwrap_or_else(I, args, fn, expr):
    o = opt(I, args[0])
    return o.fields["0"] if o.variant == "Some" else I.call_value(args[1], [])


@model("std::option::Option::<T>::unwrap_or_default")
def m_opt_unwrap_or_default(I, args, fn, expr):
    o = opt(I, args[0])
    return o.fields["0"] if o.variant == "Some" else m_default(I, [], fn, expr)


@model("std::option::Option::<T>::unwrap", "std::option::Option::<T>::expect")
def m_opt_unwrap(I, args, fn, expr):
    o = opt(I, args[0])
    if o.variant == "None":
        raise PanicEx("Option::%s on None%s" % (fn["name"], (": %s" % strip(args[1])) if len(args) > 1 else ""))
    return o.fields["0"]


@model("std::option::Option::<T>::ok_or")
def m_opt_ok_or(I, args, fn, expr):
    o = opt(I, args[0])
    return ok(o.fields["0"]) if o.variant == "Some" else err(args[1])


@model("std::option::Option::<T>::ok_or_else")
def m_opt_ok_or_else(I, args, fn, expr):
    o = opt(I, args[0])
    return ok(o.fields["0"]) if o.variant == "Some" else err(I.call_value(args[1], []))


@model("std::option::Option::<T>::take")
def m_opt_take(I, args, fn, expr):
    r = strip_to_ref(args[0])
    old = r.place.get()
    r.place.set(none())
    return old


@model("std::option::Option::<T>::get_or_insert_with")
def m_opt_get_or_insert_with(I, args, fn, expr):
    r = strip_to_ref(args[0])
    o = opt(I, r.place.get())
    if o.variant == "None":
        o = some(I.call_value(args[1], []))
        r.place.set(o)
    return Ref(Place(o, "0"))


@model("std::option::Option::<T>::zip")
def m_opt_zip(I, args, fn, expr):
    a = opt(I, args[0])
    b = opt(I, args[1])
    if a.variant == "Some" and b.variant == "Some":
        return some(Tup([a.fields["0"], b.fields["0"]]))
    return none()


@model("std::option::Option::<std::result::Result<T, E>>::transpose")
def m_opt_transpose(I, args, fn, expr):
    o = opt(I, args[0])
    if o.variant == "None":
        return ok(none())
    r = res(I, o.fields["0"])
    if r.variant == "Ok":
        return ok(some(r.fields["0"]))
    return err(r.fields["0"])


@model("core::bool::<impl bool>::then")
def m_bool_then(I, args, fn, expr):
    if truth(I, args[0]):
        return some(I.call_value(args[1], []))
    return none()


@model("core::bool::<impl bool>::then_some")
def m_bool_then_some(I, args, fn, expr):
    if truth(I, args[0]):
        return some(args[1])
    return none()


# ---------------------------------------------------------------------------------------------------
# Result / Try


@model("std::result::Result::<T, E>::map")
def m_res_map(I, args, fn, expr):
    r = res(I, args[0])
    if r.variant == "Err":
        return r
    return ok(I.call_value(args[1], [r.fields["0"]]))


@model("std::result::Result::<T, E>::map_err")
def m_res_map_err(I, args, fn, expr):
    r = res(I, args[0])
    if r.variant == "Ok":
        return r
    return err(I.call_value(args[1], [r.fields["0"]]))


@model("std::result::Result::<T, E>::and_then")
def m_res_and_then(I, args, fn, expr):
    r = res(I, args[0])
    if r.variant == "Err":
        return r
    return I.call_value(args[1], [r.fields["0"]])


@model("std::result::Result::<T, E>::ok")
def m_res_ok(I, args, fn, expr):
    r = res(I, args[0])
    return some(r.fields["0"]) if r.variant == "Ok" else none()


@model("std::result::Result::<T, E>::err")
def m_res_err(I, args, fn, expr):
    r = res(I, args[0])
    return some(r.fields["0"]) if r.variant == "Err" else none()


@model("std::result::Result::<T, E>::is_ok")
def m_res_is_ok(I, args, fn, expr):
    return res(I, args[0]).variant == "Ok"


@model("std::result::Result::<T, E>::is_err")
def m_res_is_err(I, args, fn, expr):
    return res(I, args[0]).variant == "Err"


@model("std::result::Result::<T, E>::unwrap", "std::result::Result::<T, E>::expect")
def m_res_unwrap(I, args, fn, expr):
    r = res(I, args[0])
    if r.variant == "Err":
        raise PanicEx("Result::%s on Err" % fn["name"])
    return r.fields["0"]


@model("std::result::Result::<T, E>::unwrap_or")
def m_res_unwrap_or(I, args, fn, expr):
    r = res(I, args[0])
    return r.fields["0"] if r.variant == "Ok" else args[1]


@model("std::result::Result::<T, E>::map_or")
def m_res_map_or(I, args, fn, expr):
    r = res(I, args[0])
    if r.variant == "Err":
        return args[1]
    return I.call_value(args[2], [r.fields["0"]])


@model("std::ops::Try::branch")
def m_try_branch(I, args, fn, expr):
    v = strip(args[0])
    if isinstance(v, Sym):
        # which carrier? use the argument's static type
        t = I.F.types[v.ty] if v.ty is not None else {}
        if t.get("adt") == OPTION:
            v = opt(I, v)
        else:
            v = res(I, v)
    if isinstance(v, Adt) and v.variant in ("Ok", "Some"):
        return Adt(CONTROL, "Continue", {"0": v.fields["0"]})
    if isinstance(v, Adt) and v.variant == "Err":
        return Adt(CONTROL, "Break", {"0": v})
    if isinstance(v, Adt) and v.variant == "None":
        return Adt(CONTROL, "Break", {"0": v})
    raise Abort("`?` on %r" % (v,))


@model("std::ops::FromResidual::from_residual")
def m_from_residual(I, args, fn, expr):
    return args[0]


# ---------------------------------------------------------------------------------------------------
# panics


@model("core::panicking::panic", "core::panicking::panic_fmt", "core::panicking::panic_display",
       "core::panicking::unreachable_display", "core::panicking::panic_explicit", "std::rt::begin_panic")
def m_panic(I, args, fn, expr):
    msg = ""
    if args:
        a = strip(args[0])
        msg = a if isinstance(a, str) else repr(a)
    raise PanicEx(msg)


@model("std::fmt::Arguments::<'a>::from_str")
def m_args_from_str(I, args, fn, expr):
    return args[0]


# ---------------------------------------------------------------------------------------------------
# comparison


@model("std::cmp::PartialEq::eq")
def m_eq(I, args, fn, expr):
    item = I.dispatch_local_trait("std::cmp::PartialEq", "eq", args)
    if item is not None and not item.expn:
        return I.call_item(item, args)
    return values_equal(I, args[0], args[1])


@model("std::cmp::PartialEq::ne")
def m_ne(I, args, fn, expr):
    return not values_equal(I, args[0], args[1])


def _cmp(I, op, args):
    return binop(I, op, args[0], args[1])


@model("std::cmp::PartialOrd::lt")
def m_lt(I, args, fn, expr):
    return _cmp(I, "Lt", args)


@model("std::cmp::PartialOrd::le")
def m_le(I, args, fn, expr):
    return _cmp(I, "Le", args)


@model("std::cmp::PartialOrd::gt")
def m_gt(I, args, fn, expr):
    return _cmp(I, "Gt", args)


@model("std::cmp::PartialOrd::ge")
def m_ge(I, args, fn, expr):
    return _cmp(I, "Ge", args)


def _ordering_of(I, fn, a, b):
    """Ordering of two values through the type's own (local) Ord / PartialOrd impl when there is one."""
    hit = I.local_callee_via(fn, ("cmp", "partial_cmp"))
    if hit is not None:
        item, inst = hit
        r = strip(I.call_item(item, [Ref(Place(Cell(a))), Ref(Place(Cell(b)))], inst=inst))
        if isinstance(r, Adt) and r.variant == "Some":
            r = strip(r.fields["0"])
        if isinstance(r, Adt) and r.path == "std::cmp::Ordering":
            return r.variant
        raise Abort("comparison through a local Ord impl gave %r" % (r,))
    return strip(_ordering(I, a, b)).variant


@model("std::cmp::min", "std::cmp::Ord::min")
def m_min(I, args, fn, expr):
    a, b = strip(args[0]), strip(args[1])
    if isinstance(a, int) and isinstance(b, int):
        return min(a, b)
    # std: min returns the first argument when equal
    return b if _ordering_of(I, fn, a, b) == "Greater" else a


@model("std::cmp::max", "std::cmp::Ord::max")
def m_max(I, args, fn, expr):
    a, b = strip(args[0]), strip(args[1])
    if isinstance(a, int) and isinstance(b, int):
        return max(a, b)
    # std: max returns the second argument when equal
    return a if _ordering_of(I, fn, a, b) == "Greater" else b


# ---------------------------------------------------------------------------------------------------
# integers


def _ints(args):
    a, b = strip(args[0]), strip(args[1])
    if isinstance(a, int) and isinstance(b, int) and not isinstance(a, bool) and not isinstance(b, bool):
        return a, b
    return None


USIZE_MAX = (1 << 64) - 1


@model("core::num::<impl usize>::checked_add", "std::num::NonZero::<usize>::checked_add")
def m_checked_add(I, args, fn, expr):
    ab = _ints(args)
    if ab:
        s = ab[0] + ab[1]
        return some(s) if s <= USIZE_MAX else none()
    return Sym("checked_add(%s,%s)" % (_nm(args[0]), _nm(args[1])), expr["ty"] if expr else None)


@model("core::num::<impl usize>::checked_sub")
def m_checked_sub(I, args, fn, expr):
    ab = _ints(args)
    if ab:
        s = ab[0] - ab[1]
        return some(s) if s >= 0 else none()
    return Sym("checked_sub(%s,%s)" % (_nm(args[0]), _nm(args[1])), expr["ty"] if expr else None)


@model("core::num::<impl usize>::checked_mul", "std::num::NonZero::<usize>::checked_mul")
def m_checked_mul(I, args, fn, expr):
    ab = _ints(args)
    if ab:
        s = ab[0] * ab[1]
        return some(s) if s <= USIZE_MAX else none()
    return Sym("checked_mul(%s,%s)" % (_nm(args[0]), _nm(args[1])), expr["ty"] if expr else None)


@model("core::num::<impl usize>::saturating_sub")
def m_saturating_sub(I, args, fn, expr):
    ab = _ints(args)
    if ab:
        return max(0, ab[0] - ab[1])
    return Sym("saturating_sub(%s,%s)" % (_nm(args[0]), _nm(args[1])), expr["ty"] if expr else None)


@model("core::num::<impl usize>::saturating_add", "std::num::NonZero::<usize>::saturating_add")
def m_saturating_add(I, args, fn, expr):
    ab = _ints(args)
    if ab:
        return min(USIZE_MAX, ab[0] + ab[1])
    return Sym("saturating_add(%s,%s)" % (_nm(args[0]), _nm(args[1])), expr["ty"] if expr else None)


@model("std::num::NonZero::<T>::new")
def m_nonzero_new(I, args, fn, expr):
    a = strip(args[0])
    if isinstance(a, int):
        return some(a) if a != 0 else none()
    if isinstance(a, Sym):
        c = I.decide("%s == 0" % a.name, ["true", "false"])
        if c == 0:
            a.resolved = 0
            return none()
        a.exclude(0)
        return some(a)
    return Sym("NonZero::new(%s)" % _nm(a), expr["ty"] if expr else None)


@model("std::num::NonZero::<T>::get", "std::num::NonZero::<T>::new_unchecked")
def m_nonzero_get(I, args, fn, expr):
    return args[0]


# ---------------------------------------------------------------------------------------------------
# strings


def strb_of(v):
    v = strip(v)
    if isinstance(v, StrB):
        return v
    s = StrB()
    s.extend(v)
    return s


@model("std::string::String::new", "std::string::String::with_capacity")
def m_string_new(I, args, fn, expr):
    return StrB()


@model("std::string::String::push")
def m_string_push(I, args, fn, expr):
    r = strip_to_ref(args[0])
    s = r.place.get()
    s2 = strip(s)
    if not isinstance(s2, StrB):
        s2 = strb_of(s2)
        r.place.set(s2)
    s2.extend(args[1])
    I.emit("push", s2.text(), "top" if s2 is getattr(I, "top_pattern", None) else "nested")
    return UNIT


MODELS["std::string::String::push_str"] = m_string_push


@model("std::string::String::is_empty", "core::str::<impl str>::is_empty")
def m_str_is_empty(I, args, fn, expr):
    s = strip(args[0])
    if isinstance(s, str):
        return s == ""
    if isinstance(s, StrB):
        if not s.atoms:
            return True
        if any(a[0] == "lit" and a[1] for a in s.atoms):
            return False
    return Sym("is_empty(%s)" % _nm(s), expr["ty"] if expr else None)


@model("core::str::<impl str>::len", "std::string::String::len")
def m_str_len(I, args, fn, expr):
    s = strip(args[0])
    if isinstance(s, str):
        return len(s.encode())
    if isinstance(s, StrB) and s.is_concrete():
        return len(s.text().encode())
    return Sym("len(%s)" % _nm(s), expr["ty"] if expr else None)


@model("core::str::<impl str>::chars")
def m_str_chars(I, args, fn, expr):
    s = strip(args[0])
    if isinstance(s, StrB) and s.is_concrete():
        s = s.text()
    if isinstance(s, str):
        return iter_of(I, RList([Char(c) for c in s]), by_ref=False)
    raise Abort("chars() of symbolic string %r" % (s,))


@model("core::str::<impl str>::split")
def m_str_split(I, args, fn, expr):
    """`text.split(pattern)` for a character, a string or a predicate over characters."""
    s = strip(args[0])
    if isinstance(s, StrB) and s.is_concrete():
        s = s.text()
    if not isinstance(s, str):
        raise Abort("split() of symbolic string %r" % (s,))
    pat = strip(args[1])
    if isinstance(pat, Char):
        parts = s.split(pat.c)
    elif isinstance(pat, str) and pat:
        parts = s.split(pat)
    else:
        parts, cur = [], ""
        for ch in s:
            hit = strip(I.call_value(pat, [Char(ch)]))
            if hit is True:
                parts.append(cur)
                cur = ""
            elif hit is False:
                cur += ch
            else:
                raise Abort("split(): the predicate answers %r" % (hit,))
        parts.append(cur)
    return iter_of(I, RList(parts), by_ref=False)


@model("regex::escape")
def m_regex_escape(I, args, fn, expr):
    s = StrB()
    s.push(("esc", strip(args[0])))
    return s


@model("std::fmt::rt::Argument::<'_>::new_display", "std::fmt::rt::Argument::<'_>::new_debug",
       "core::fmt::rt::Argument::<'_>::new_display", "core::fmt::rt::Argument::<'_>::new_debug")
def m_fmt_argument(I, args, fn, expr):
    return args[0]


@model("std::fmt::Arguments::<'a>::new")
def m_fmt_arguments_new(I, args, fn, expr):
    return Adt("fmt::Arguments", "Arguments", {"template": args[0], "args": args[1]})


@model("std::fmt::format", "alloc::fmt::format")
def m_fmt_format(I, args, fn, expr):
    a = strip(args[0])
    if isinstance(a, str):
        return a
    if not (isinstance(a, Adt) and a.path == "fmt::Arguments"):
        return I.top("format! with unrecognised arguments %r" % (a,))
    tmpl = strip(a.fields["template"])
    fargs = strip(a.fields["args"])
    if not isinstance(tmpl, RList) or not isinstance(fargs, RList):
        return I.top("format! template not understood")
    data = tmpl.items
    out = StrB()
    i = 0
    argi = 0
    # template bytecode: <len><bytes> = literal piece (len < 0x80); 0xC0 = next placeholder; 0 = end
    while i < len(data):
        b = data[i]
        if b == 0:
            break
        if b == 0xC0:
            if argi >= len(fargs.items):
                return I.top("format! placeholder without argument")
            out.extend(fargs.items[argi])
            argi += 1
            i += 1
        elif b < 0x80:
            piece = bytes(data[i + 1:i + 1 + b]).decode("utf-8", "replace")
            out.push(("lit", piece))
            i += 1 + b
        else:
            return I.top("format! template opcode 0x%x not understood" % b)
    return out


@model("std::str::<impl str>::repeat", "core::str::<impl str>::repeat", "alloc::str::<impl str>::repeat")
def m_str_repeat(I, args, fn, expr):
    s, n = strip(args[0]), strip(args[1])
    if isinstance(s, StrB) and s.is_concrete():
        s = s.text()
    if isinstance(s, str) and isinstance(n, int) and 0 <= n <= 4096:
        return s * n
    return I.top("repeat(%r, %r)" % (s, n))


@model("std::ops::Add::add")
def m_add(I, args, fn, expr):
    a, b = strip(args[0]), strip(args[1])
    if isinstance(a, (str, StrB)) or isinstance(b, (str, StrB)):
        s = StrB()
        s.extend(a)
        s.extend(b)
        return s
    return binop(I, "Add", a, b, expr)


# ---------------------------------------------------------------------------------------------------
# collections


@model("std::vec::Vec::<T>::new", "std::collections::VecDeque::<T>::new")
def m_vec_new(I, args, fn, expr):
    return RList([])


@model("std::vec::Vec::<T>::with_capacity", "std::collections::VecDeque::<T>::with_capacity")
def m_vec_with_capacity(I, args, fn, expr):
    return RList([])


def _list_ref(I, v, what):
    l = strip(v)
    if isinstance(l, RList):
        return l
    if isinstance(l, Top):
        raise Abort("%s on unanalysable collection: %s" % (what, l.reason))
    raise Abort("%s on %r" % (what, l))


@model("std::vec::Vec::<T, A>::push", "std::collections::VecDeque::<T, A>::push_back")
def m_vec_push(I, args, fn, expr):
    _list_ref(I, args[0], "push").items.append(args[1])
    return UNIT


@model("std::collections::VecDeque::<T, A>::push_front")
def m_push_front(I, args, fn, expr):
    _list_ref(I, args[0], "push_front").items.insert(0, args[1])
    return UNIT


@model("std::vec::Vec::<T, A>::pop", "std::collections::VecDeque::<T, A>::pop_back")
def m_vec_pop(I, args, fn, expr):
    l = _list_ref(I, args[0], "pop")
    if l.items:
        return some(l.items.pop())
    return none()


@model("std::collections::VecDeque::<T, A>::pop_front")
def m_pop_front(I, args, fn, expr):
    l = _list_ref(I, args[0], "pop_front")
    if l.items:
        return some(l.items.pop(0))
    return none()


@model("std::vec::Vec::<T, A>::len", "core::slice::<impl [T]>::len", "std::collections::VecDeque::<T, A>::len",
       "std::iter::ExactSizeIterator::len")
def m_len(I, args, fn, expr):
    l = strip(args[0])
    if isinstance(l, RList):
        return len(l.items)
    if isinstance(l, (bytes, bytearray)):
        return len(l)
    if isinstance(l, RIter) and getattr(l, "len_fn", None) is not None:
        return l.len_fn()
    return Sym("len(%s)" % _nm(l), expr["ty"] if expr else None)


@model("core::slice::<impl [T]>::is_empty", "std::vec::Vec::<T, A>::is_empty")
def m_is_empty(I, args, fn, expr):
    l = strip(args[0])
    if isinstance(l, RList):
        return len(l.items) == 0
    if isinstance(l, (bytes, bytearray)):
        return len(l) == 0
    return Sym("is_empty(%s)" % _nm(l), expr["ty"] if expr else None)


@model("core::slice::<impl [T]>::first", "core::slice::<impl [T]>::first_mut",
       "std::collections::VecDeque::<T, A>::front", "std::collections::VecDeque::<T, A>::front_mut")
def m_first(I, args, fn, expr):
    l = _list_ref(I, args[0], "first")
    return some(Ref(Place(l, 0))) if l.items else none()


@model("core::slice::<impl [T]>::last", "core::slice::<impl [T]>::last_mut",
       "std::collections::VecDeque::<T, A>::back", "std::collections::VecDeque::<T, A>::back_mut")
def m_last(I, args, fn, expr):
    l = _list_ref(I, args[0], "last")
    return some(Ref(Place(l, len(l.items) - 1))) if l.items else none()


@model("core::slice::<impl [T]>::get")
def m_get(I, args, fn, expr):
    l = _list_ref(I, args[0], "get")
    i = strip(args[1])
    if isinstance(i, int):
        return some(Ref(Place(l, i))) if 0 <= i < len(l.items) else none()
    raise Abort("slice get with symbolic index")


@model("std::slice::from_ref")
def m_from_ref(I, args, fn, expr):
    r = args[0]
    l = RList([strip_to_ref(r).place.get()])
    return l


@model("core::slice::<impl [T]>::iter", "std::collections::VecDeque::<T, A>::iter",
       "core::slice::<impl [T]>::iter_mut", "std::collections::HashSet::<T, S, A>::iter")
def m_slice_iter(I, args, fn, expr):
    return iter_of(I, args[0], by_ref=True)


@model("std::iter::IntoIterator::into_iter")
def m_into_iter(I, args, fn, expr):
    v = args[0]
    by_ref = isinstance(v, Ref) or (isinstance(v, Sym) and isinstance(v.resolved, Ref))
    s = strip(v)
    if isinstance(s, RIter):
        return s
    if isinstance(s, RList) and not by_ref:
        return iter_of(I, RList(list(s.items)), by_ref=False)
    return iter_of(I, v, by_ref=by_ref)


@model("std::iter::Iterator::next")
def m_iter_next(I, args, fn, expr):
    it = strip(args[0])
    if not isinstance(it, RIter):
        item = I.dispatch_local_trait("std::iter::Iterator", "next", args)
        if item is not None:
            return I.call_item(item, args)
        if isinstance(it, Top):
            raise Abort("next() on unanalysable iterator: %s" % it.reason)
        raise Abort("next() on %r" % (it,))
    try:
        return some(it.next())
    except StopIteration:
        return none()


def _as_iter(I, v):
    s = strip(v)
    if isinstance(s, RIter):
        return s
    if isinstance(s, Adt) and I.dispatch_local_trait("std::iter::Iterator", "next", [v]) is not None:
        item = I.dispatch_local_trait("std::iter::Iterator", "next", [v])
        holder = v if isinstance(v, Ref) else Ref(Place(Cell(s)))

        def nxt():
            o = opt(I, I.call_item(item, [holder]))
            if o.variant == "None":
                raise StopIteration
            return o.fields["0"]
        return RIter(nxt, "local-iter")
    return iter_of(I, v, by_ref=False)


@model("std::iter::Iterator::map")
def m_iter_map(I, args, fn, expr):
    src = _as_iter(I, args[0])
    f = args[1]
    it = RIter(lambda: I.call_value(f, [src.next()]), "map")
    it.len_fn = getattr(src, "len_fn", None)
    return it


@model("std::iter::Iterator::filter")
def m_iter_filter(I, args, fn, expr):
    src = _as_iter(I, args[0])
    f = args[1]

    def nxt():
        while True:
            v = src.next()
            if truth(I, I.call_value(f, [Ref(Place(Cell(v)))])):
                return v
    return RIter(nxt, "filter")


@model("std::iter::Iterator::filter_map")
def m_iter_filter_map(I, args, fn, expr):
    src = _as_iter(I, args[0])
    f = args[1]

    def nxt():
        while True:
            v = src.next()
            o = opt(I, I.call_value(f, [v]))
            if o.variant == "Some":
                return o.fields["0"]
    return RIter(nxt, "filter_map")


@model("core::str::<impl str>::bytes")
def m_str_bytes(I, args, fn, expr):
    s = strip(args[0])
    if isinstance(s, StrB) and s.is_concrete():
        s = s.text()
    if not isinstance(s, str):
        raise Abort("bytes() of %r" % (s,))
    return iter_of(I, RList(list(s.encode())), by_ref=False)


@model("itertools::Itertools::batching")
def m_iter_batching(I, args, fn, expr):
    # batching(f): next() = f(&mut inner); the closure pulls as many items as it wants
    inner = _as_iter(I, args[0])
    f = args[1]

    def nxt():
        o = opt(I, I.call_value(f, [inner]))
        if o.variant == "None":
            raise StopIteration
        return o.fields["0"]
    return RIter(nxt, "batching")


@model("itertools::Itertools::peeking_take_while")
def m_iter_peeking_take_while(I, args, fn, expr):
    # takes items while the predicate accepts them; the first rejected item stays in the (peekable) inner iterator
    inner = strip(args[0])
    if not isinstance(inner, RIter):
        raise Abort("peeking_take_while on %r" % (inner,))
    f = args[1]

    def nxt():
        if inner.peeked is None:
            try:
                inner.peeked = inner.fn_next()
            except StopIteration:
                inner.peeked = StopIteration
        if inner.peeked is StopIteration:
            raise StopIteration
        if not truth(I, I.call_value(f, [Ref(Place(Cell(inner.peeked)))])):
            raise StopIteration
        v = inner.peeked
        inner.peeked = None
        return v
    return RIter(nxt, "peeking_take_while")


@model("std::iter::Iterator::flat_map")
def m_iter_flat_map(I, args, fn, expr):
    src = _as_iter(I, args[0])
    f = args[1]
    state = {"cur": None}

    def nxt():
        while True:
            if state["cur"] is not None:
                try:
                    return state["cur"].next()
                except StopIteration:
                    state["cur"] = None
            v = src.next()
            state["cur"] = _as_iter(I, I.call_value(f, [v]))
    return RIter(nxt, "flat_map")


@model("std::iter::Iterator::flatten")
def m_iter_flatten(I, args, fn, expr):
    return m_iter_flat_map(I, [args[0], PyFn(lambda I2, a: a[0], "id")], fn, expr)


@model("std::iter::Iterator::take_while")
def m_iter_take_while(I, args, fn, expr):
    src = _as_iter(I, args[0])
    f = args[1]
    state = {"done": False}

    def nxt():
        if state["done"]:
            raise StopIteration
        v = src.next()
        if truth(I, I.call_value(f, [Ref(Place(Cell(v)))])):
            return v
        state["done"] = True
        raise StopIteration
    return RIter(nxt, "take_while")


@model("std::iter::Iterator::skip_while")
def m_iter_skip_while(I, args, fn, expr):
    src = _as_iter(I, args[0])
    f = args[1]
    state = {"skipping": True}

    def nxt():
        while True:
            v = src.next()
            if state["skipping"] and truth(I, I.call_value(f, [Ref(Place(Cell(v)))])):
                continue
            state["skipping"] = False
            return v
    return RIter(nxt, "skip_while")


@model("std::iter::Iterator::take")
def m_iter_take(I, args, fn, expr):
    src = _as_iter(I, args[0])
    n = strip(args[1])
    if not isinstance(n, int):
        raise Abort("take(symbolic)")
    state = {"n": n}

    def nxt():
        if state["n"] <= 0:
            raise StopIteration
        state["n"] -= 1
        return src.next()
    return RIter(nxt, "take")


@model("std::iter::Iterator::skip")
def m_iter_skip(I, args, fn, expr):
    src = _as_iter(I, args[0])
    n = strip(args[1])
    if not isinstance(n, int):
        raise Abort("skip(symbolic)")
    state = {"n": n}

    def nxt():
        while state["n"] > 0:
            state["n"] -= 1
            src.next()
        return src.next()
    return RIter(nxt, "skip")


@model("std::iter::Iterator::enumerate")
def m_iter_enumerate(I, args, fn, expr):
    src = _as_iter(I, args[0])
    state = {"i": 0}

    def nxt():
        v = src.next()
        i = state["i"]
        state["i"] += 1
        return Tup([i, v])
    it = RIter(nxt, "enumerate")
    it.len_fn = getattr(src, "len_fn", None)
    return it


@model("std::iter::Iterator::rev")
def m_iter_rev(I, args, fn, expr):
    src = _as_iter(I, args[0])
    state = {"items": None}

    def nxt():
        if state["items"] is None:
            state["items"] = drain(I, src)
        if not state["items"]:
            raise StopIteration
        return state["items"].pop()
    it = RIter(nxt, "rev")
    it.len_fn = getattr(src, "len_fn", None)
    return it


@model("std::iter::Iterator::chain")
def m_iter_chain(I, args, fn, expr):
    a = _as_iter(I, args[0])
    state = {"first": True, "b": None}

    def nxt():
        if state["first"]:
            try:
                return a.next()
            except StopIteration:
                state["first"] = False
        if state["b"] is None:
            state["b"] = _as_iter(I, args[1])
        return state["b"].next()
    return RIter(nxt, "chain")


@model("std::iter::Iterator::zip")
def m_iter_zip(I, args, fn, expr):
    a = _as_iter(I, args[0])
    b = _as_iter(I, args[1])
    return RIter(lambda: Tup([a.next(), b.next()]), "zip")


@model("std::iter::Iterator::collect")
def m_iter_collect(I, args, fn, expr):
    items = drain(I, _as_iter(I, args[0]))
    t = I.F.types[expr["ty"]] if expr else {}
    if t.get("adt") == "std::string::String":
        s = StrB()
        for x in items:
            s.extend(x)
        return s
    if t.get("adt") in (RESULT, OPTION):
        out = []
        for x in items:
            x = res(I, x) if t.get("adt") == RESULT else opt(I, x)
            if isinstance(x, Adt) and x.variant in ("Err", "None"):
                return x
            out.append(x.fields["0"])
        return ok(RList(out)) if t.get("adt") == RESULT else some(RList(out))
    return RList(items)


@model("std::iter::Iterator::last")
def m_iter_last(I, args, fn, expr):
    items = drain(I, _as_iter(I, args[0]))
    return some(items[-1]) if items else none()


@model("std::iter::Iterator::count")
def m_iter_count(I, args, fn, expr):
    return len(drain(I, _as_iter(I, args[0])))


@model("std::iter::Iterator::nth")
def m_iter_nth(I, args, fn, expr):
    it = _as_iter(I, args[0])
    n = strip(args[1])
    if not isinstance(n, int):
        raise Abort("nth(symbolic)")
    try:
        for _ in range(n):
            it.next()
        return some(it.next())
    except StopIteration:
        return none()


@model("std::iter::Iterator::any")
def m_iter_any(I, args, fn, expr):
    it = _as_iter(I, args[0])
    while True:
        try:
            v = it.next()
        except StopIteration:
            return False
        if truth(I, I.call_value(args[1], [v])):
            return True


@model("std::iter::Iterator::all")
def m_iter_all(I, args, fn, expr):
    it = _as_iter(I, args[0])
    while True:
        try:
            v = it.next()
        except StopIteration:
            return True
        if not truth(I, I.call_value(args[1], [v])):
            return False


@model("std::iter::Iterator::find")
def m_iter_find(I, args, fn, expr):
    it = _as_iter(I, args[0])
    while True:
        try:
            v = it.next()
        except StopIteration:
            return none()
        if truth(I, I.call_value(args[1], [Ref(Place(Cell(v)))])):
            return some(v)


@model("std::iter::Iterator::find_map")
def m_iter_find_map(I, args, fn, expr):
    it = _as_iter(I, args[0])
    while True:
        try:
            v = it.next()
        except StopIteration:
            return none()
        o = opt(I, I.call_value(args[1], [v]))
        if o.variant == "Some":
            return o


@model("std::iter::Iterator::position")
def m_iter_position(I, args, fn, expr):
    it = _as_iter(I, args[0])
    i = 0
    while True:
        try:
            v = it.next()
        except StopIteration:
            return none()
        if truth(I, I.call_value(args[1], [v])):
            return some(i)
        i += 1


@model("std::iter::Iterator::fold")
def m_iter_fold(I, args, fn, expr):
    acc = args[1]
    for v in drain(I, _as_iter(I, args[0])):
        acc = I.call_value(args[2], [acc, v])
    return acc


@model("std::iter::Iterator::reduce")
def m_iter_reduce(I, args, fn, expr):
    items = drain(I, _as_iter(I, args[0]))
    if not items:
        return none()
    acc = items[0]
    for v in items[1:]:
        acc = I.call_value(args[1], [acc, v])
    return some(acc)


@model("std::iter::Iterator::sum")
def m_iter_sum(I, args, fn, expr):
    acc = 0
    for v in drain(I, _as_iter(I, args[0])):
        acc = binop(I, "Add", acc, v, expr)
    return acc


@model("std::iter::Iterator::for_each")
def m_iter_for_each(I, args, fn, expr):
    for v in drain(I, _as_iter(I, args[0])):
        I.call_value(args[1], [v])
    return UNIT


@model("std::iter::Iterator::partition")
def m_iter_partition(I, args, fn, expr):
    a, b = [], []
    for v in drain(I, _as_iter(I, args[0])):
        (a if truth(I, I.call_value(args[1], [Ref(Place(Cell(v)))])) else b).append(v)
    return Tup([RList(a), RList(b)])


@model("std::iter::Extend::extend")
def m_extend(I, args, fn, expr):
    l = _list_ref(I, args[0], "extend")
    for v in drain(I, _as_iter(I, m_into_iter(I, [args[1]], fn, None))):
        l.items.append(v)
    return UNIT


@model("std::iter::Peekable::<I>::peek")
def m_peek(I, args, fn, expr):
    it = strip(args[0])
    if not isinstance(it, RIter):
        raise Abort("peek on %r" % (it,))
    if it.peeked is None:
        try:
            it.peeked = it.fn_next()
        except StopIteration:
            it.peeked = StopIteration
    if it.peeked is StopIteration:
        return none()
    return some(Ref(Place(Cell(it.peeked))))


@model("std::iter::from_fn")
def m_from_fn(I, args, fn, expr):
    f = args[0]

    def nxt():
        o = opt(I, I.call_value(f, []))
        if o.variant == "None":
            raise StopIteration
        return o.fields["0"]
    return RIter(nxt, "from_fn")


@model("std::vec::Vec::<T, A>::drain")
def m_vec_drain(I, args, fn, expr):
    l = _list_ref(I, args[0], "drain")
    rng = strip(args[1])
    n = len(l.items)
    lo, hi = 0, n
    if isinstance(rng, Adt):
        f = rng.fields
        if rng.variant in ("Range", "RangeTo", "RangeFrom", "RangeFull"):
            if "start" in f:
                lo = strip(f["start"])
            if "end" in f:
                hi = strip(f["end"])
        else:
            raise Abort("drain with range %r" % (rng,))
    else:
        raise Abort("drain with range %r" % (rng,))
    if not (isinstance(lo, int) and isinstance(hi, int)):
        raise Abort("drain with symbolic range")
    if lo > hi or hi > n:
        raise PanicEx("drain range out of bounds")
    taken = l.items[lo:hi]
    del l.items[lo:hi]
    return iter_of(I, RList(taken), by_ref=False)


@model("itertools::Itertools::with_position")
def m_with_position(I, args, fn, expr):
    # itertools 0.11: yields (Position, item); First / Middle / Last / Only by the element's place.
    src = _as_iter(I, args[0])
    state = {"items": None, "i": 0}

    def nxt():
        if state["items"] is None:
            state["items"] = drain(I, src)
        items = state["items"]
        i = state["i"]
        if i >= len(items):
            raise StopIteration
        state["i"] += 1
        n = len(items)
        if n == 1:
            p = "Only"
        elif i == 0:
            p = "First"
        elif i == n - 1:
            p = "Last"
        else:
            p = "Middle"
        I.emit("iter", i, p, len(I.callstack))
        return Tup([Adt("itertools::Position", p, {}), items[i]])
    return RIter(nxt, "with_position")


@model("itertools::Itertools::join", "std::slice::<impl [T]>::join")
def m_join(I, args, fn, expr):
    items = as_list(I, args[0])
    if items is None:
        items = RList(drain(I, _as_iter(I, args[0])))
    sep = args[1]
    s = StrB()
    for i, x in enumerate(items.items):
        if i:
            s.extend(sep)
        s.extend(x)
    return s


@model("itertools::Itertools::tuple_windows")
def m_tuple_windows(I, args, fn, expr):
    src = _as_iter(I, args[0])
    state = {"prev": None, "started": False}

    def nxt():
        if not state["started"]:
            state["prev"] = src.next()
            state["started"] = True
        cur = src.next()
        out = Tup([state["prev"], cur])
        state["prev"] = cur
        return out
    return RIter(nxt, "tuple_windows")


@model("itertools::Itertools::zip_longest")
def m_zip_longest(I, args, fn, expr):
    a = _as_iter(I, args[0])
    b = _as_iter(I, m_into_iter(I, [args[1]], fn, None))
    E = "itertools::EitherOrBoth"

    def nxt():
        try:
            x = a.next()
            hx = True
        except StopIteration:
            hx = False
        try:
            y = b.next()
            hy = True
        except StopIteration:
            hy = False
        if hx and hy:
            return Adt(E, "Both", {"0": x, "1": y})
        if hx:
            return Adt(E, "Left", {"0": x})
        if hy:
            return Adt(E, "Right", {"0": y})
        raise StopIteration
    return RIter(nxt, "zip_longest")


# ---------------------------------------------------------------------------------------------------
# regex (opaque, but logged with the receiver so that rules can see which program is consulted)


@model("regex::Regex::is_match")
def m_regex_is_match(I, args, fn, expr):
    I.emit("regex.is_match", summary(args[0]), summary(args[1]))
    return Sym("is_match(%s, %s)" % (_nm(args[0]), _nm(args[1])), expr["ty"] if expr else None)


@model("regex::Regex::captures")
def m_regex_captures(I, args, fn, expr):
    I.emit("regex.captures", summary(args[0]), summary(args[1]))
    return Sym("captures(%s, %s)" % (_nm(args[0]), _nm(args[1])), expr["ty"] if expr else None)


@model("regex::Regex::new")
def m_regex_new(I, args, fn, expr):
    I.emit("regex.new", summary(args[0]))
    pat = strip(args[0])
    text = pat.concrete() if isinstance(pat, StrB) else (pat if isinstance(pat, str) else None)
    if text is not None:
        # a concrete expression the regex parser rejects (e.g. a descending class range) is an error for certain
        from . import rx
        try:
            rx.parse(text)
        except rx.RxSyntax as e:
            return err(Adt("regex::Error", "Syntax", {"0": str(e)}))
        except rx.RxError:
            pass
    s = Sym("Regex::new(%s)" % _nm(args[0]), expr["ty"] if expr else None)
    s.pattern = strip(args[0])
    return s


# regex::RegexBuilder: the options are the inline flags of the same names in front of the pattern
@model("regex::RegexBuilder::new")
def m_regex_builder_new(I, args, fn, expr):
    return Adt("regex::RegexBuilder", "RegexBuilder", {"pattern": strip(args[0]), "flags": ""})


def _builder_flag(letter):
    def m(I, args, fn, expr):
        b = strip(args[0])
        while isinstance(b, Ref):
            b = strip(b.place.get())
        on = strip(args[1])
        if not (isinstance(b, Adt) and b.path == "regex::RegexBuilder") or not isinstance(on, bool):
            return I.top("RegexBuilder option on %r with %r" % (b, on))
        fl = b.fields["flags"].replace(letter, "").replace("-" + letter, "")
        b.fields["flags"] = fl + (letter if on else "")
        return args[0]
    return m


for _name, _letter in (("case_insensitive", "i"), ("multi_line", "m"), ("dot_matches_new_line", "s"), ("swap_greed", "U"),
                       ("ignore_whitespace", "x"), ("crlf", "R")):
    MODELS["regex::RegexBuilder::" + _name] = _builder_flag(_letter)


@model("regex::RegexBuilder::build")
def m_regex_builder_build(I, args, fn, expr):
    b = strip(args[0])
    while isinstance(b, Ref):
        b = strip(b.place.get())
    if not (isinstance(b, Adt) and b.path == "regex::RegexBuilder"):
        return I.top("RegexBuilder::build of %r" % (b,))
    pat = b.fields["pattern"]
    fl = b.fields["flags"]
    if fl:
        if isinstance(pat, StrB):
            p2 = StrB()
            p2.push(("lit", "(?%s)" % fl))
            p2.extend(pat)
            pat = p2
        elif isinstance(pat, str):
            pat = "(?%s)%s" % (fl, pat)
        else:
            return I.top("RegexBuilder::build with a symbolic pattern")
    st = I.rule_stubs.get("regex::Regex::new")      # a rule that observes the compilation observes this one as well
    if st is not None:
        return st(I, [pat], fn, expr)
    return m_regex_new(I, [pat], fn, expr)


def _set_op(kind):
    """`&a & &b`, `&a | &b`, `&a - &b` of two sets (HashSet / BTreeSet as lists without duplicates)."""
    def m(I, args, fn, expr):
        a, b = strip(args[0]), strip(args[1])
        if not (isinstance(a, RList) and isinstance(b, RList)):
            return NotImplemented_(I, fn, args, expr)
        out = []
        if kind == "and":
            out = [x for x in a.items if any(values_equal(I, x, y) for y in b.items)]
        elif kind == "sub":
            out = [x for x in a.items if not any(values_equal(I, x, y) for y in b.items)]
        else:
            out = list(a.items)
            for y in b.items:
                if not any(values_equal(I, x, y) for x in out):
                    out.append(y)
        return RList(out)
    return m


def NotImplemented_(I, fn, args, expr):
    # integers and booleans: the ordinary operators
    a, b = strip(args[0]), strip(args[1])
    op = {"bitand": "BitAnd", "bitor": "BitOr", "sub": "Sub"}.get(fn["name"])
    if op and isinstance(a, (int, bool)) and isinstance(b, (int, bool)):
        return binop(I, op, a, b, expr)
    return I.top("%s of %r and %r" % (fn["path"], a, b))


MODELS["std::ops::BitAnd::bitand"] = _set_op("and")
MODELS["std::ops::BitOr::bitor"] = _set_op("or")


@model("std::collections::HashSet::<T, S, A>::insert")
def m_hashset_insert(I, args, fn, expr):
    l = _list_ref(I, args[0], "insert")
    for x in l.items:
        if values_equal(I, x, args[1]):
            return False
    l.items.append(args[1])
    return True


ORDERING = "std::cmp::Ordering"


def _ordering(I, a, b):
    a, b = strip(a), strip(b)
    if isinstance(a, Char) and isinstance(b, Char):
        a, b = ord(a.c), ord(b.c)
    if isinstance(a, int) and isinstance(b, int) and not isinstance(a, bool) and not isinstance(b, bool):
        return Adt(ORDERING, "Less" if a < b else ("Greater" if a > b else "Equal"), {})
    if isinstance(a, Top) or isinstance(b, Top):
        raise Abort("comparison of unanalysable value")
    if isinstance(a, str) and isinstance(b, str):
        return Adt(ORDERING, "Less" if a < b else ("Greater" if a > b else "Equal"), {})
    if isinstance(a, Adt) and isinstance(b, Adt) and a.path == b.path:
        # derived ordering (a hand-written impl was dispatched by the caller): variant index, then fields in order
        vs = None
        try:
            vs = [v["name"] for v in I.F.adt(a.path)["variants"]]
        except Exception:
            vs = None
        if a.variant != b.variant:
            if vs and a.variant in vs and b.variant in vs:
                return Adt(ORDERING, "Less" if vs.index(a.variant) < vs.index(b.variant) else "Greater", {})
        else:
            order = None
            if vs:
                for v in I.F.adt(a.path)["variants"]:
                    if v["name"] == a.variant:
                        order = [f["name"] for f in v["fields"]]
            keys = order if order and set(order) == set(a.fields) else sorted(a.fields)
            for k in keys:
                o = _ordering(I, a.fields[k], b.fields[k])
                if o.variant != "Equal":
                    return o
            return Adt(ORDERING, "Equal", {})
    names = ["Less", "Equal", "Greater"]
    c = I.decide("cmp(%s, %s)" % (_nm(a), _nm(b)), names)
    return Adt(ORDERING, names[c], {})


@model("std::cmp::Ord::cmp")
def m_ord_cmp(I, args, fn, expr):
    item = I.dispatch_local_trait("std::cmp::Ord", "cmp", args)
    if item is not None and not item.expn:
        return I.call_item(item, args)
    return _ordering(I, args[0], args[1])


@model("std::cmp::PartialOrd::partial_cmp")
def m_partial_cmp(I, args, fn, expr):
    item = I.dispatch_local_trait("std::cmp::PartialOrd", "partial_cmp", args)
    if item is not None and not item.expn:
        return I.call_item(item, args)
    return some(_ordering(I, args[0], args[1]))


@model("std::iter::Iterator::cycle")
def m_iter_cycle(I, args, fn, expr):
    src = _as_iter(I, args[0])
    state = {"items": None, "i": 0}

    def nxt():
        if state["items"] is None:
            state["items"] = drain(I, src)
        if not state["items"]:
            raise StopIteration
        v = state["items"][state["i"] % len(state["items"])]
        state["i"] += 1
        return deep_copy(v)
    return RIter(nxt, "cycle")


@model("std::char::methods::<impl char>::to_string", "std::char::methods::<impl char>::len_utf8")
def m_char_misc(I, args, fn, expr):
    c = strip(args[0])
    if fn["name"] == "len_utf8":
        return len(c.c.encode()) if isinstance(c, Char) else Sym("len_utf8(%s)" % _nm(c))
    return c.c if isinstance(c, Char) else c


# `vec![a, b]` expands to box_assume_init_into_vec_unsafe(write_box_via_move(Box::new_uninit(), [a, b]))
@model("alloc::intrinsics::write_box_via_move", "std::intrinsics::write_box_via_move", "core::intrinsics::write_box_via_move")
def m_write_box_via_move(I, args, fn, expr):
    return args[1]


@model("std::boxed::box_assume_init_into_vec_unsafe", "alloc::boxed::box_assume_init_into_vec_unsafe")
def m_box_into_vec(I, args, fn, expr):
    v = strip(args[0])
    if isinstance(v, RList):
        return RList(list(v.items))
    return I.top("vec! contents not understood: %r" % (v,))


@model("std::boxed::Box::<T>::new_uninit")
def m_box_new_uninit(I, args, fn, expr):
    return Sym("uninit-box")


@model("std::fmt::Formatter::<'a>::write_fmt", "std::fmt::Write::write_fmt", "std::io::Write::write_fmt")
def m_write_fmt(I, args, fn, expr):
    text = m_fmt_format(I, [args[1]], fn, expr)
    I.emit("write", text.text() if isinstance(text, StrB) else str(text))
    return ok(UNIT)


@model("std::fmt::Formatter::<'a>::write_str")
def m_write_str(I, args, fn, expr):
    t = strip(args[1])
    I.emit("write", t.text() if isinstance(t, StrB) else str(t))
    return ok(UNIT)


@model("itertools::Itertools::group_by", "itertools::Itertools::chunk_by")
def m_group_by(I, args, fn, expr):
    # consecutive elements with equal keys form one group; yields (key, group iterator)
    items = drain(I, _as_iter(I, args[0]))
    groups = []
    for x in items:
        k = I.call_value(args[1], [Ref(Place(Cell(x)))])
        if groups and values_equal(I, groups[-1][0], k):
            groups[-1][1].append(x)
        else:
            groups.append((k, [x]))
    return RList([Tup([k, iter_of(I, RList(g), by_ref=False)]) for k, g in groups])


@model("core::str::<impl str>::as_bytes", "std::string::String::as_bytes")
def m_as_bytes(I, args, fn, expr):
    s0 = strip(args[0])
    if isinstance(s0, StrB) and s0.is_concrete():
        s0 = s0.text()
    if isinstance(s0, str):
        return s0.encode()
    return Sym("as_bytes(%s)" % _nm(s0), expr["ty"] if expr else None)


@model("std::str::from_utf8", "core::str::from_utf8")
def m_from_utf8(I, args, fn, expr):
    b = strip(args[0])
    if isinstance(b, RList) and all(isinstance(strip(x), int) for x in b.items):
        b = bytes(strip(x) for x in b.items)
    if isinstance(b, (bytes, bytearray)):
        try:
            return ok(bytes(b).decode("utf-8"))
        except UnicodeDecodeError:
            return err(Sym("Utf8Error"))
    return Sym("from_utf8(%s)" % _nm(b), expr["ty"] if expr else None)


def _range_bounds(rng, n):
    rng = strip(rng)
    if not isinstance(rng, Adt):
        return None
    f = {k: strip(v) for k, v in rng.fields.items()}
    name = rng.path.rsplit("::", 1)[-1]
    lo, hi = 0, n
    if name in ("Range", "RangeFrom", "RangeInclusive"):
        lo = f.get("start")
    if name in ("Range", "RangeTo"):
        hi = f.get("end")
    if name == "RangeInclusive":
        hi = f.get("end")
        hi = hi + 1 if isinstance(hi, int) else hi
    if name == "RangeToInclusive":
        hi = f.get("end")
        hi = hi + 1 if isinstance(hi, int) else hi
    if name not in ("Range", "RangeFrom", "RangeTo", "RangeInclusive", "RangeToInclusive", "RangeFull"):
        return None
    if not (isinstance(lo, int) and isinstance(hi, int)):
        return None
    return lo, hi


@model("std::ops::RangeInclusive::<Idx>::new")
def m_range_inclusive_new(I, args, fn, expr):
    return Adt("std::ops::RangeInclusive", "RangeInclusive", {"start": args[0], "end": args[1]})


@model("std::ops::Index::index")
def m_index(I, args, fn, expr):
    base = strip(args[0])
    ix = strip(args[1])
    if isinstance(base, StrB) and base.is_concrete():
        base = base.text()
    if isinstance(base, str):
        raw = base.encode()
        r = _range_bounds(ix, len(raw))
        if r is None:
            raise Abort("index of a string with %r" % (ix,))
        lo, hi = r
        if lo > hi or hi > len(raw):
            raise PanicEx("byte index out of range of the string")
        try:
            raw[:lo].decode("utf-8")
            return raw[lo:hi].decode("utf-8")
        except UnicodeDecodeError:
            raise PanicEx("byte index is not a char boundary")
    if isinstance(base, (bytes, bytearray)):
        if isinstance(ix, int):
            if 0 <= ix < len(base):
                return base[ix]
            raise PanicEx("index out of bounds")
        r = _range_bounds(ix, len(base))
        if r is None:
            raise Abort("index of bytes with %r" % (ix,))
        lo, hi = r
        if lo > hi or hi > len(base):
            raise PanicEx("range out of bounds")
        return bytes(base[lo:hi])
    if isinstance(base, RList):
        if isinstance(ix, int) and not isinstance(ix, bool):
            if 0 <= ix < len(base.items):
                return Ref(Place(base, ix))
            raise PanicEx("index out of bounds")
        r = _range_bounds(ix, len(base.items))
        if r is not None:
            lo, hi = r
            if lo > hi or hi > len(base.items):
                raise PanicEx("range out of bounds")
            return RList(base.items[lo:hi])
    if isinstance(base, Top):
        raise Abort("index of unanalysable value: %s" % base.reason)
    return Sym("index(%s,%s)" % (_nm(base), _nm(ix)), expr["ty"] if expr else None)


@model("itertools::Itertools::coalesce")
def m_coalesce(I, args, fn, expr):
    src = _as_iter(I, args[0])
    f = args[1]
    state = {"last": None, "done": False}

    def nxt():
        if state["done"]:
            raise StopIteration
        if state["last"] is None:
            state["last"] = [src.next()]
        while True:
            try:
                cur = src.next()
            except StopIteration:
                state["done"] = True
                return state["last"][0]
            r = res(I, I.call_value(f, [state["last"][0], cur]))
            if r.variant == "Ok":
                state["last"] = [r.fields["0"]]
            else:
                pair = strip(r.fields["0"])
                out = pair.items[0]
                state["last"] = [pair.items[1]]
                return out
    return RIter(nxt, "coalesce")


@model("itertools::Itertools::dedup")
def m_dedup(I, args, fn, expr):
    src = _as_iter(I, args[0])
    state = {"last": None}

    def nxt():
        while True:
            cur = src.next()
            if state["last"] is not None and values_equal(I, state["last"][0], cur):
                continue
            state["last"] = [cur]
            return cur
    return RIter(nxt, "dedup")


@model("itertools::Itertools::intersperse", "std::iter::Iterator::intersperse")
def m_intersperse(I, args, fn, expr):
    items = drain(I, _as_iter(I, args[0]))
    out = []
    for i, x in enumerate(items):
        if i:
            out.append(deep_copy(strip(args[1])))
        out.append(x)
    return iter_of(I, RList(out), by_ref=False)


@model("std::iter::Iterator::eq")
def m_iter_eq(I, args, fn, expr):
    a = drain(I, _as_iter(I, args[0]))
    b = drain(I, _as_iter(I, m_into_iter(I, [args[1]], fn, None)))
    return len(a) == len(b) and all(values_equal(I, x, y) for x, y in zip(a, b))


@model("std::iter::Iterator::max", "std::iter::Iterator::min")
def m_iter_minmax(I, args, fn, expr):
    items = drain(I, _as_iter(I, args[0]))
    if not items:
        return none()
    best = items[0]
    for x in items[1:]:
        o = _ordering_of(I, fn, strip(best), strip(x))
        if fn["name"] == "max" and o != "Greater":
            best = x
        if fn["name"] == "min" and o == "Greater":
            best = x
    return some(best)


def _char_pred(pred, name):
    def m(I, args, fn, expr):
        c = strip(args[0])
        if isinstance(c, Char):
            return pred(c.c)
        if isinstance(c, int) and not isinstance(c, bool):
            return pred(chr(c)) if 0 <= c < 0x110000 else False
        return Sym("%s(%s)" % (name, _nm(c)), expr["ty"] if expr else None)
    return m


for _name, _pred in (("is_ascii", lambda ch: ord(ch) < 128), ("is_alphabetic", str.isalpha), ("is_numeric", str.isnumeric),
                     ("is_alphanumeric", str.isalnum), ("is_whitespace", str.isspace), ("is_lowercase", str.islower),
                     ("is_uppercase", str.isupper), ("is_ascii_digit", lambda ch: ch in "0123456789"),
                     ("is_ascii_alphabetic", lambda ch: ord(ch) < 128 and ch.isalpha()),
                     ("is_ascii_punctuation", lambda ch: ord(ch) < 128 and not ch.isalnum() and not ch.isspace() and 32 < ord(ch) < 127),
                     ("is_control", lambda ch: ord(ch) < 32 or 127 <= ord(ch) < 160)):
    MODELS["std::char::methods::<impl char>::%s" % _name] = _char_pred(_pred, _name)
    MODELS["core::char::methods::<impl char>::%s" % _name] = _char_pred(_pred, _name)
MODELS["core::num::<impl u8>::is_ascii"] = _char_pred(lambda ch: ord(ch) < 128, "is_ascii")


@model("itertools::Itertools::cartesian_product")
def m_cartesian_product(I, args, fn, expr):
    a = _as_iter(I, args[0])
    right = drain(I, _as_iter(I, m_into_iter(I, [args[1]], fn, None)))
    state = {"cur": None, "j": 0}

    def nxt():
        while True:
            if state["cur"] is None:
                state["cur"] = a.next()       # StopIteration ends the product
                state["j"] = 0
            if state["j"] < len(right):
                y = deep_copy(right[state["j"]])
                state["j"] += 1
                return Tup([deep_copy(state["cur"]), y])
            state["cur"] = None
    return RIter(nxt, "cartesian_product")


def _concrete_str(v):
    v = strip(v)
    if isinstance(v, StrB):
        return v.text() if v.is_concrete() else None
    return v if isinstance(v, str) else None


@model("core::str::<impl str>::match_indices", "core::str::<impl str>::char_indices")
def m_str_match_indices(I, args, fn, expr):
    s = _concrete_str(args[0])
    if s is None:
        raise Abort("%s of a symbolic string" % fn["name"])
    out = []
    pos = 0
    for ch in s:
        n = len(ch.encode())
        if fn["name"] == "char_indices":
            out.append(Tup([pos, Char(ch)]))
        else:
            pat = strip(args[1])
            if isinstance(pat, Char):
                hit = pat.c == ch
            elif isinstance(pat, str):
                raise Abort("match_indices with a string pattern")
            else:
                hit = truth(I, I.call_value(args[1], [Char(ch)]), "pattern(%s)" % ch)
            if hit:
                out.append(Tup([pos, ch]))
        pos += n
    return iter_of(I, RList(out), by_ref=False)
