"""Helpers to tabulate a function over finite abstract inputs."""
import itertools

from .teval import Interp, Adt, Case, Top, Panicked, strip


def enum_values(F, path):
    return [Adt(path, v, {}) for v in F.variants(path)]


def table(I, item, arg_domains, mk_args=None):
    """Evaluate `item` on the cartesian product of argument domains.  Returns list of
    (args tuple, [Case...])."""
    rows = []
    for combo in itertools.product(*arg_domains):
        def run(combo=combo):
            args = [c() if callable(c) else c for c in combo]
            return I.call_item(item, args)
        rows.append((combo, I.explore(run)))
    return rows


def single(cases):
    """The unique result of a deterministic evaluation (one case), else None."""
    if len(cases) == 1:
        return cases[0].result
    return None
